"""C14  Graph parsing is faithful and insensitive to presentation."""
from __future__ import annotations

import builtins
import copy
import random

from core import Prop

# ---------------------------------------------------------------------------
# Lean literals for the generated tables


def lchar(c):
    o = ord(c)
    assert o < 128, c
    if c == "'":
        return "'\\''"
    if c == '\\':
        return "'\\\\'"
    if 32 <= o < 127:
        return "'" + c + "'"
    return 'Char.ofNat %d' % o


def lchars(s):
    return '[' + ', '.join(lchar(c) for c in s) + ']'


def lbool(b):
    return 'true' if b else 'false'


def llist(items):
    return '[' + ', '.join(items) + ']'


ASCII = [chr(i) for i in range(0, 128)]

# ---------------------------------------------------------------------------
# structure -> text.  A case is a list of lines; a line is a chain (list) of expression trees
#   T = {"n": {"name","off","q","opt","sui"}} | {"and":[T,T]} | {"or":[T,T]} | {"par":T}
# and a *presentation* says how the token sequence of each line is laid out as text.


def node(name, off='', q='', opt=False, sui=False):
    return {'n': {'name': name, 'off': off, 'q': q, 'opt': bool(opt), 'sui': bool(sui)}}


def AND(l, r):
    return {'and': [l, r]}


def OR(l, r):
    return {'or': [l, r]}


def PAR(t):
    return {'par': t}


def node_text(n):
    return (('!' if n['sui'] else '') + n['name'] + n['off']
            + ((':' + n['q']) if n['q'] else '') + ('?' if n['opt'] else ''))


def tree_toks(t):
    """token list of an expression: node texts and the one-character tokens & | ( )"""
    if 'n' in t:
        return [node_text(t['n'])]
    if 'and' in t:
        return tree_toks(t['and'][0]) + ['&'] + tree_toks(t['and'][1])
    if 'or' in t:
        return tree_toks(t['or'][0]) + ['|'] + tree_toks(t['or'][1])
    return ['('] + tree_toks(t['par']) + [')']


def tree_nodes(t):
    if 'n' in t:
        return [t['n']]
    if 'and' in t:
        return tree_nodes(t['and'][0]) + tree_nodes(t['and'][1])
    if 'or' in t:
        return tree_nodes(t['or'][0]) + tree_nodes(t['or'][1])
    return tree_nodes(t['par'])


def chain_toks(chain):
    out = []
    for k, e in enumerate(chain):
        if k:
            out.append('=>')
        out += tree_toks(e)
    return out


OPS = ('=>', '&', '|')


def tok_json(t):
    return t if t in ('=>', '&', '|', '(', ')') else {'n': t}


def blank_text(b):
    return b[0] + (('#' + b[1]) if b[1] is not None else '')


def seg_text(seg):
    out = []
    for ws, t in seg['items']:
        out.append(ws)
        out.append(t if isinstance(t, str) else t['n'])
    out.append(seg['tw'])
    if seg.get('c') is not None:
        out.append('#' + seg['c'])
    return ''.join(out)


def form_text(form):
    """the graph string of a form: leading blank lines, then every segment followed by its blank lines"""
    phys = [blank_text(b) for b in form['pre']]
    for ln in form['lines']:
        for seg in ln['segs']:
            phys.append(seg_text(seg))
            phys += [blank_text(b) for b in seg['blank']]
    return '\n'.join(phys)


def conj(nodes):
    t = nodes[-1]
    for n in reversed(nodes[:-1]):
        t = AND(n, t)
    return t


def line_elems(line):
    """elements of a line as trees"""
    if 'lone' in line:
        return [conj([{'n': n} for n in line['lone']])]
    return [line['head']] + [conj([{'n': n} for n in e]) for e in line['rest']]


# ---------------------------------------------------------------------------
# deterministic order among pairs with the same left side (Python set order in the real code)

def _sorted_total(it, key=None, reverse=False):
    """Stands in for the builtin `sorted` inside cylc.flow.graph_parser: the real code sorts a *set* of
    (left, right) pairs by str(left) only, so pairs with equal left sides come out in hash order.  One
    admissible order is fixed here: ascending right-hand text."""
    items = list(it)
    if key is not None and items and all(isinstance(p, tuple) and len(p) == 2 for p in items):
        items = builtins.sorted(items, key=lambda p: p[1])
    return builtins.sorted(items, key=key, reverse=reverse)


_RT = {}


def probe_flags(gp):
    """behaviour of the live parser on witnesses of the recorded findings / findings/C14-fix-*.diff"""
    def run(text):
        p = gp.GraphParser()
        try:
            p.parse_graph(text)
        except gp.GraphParseError:
            return 'gpe', p
        except Exception as exc:
            return type(exc).__name__, p
        return 'ok', p
    flags = {}
    # (witnesses chosen so that none of the other changes rejects them)
    flags['nodeCheckAllLines'] = run('@x:y => d\nd => e')[0] == 'gpe'
    flags['rhsBadIsGPE'] = run('a => @x')[0] == 'gpe'
    flags['exprChecked'] = run('a| => b')[0] == 'gpe'
    st, p = run('a => b\nx => b => c')
    if st != 'ok':
        raise ValueError('probe: "a => b / x => b => c" is rejected')
    flags['midInfer'] = ('b', 'succeeded') in p.task_output_opt
    return flags


def translate_tables():
    import re
    import cylc.flow.graph_parser as gp
    import cylc.flow.task_qualifiers as tq
    from cylc.flow.task_id import TaskID
    G = gp.GraphParser
    L = ['/- GENERATED on every run by harness/props/c14.py from the live source',
         '   (cylc/flow/graph_parser.py, task_id.py, task_qualifiers.py).  DO NOT EDIT. -/',
         'namespace CylcModel.Generated.GraphTables', '']

    def strdef(name, s, doc=None):
        if doc:
            L.append(f'/-- {doc} -/')
        L.append(f'def {name} : List Char := {lchars(s)}')

    for lean, py in [('outExpired', 'TASK_OUTPUT_EXPIRED'), ('outSubmitted', 'TASK_OUTPUT_SUBMITTED'),
                     ('outSubmitFailed', 'TASK_OUTPUT_SUBMIT_FAILED'), ('outStarted', 'TASK_OUTPUT_STARTED'),
                     ('outSucceeded', 'TASK_OUTPUT_SUCCEEDED'), ('outFailed', 'TASK_OUTPUT_FAILED'),
                     ('outFinished', 'TASK_OUTPUT_FINISHED')]:
        strdef(lean, getattr(gp, py))
    L.append('/-- task_qualifiers.ALT_QUALIFIERS (TaskTrigger.standardise_name) -/')
    L.append('def altQualifiers : List (List Char × List Char) := '
             + llist([f'({lchars(k)}, {lchars(v)})' for k, v in tq.ALT_QUALIFIERS.items()]))
    L.append('/-- keys of GraphParser.fam_to_mem_trigger_map (family triggers, illegal on plain tasks) -/')
    L.append('def famTriggers : List (List Char) := ' + llist([lchars(k) for k in G.fam_to_mem_trigger_map]))
    strdef('arrow', G.ARROW, 'GraphParser.ARROW')
    L.append('/-- GraphParser.CONTINUATION_STRS -/')
    L.append('def continuationStrs : List (List Char) := ' + llist([lchars(k) for k in G.CONTINUATION_STRS]))
    L.append('/-- GraphParser.BAD_STRS -/')
    L.append('def badStrs : List (List Char) := ' + llist([lchars(k) for k in G.BAD_STRS]))
    L.append('')
    L.append('/-! Character classes, tabulated over ASCII by probing the compiled regexes / str methods. -/')
    ws_py = [c for c in ASCII if c.isspace()]
    ws_re = [c for c in ASCII if re.fullmatch(r'\s', c)]
    ws_split = [c for c in ASCII if c != '\n' and ''.join(('a' + c + 'b').split()) == 'ab']
    if ws_py != ws_re or [c for c in ws_py if c != '\n'] != ws_split:
        raise ValueError('white space: str.isspace, \\s and str.split disagree on ASCII')
    strdef('wsChars', ws_py, 'str.isspace() = re \\s = what str.split() removes, on ASCII')
    D = [c for c in map(chr, range(33, 127)) if c not in '!@()&|=><#?:[]']

    def full(t):
        return G.REC_NODE_FULL.sub('', t, 1) == ''

    def grp(R, pre, t, idx):
        m = R.fullmatch(pre + t)
        return bool(m) and m.group(idx) == t

    tabs = {
        'full': (lambda t: full(t), lambda t: full(t), lambda t: full('a' + t), lambda t: full('a' + t)),
        'nodes': tuple((lambda t, pre=pre, i=i: grp(G.REC_NODES, pre, t, i))
                       for pre, i in (('', 1), ('', 1), ('a', 3), ('a', 2))),
        'rhs': tuple((lambda t, pre=pre, i=i: grp(G.REC_RHS_NODE, pre, t, i))
                     for pre, i in (('', 2), ('', 2), ('a', 4), ('a', 3))),
    }
    L.append('structure Cls where')
    L.append('  nameFirst : List Char')
    L.append('  nameRest : List Char')
    L.append('  qual : List Char')
    L.append('  offset : List Char')
    L.append('  deriving DecidableEq, Repr')
    for name, (f_first, f_rest, f_qual, f_off) in tabs.items():
        L.append(f'/-- NAME / QUALIFIER / OFFSET character classes of REC_{ {"full": "NODE_FULL", "nodes": "NODES", "rhs": "RHS_NODE"}[name] } -/')
        L.append(f'def {name}Cls : Cls := {{')
        L.append('  nameFirst := ' + lchars([c for c in D if f_first(c + 'b')]) + ',')
        L.append('  nameRest := ' + lchars([c for c in D + ['@'] if f_rest('a' + c + 'b')]) + ',')
        L.append('  qual := ' + lchars([c for c in D if f_qual(':x' + c + 'y')]) + ',')
        L.append('  offset := ' + lchars([c for c in D + [':'] if f_off('[x' + c + 'y]')]) + ' }')
    strdef('xtrigChars', [c for c in D if G.REC_XTRIG.fullmatch('@x' + c + 'y')], 'REC_XTRIG: @[...]+')
    name_rec = re.compile(TaskID.NAME_RE)
    strdef('bsNameFirst', [c for c in ASCII if name_rec.fullmatch(c)], 'TaskID.NAME_RE, first character')
    strdef('bsNameRest', [c for c in ASCII if name_rec.fullmatch('a' + c)], 'TaskID.NAME_RE, other characters')
    strdef('bsSuffix', [c for c in ASCII if re.fullmatch(TaskID.NAME_SUFFIX_RE, c)], 'TaskID.NAME_SUFFIX_RE')
    strdef('nodeStartBlock', [c for c in ASCII if c != '\n' and not re.compile(G._RE_NODE_START + 'Z').match(c + 'Z', 1)],
           'characters that may not precede a rewritten node (_RE_NODE_START)')
    strdef('nameEndBlock', [c for c in ASCII if c != '\n' and not re.match('Z' + G._RE_NAME_END, 'Z' + c)],
           'characters that may not follow a rewritten unqualified node (_RE_NAME_END)')
    strdef('qualEndBlock', [c for c in ASCII if c != '\n' and not re.match('Z' + G._RE_QUAL_END, 'Z' + c)],
           'characters that may not follow a rewritten qualified node (_RE_QUAL_END)')
    L.append('')
    L.append('/-! Behaviour flags probed on the live parser (witnesses of findings/C14.json, findings/C14-fix-1..3.diff). -/')
    docs = {
        'nodeCheckAllLines': 'the node-syntax check applies to every line (false: only to the last line)',
        'rhsBadIsGPE': 'a right-hand node REC_RHS_NODE cannot read raises GraphParseError (false: ValueError)',
        'exprChecked': 'left and right expressions must be well-formed operator/parenthesis skeletons',
        'midInfer': 'a plain node followed by "=>" somewhere gets :succeeded inferred even if it ends a chain elsewhere',
    }
    for k, v in probe_flags(gp).items():
        L.append(f'/-- {docs[k]} -/')
        L.append(f'def {k} : Bool := {lbool(v)}')
    L += ['', 'end CylcModel.Generated.GraphTables', '']
    return {'GraphTables.lean': '\n'.join(L)}


# name pools -----------------------------------------------------------------
TASKS = ['a', 'b', 'c', 'd', 'x', 'y', 'foo', 'bar', 'a-x', 'x-a', 'a+b', 'm1', 'm10', 't%1', 'u@v', '_u', '1st',
         'foo-bar', 'ab', 'b-a', 'Zed', 'a_1']
OFFSETS = ['[-P1]', '[+P2]', '[^]', '[-P1D]', '[2]', '[^+P1]', '[-P1:x]']
STD_Q = ['succeed', 'succeeded', 'fail', 'failed', 'finish', 'finished', 'start', 'started', 'submit', 'submitted',
         'submit-fail', 'submit-failed', 'expire', 'expired']
CUSTOM_Q = ['x', 'out-1', 'fail-x', '1', 'a_b']
FAM_Q = ['succeed-all', 'fail-any', 'finish-all', 'start-any']
XTRIGS = ['@x', '@wall-clock', '@x+1', '@a%b']
WS = ['', '', ' ', ' ', '  ', '\t', ' \t ']
COMMENTS = ['', ' c', ' a => b', '# x', ' foo & bar | (baz)', '!@$%^*', ' "quoted" \'text\'', ' => ', ' \\']
_POOL = {'comments': COMMENTS}

MUT_CHARS = 'ab1:?[]!@&|()=> #\t-+%^._$,/*~"\\'


def rand_ws(rng):
    return rng.choice(WS)


def rand_blank(rng):
    return [rng.choice(['', ' ', '\t', '   ']), rng.choice(_POOL['comments']) if rng.random() < 0.6 else None]


def is_op(t):
    return t in OPS


def layout(rng, toks, plain=False):
    """lay a token list out over physical lines: breaks only next to exactly one of => & |"""
    segs = []
    cur = []
    for k, t in enumerate(toks):
        if k and not plain and (is_op(toks[k - 1]) != is_op(t)) and rng.random() < 0.18:
            segs.append({'items': cur, 'tw': rand_ws(rng), 'c': rng.choice(_POOL['comments']) if rng.random() < 0.4 else None,
                         'blank': [rand_blank(rng) for _ in range(rng.choice([0, 0, 0, 1, 2]))]})
            cur = []
        if plain:
            ws = ' ' if (k and (t == '=>' or toks[k - 1] == '=>')) else ''
        else:
            ws = rand_ws(rng)
        cur.append([ws, tok_json(t)])
    if plain:
        segs.append({'items': cur, 'tw': '', 'c': None, 'blank': []})
    else:
        segs.append({'items': cur, 'tw': rand_ws(rng), 'c': rng.choice(_POOL['comments']) if rng.random() < 0.3 else None,
                     'blank': [rand_blank(rng) for _ in range(rng.choice([0, 0, 0, 1, 2]))]})
    return segs


def slice_toks(line, a, b):
    return chain_toks(line_elems(line)[a:b])


def n_elems(line):
    return 1 if 'lone' in line else 1 + len(line['rest'])


def make_form(rng, lines, how):
    """how: 'plain' (every line whole, in order, minimal white space), 'pairs' (every chain cut into its
    links), 'mixed' (random cuts, duplicates, shuffled)"""
    parts = []
    for j, ln in enumerate(lines):
        n = n_elems(ln)
        if n == 1:
            parts.append((j, 0, 1))
            continue
        if how == 'plain':
            cuts = []
        elif how == 'pairs':
            cuts = list(range(1, n - 1))
        else:
            cuts = [k for k in range(1, n - 1) if rng.random() < 0.5]
        bounds = [0] + cuts + [n - 1]
        for u, v in zip(bounds, bounds[1:]):
            parts.append((j, u, v + 1))
    if how != 'plain':
        for _ in range(rng.choice([0, 0, 1, 2])):
            parts.append(rng.choice(parts))
        if how == 'mixed' or rng.random() < 0.5:
            rng.shuffle(parts)
    form = {'pre': [] if how == 'plain' else [rand_blank(rng) for _ in range(rng.choice([0, 0, 1]))], 'lines': []}
    for j, u, v in parts:
        form['lines'].append({'src': [j, u, v], 'segs': layout(rng, slice_toks(lines[j], u, v), plain=(how == 'plain'))})
    return form


def ast_case(rng, lines, nforms, cfg=False):
    # (a backslash at the end of a line is a continuation for parsec: not used when the text goes through a file)
    _POOL['comments'] = [c for c in COMMENTS if '\\' not in c] if cfg else COMMENTS
    forms = [make_form(rng, lines, 'plain')]
    kinds = ['pairs', 'mixed', 'mixed', 'whole', 'mixed', 'pairs', 'mixed', 'whole', 'mixed']
    for k in range(nforms - 1):
        kind = kinds[k % len(kinds)]
        if kind == 'whole':
            f = make_form(rng, lines, 'plain')
            for ln in f['lines']:
                ln['segs'] = layout(rng, slice_toks(lines[ln['src'][0]], ln['src'][1], ln['src'][2]))
            forms.append(f)
        else:
            forms.append(make_form(rng, lines, kind))
    _POOL['comments'] = COMMENTS
    out = {'kind': 'ast', 'lines': lines, 'forms': forms, 'texts': [form_text(f) for f in forms]}
    if cfg:
        out['cfg'] = True
    return out


def raw_case(text, how='given'):
    return {'kind': 'raw', 'text': text, 'how': how}


# random structure -----------------------------------------------------------------

def rand_node(rng, names, side, style):
    """side: 'L' head of a chain, 'R' later element, 'F' lone line"""
    if side == 'L' and rng.random() < 0.05:
        return {'name': rng.choice(XTRIGS), 'off': '', 'q': '', 'opt': False, 'sui': False}
    wild = style == 'wild'
    name = rng.choice(names)
    rq = rng.random()
    if rq < 0.45:
        q = ''
    elif rq < 0.9:
        q = rng.choice(['succeed', 'succeeded', 'start', 'started', 'submit', 'submitted'] if style == 'req' else STD_Q)
    elif rq < (0.97 if wild else 0.995):
        q = rng.choice(CUSTOM_Q)
    else:
        q = rng.choice(FAM_Q)
    off = ''
    if (side == 'L' and rng.random() < 0.2) or (side != 'L' and rng.random() < (0.04 if wild else 0.01)):
        off = rng.choice(OFFSETS)
    if q in ('finish', 'finished'):
        opt = wild and rng.random() < 0.2
    elif style == 'allopt':
        opt = True
    elif style == 'req':
        opt = False
    elif style == 'natural':
        opt = q in ('fail', 'failed', 'expire', 'expired', 'submit-fail', 'submit-failed')
    else:
        opt = rng.random() < 0.35
    sui = (side == 'R' and rng.random() < 0.07) or (side != 'R' and wild and rng.random() < 0.03)
    return {'name': name, 'off': off, 'q': q, 'opt': bool(opt), 'sui': bool(sui)}


def rand_tree(rng, names, depth, style):
    r = rng.random()
    if depth <= 0 or r < 0.3:
        return {'n': rand_node(rng, names, 'L', style)}
    l = rand_tree(rng, names, depth - 1, style)
    rt = rand_tree(rng, names, depth - 1, style)
    if r < 0.65:
        l = PAR(l) if 'or' in l else l
        rt = PAR(rt) if 'or' in rt else rt
        t = AND(l, rt)
    else:
        t = OR(l, rt)
    if rng.random() < 0.15:
        t = PAR(t)
    return t


def rand_lines(rng):
    names = rng.sample(TASKS, rng.randint(2, 6))
    style = rng.choice(['allopt'] * 5 + ['req'] * 7 + ['natural'] * 4 + ['wild'] * 3)
    lines = []
    for _ in range(rng.choice([1, 1, 2, 2, 3, 3, 4])):
        k = rng.choice([1, 2, 2, 2, 3, 3, 3, 4, 5])
        if k == 1:
            lines.append({'lone': [rand_node(rng, names, 'F', style) for _ in range(rng.choice([1, 1, 2]))]})
        else:
            head = rand_tree(rng, names, rng.choice([0, 0, 1, 1, 2, 3]), style)
            rest = [[rand_node(rng, names, 'R', style) for _ in range(rng.choice([1, 1, 1, 2, 3]))] for _ in range(k - 1)]
            lines.append({'head': head, 'rest': rest})
    return lines


ALIAS_STD = {'submit': 'submitted', 'fail': 'failed', 'start': 'started', 'succeed': 'succeeded',
             'expire': 'expired', 'finish': 'finished', 'submit-fail': 'submit-failed'}


def same_task_lines(rng):
    """one task named several times in one left-hand expression, with nodes that are prefixes of one another:
    an alias / standard qualifier next to the same qualifier extended with "-..." (built-in: submit and
    submit-fail; custom outputs like fail-safe), a name next to the name extended with -+%@, with and without
    offset / qualifier.  (Whole nodes are rewritten in the recorded expression; a longer node must stay intact.)"""
    base = rng.choice(['a', 'foo', 'm1', 'a-x', 't%1', 'u@v', '_u'])
    others = [n for n in ['b', 'c', 'x', 'bar', 'Zed'] if n != base]
    off = rng.choice(['', '', '', '[-P1]', '[^]'])
    kind = rng.choice(['qual', 'qual', 'qual', 'qual', 'name', 'offset', 'mixed'])

    def leaf(name, o, q):
        opt = not q.startswith('finish') or q not in ('finish', 'finished')
        if q == '' and rng.random() < 0.5:
            opt = False
        return {'n': {'name': name, 'off': o, 'q': q, 'opt': bool(opt), 'sui': False}}

    def qual_pair():
        a = rng.choice(['submit', 'fail', 'start', 'succeed', 'expire', 'finish'])
        q1 = rng.choice([a, a, a, ALIAS_STD[a]])
        if a == 'submit' and rng.random() < 0.5:
            q2 = rng.choice(['submit-fail', 'submit-failed']) if q1 == 'submit' else 'submitted-x'
        else:
            q2 = q1 + '-' + rng.choice(['safe', 'up', 'x', '1', 'fail', 'all', 'a_b'])
        return [q1, q2]

    leaves = []
    if kind in ('qual', 'mixed'):
        q1, q2 = qual_pair()
        leaves += [leaf(base, off, q1), leaf(base, off, q2)]
        if rng.random() < 0.3:
            leaves.append(leaf(base, off, rng.choice(['', q2 + '-y', ALIAS_STD.get(q1, q1)])))
    if kind in ('name', 'mixed'):
        q = rng.choice(['', '', 'fail', 'x', 'start'])
        ext = rng.choice(['-x', '+1', '%1', '@v', '-' + base, '_1', '1'])
        leaves += [leaf(base, off, q), leaf(base + ext, off, q)]
        if rng.random() < 0.4:
            leaves.append(leaf('x-' + base, off, q))
    if kind in ('offset', 'mixed'):
        q = rng.choice(['', 'fail', 'succeed'])
        leaves += [leaf(base, '', q), leaf(base, '[-P1]', q), leaf(base, rng.choice(['[-P1D]', '[-P1:x]', '[-P12]']), q)]
    if rng.random() < 0.4:
        leaves.append({'n': rand_node(rng, others, 'L', 'allopt')})
    # one entry per distinct node text, in random order
    seen, uniq = set(), []
    for lf in leaves:
        t = node_text(lf['n'])
        if t not in seen:
            seen.add(t)
            uniq.append(lf)
    rng.shuffle(uniq)
    tree = uniq[0]
    for lf in uniq[1:]:
        if rng.random() < 0.6:
            tree = OR(tree, lf)
        else:
            tree = AND(PAR(tree) if 'or' in tree else tree, lf)
    if rng.random() < 0.2:
        tree = PAR(tree)
    rest = [[{'name': rng.choice(others), 'off': '', 'q': '', 'opt': False, 'sui': False}]
            for _ in range(rng.choice([1, 1, 2]))]
    lines = [{'head': tree, 'rest': rest}]
    if rng.random() < 0.3:
        lines += plain_lines(rng)[:1]
    return lines


def plain_lines(rng):
    """graphs of plain and lightly qualified nodes over few names: end-of-chain / chain-vs-pairs situations"""
    names = rng.sample(['a', 'b', 'c', 'd', 'x'], rng.randint(2, 4))
    lines = []
    for _ in range(rng.choice([2, 3, 3, 4])):
        k = rng.choice([1, 2, 2, 3, 3, 4])
        def nd():
            r = rng.random()
            q, opt = ('', False) if r < 0.7 else (('fail', True) if r < 0.85 else ('', True))
            return {'name': rng.choice(names), 'off': '', 'q': q, 'opt': opt, 'sui': False}
        if k == 1:
            lines.append({'lone': [nd()]})
        else:
            lines.append({'head': {'n': nd()}, 'rest': [[nd() for _ in range(rng.choice([1, 1, 2]))] for _ in range(k - 1)]})
    return lines


def config_lines(rng):
    """graphs WorkflowConfig is likely to accept: no self-edges, integer offsets on heads only, built-in
    qualifiers, one optionality style"""
    names = rng.sample(['a', 'b', 'c', 'd', 'x', 'y', 'foo', 'bar', 'a-x', 'm1'], rng.randint(4, 8))
    style = rng.choice(['req', 'req', 'allopt'])
    quals = ['', '', 'succeed', 'started', 'submit'] if style == 'req' else ['', 'fail', 'succeeded', 'start', 'finish']

    def nd(name, head):
        q = rng.choice(quals)
        return {'name': name, 'off': rng.choice(['[-P1]', '[+P2]']) if head and rng.random() < 0.2 else '',
                'q': q, 'opt': style == 'allopt' and q != 'finish', 'sui': False}
    lines = []
    for _ in range(rng.choice([1, 2, 2, 3])):
        k = rng.choice([2, 3, 3, 4])
        order = rng.sample(names, min(len(names), k + 2))
        h = order[:rng.choice([1, 1, 2, 3])]
        rest_names = [x for x in order if x not in h]
        head = {'n': nd(h[0], True)}
        for x in h[1:]:
            if rng.random() < 0.5:
                head = OR(head, {'n': nd(x, True)})
            else:
                head = AND(PAR(head) if 'or' in head else head, {'n': nd(x, True)})
        if 'or' in head and rng.random() < 0.5:
            head = PAR(head)
        rest = [[nd(x, False)] for x in rest_names[:k - 1]]
        if rest:
            lines.append({'head': head, 'rest': rest})
    return lines


# mutations (malformed renderings) -----------------------------------------------------

def mutate(rng, text):
    """one small edit of a graph string; returns (text, kind)"""
    kind = rng.choice(['ins', 'ins', 'del', 'rep', 'dupop', 'dangle', 'lead', 'swapq', 'junkoff', 'space', 'paren',
                       'bang', 'xtrig', 'emptynode', 'ins', 'rep'])
    n = len(text)
    pos = rng.randrange(n + 1)
    if kind == 'ins':
        return text[:pos] + rng.choice(MUT_CHARS) + text[pos:], kind
    if kind == 'del' and n:
        pos = rng.randrange(n)
        return text[:pos] + text[pos + 1:], kind
    if kind == 'rep' and n:
        pos = rng.randrange(n)
        return text[:pos] + rng.choice(MUT_CHARS) + text[pos + 1:], kind
    if kind == 'dupop':
        ops = [i for i, c in enumerate(text) if c in '&|'] + [i for i in range(n - 1) if text[i:i + 2] == '=>']
        if ops:
            i = rng.choice(ops)
            op = '=>' if text[i] == '=' else text[i]
            return text[:i] + op + rng.choice(['', ' ']) + text[i:], kind
    if kind == 'dangle':
        return text + rng.choice([' =>', ' &', ' |', '=>', '&', '\n=>', '\n &']), kind
    if kind == 'lead':
        return rng.choice(['=> ', '& ', '| ', '=>', ' |']) + text, kind
    if kind == 'swapq':
        import re
        m = list(re.finditer(r'(:[\w\-]+)(\?)', text)) + list(re.finditer(r'(\[[^\]\n]*\])(:[\w\-]+)', text))
        if m:
            mm = rng.choice(m)
            return text[:mm.start()] + mm.group(2) + mm.group(1) + text[mm.end():], kind
    if kind == 'junkoff':
        idx = [i for i, c in enumerate(text) if c == ']']
        if idx:
            i = rng.choice(idx)
            return text[:i + 1] + rng.choice(['x', '1', '[', '[2]', '-']) + text[i + 1:], kind
    if kind == 'space':
        import re
        m = list(re.finditer(r'\w\w', text))
        if m:
            i = rng.choice(m).start() + 1
            return text[:i] + rng.choice([' ', '\t', '  ']) + text[i:], kind
    if kind == 'paren':
        idx = [i for i, c in enumerate(text) if c in '()']
        r = rng.random()
        if idx and r < 0.4:
            i = rng.choice(idx)
            return text[:i] + text[i + 1:], kind
        if idx and r < 0.6:
            i = rng.choice(idx)
            return text[:i] + (')' if text[i] == '(' else '(') + text[i + 1:], kind
        return text[:pos] + rng.choice(['(', ')', '()', ')(']) + text[pos:], kind
    if kind == 'bang':
        return text[:pos] + rng.choice(['!', '!!', '! ']) + text[pos:], kind
    if kind == 'xtrig':
        return text + rng.choice([' => @x', ' & @x', '@x']), kind
    if kind == 'emptynode':
        import re
        m = list(re.finditer(r'[\w\-+%@:\[\]\^\?!]+', text))
        if m:
            mm = rng.choice(m)
            return text[:mm.start()] + text[mm.end():], kind
    return text[:pos] + rng.choice(MUT_CHARS) + text[pos:], 'ins'


def _impl_index(k):
    return PROP.impl(_RT['inputs'][k])


FLOW_TMPL = """[scheduler]
    allow implicit tasks = True
[scheduling]
    cycling mode = integer
    initial cycle point = 1
    [[graph]]
        P1 = \"\"\"
%s
        \"\"\"
"""


def _canon_exp(e):
    if isinstance(e, list):
        return [_canon_exp(x) for x in e]
    return str(e)


def config_digest(text):
    """second stage: the graph through WorkflowConfig; digest of TaskDef dependencies, outputs and graph
    edges (or the exception type).  None = not comparable (a backslash would be a parsec continuation)."""
    import hashlib
    import json
    import os
    import tempfile
    if '\\' in text or '"""' in text:
        return None
    d = os.path.join(_RT.get('tmp') or tempfile.gettempdir(), 'w%d' % os.getpid())
    os.makedirs(d, exist_ok=True)
    f = os.path.join(d, 'flow.cylc')
    with open(f, 'w') as fh:
        fh.write(FLOW_TMPL % text)
    try:
        c = _RT['WorkflowConfig']('c14', f, _RT['RunOptions']())
    except Exception as exc:
        return 'err:' + type(exc).__name__
    tasks = {}
    for n, td in c.taskdefs.items():
        deps = []
        for seq, dl in td.dependencies.items():
            for dep in dl:
                deps.append([str(seq), json.dumps(_canon_exp(dep._exp)), bool(dep.suicide)])
        tasks[n] = [sorted(deps), sorted([k, v[1]] for k, v in td.outputs.items())]
    # real edges as they are; the pseudo-edges (node, None) that mark a node as present only as the set of
    # nodes that occur in no real edge (a chain head gets one, the same node inside a chain does not)
    import re
    real = sorted([str(seq)] + [str(x) for x in e] for seq, es in c.edges.items() for e in es if e[1] is not None)
    used = set()
    for e in real:
        used.add(re.match(r'[\w\-+%@]+', e[1]).group(0))
        used.add(e[2])
    lone = sorted({str(e[0]) for es in c.edges.values() for e in es if e[1] is None} - used)
    blob = json.dumps({'tasks': tasks, 'edges': real, 'lone': lone}, sort_keys=True)
    return hashlib.sha1(blob.encode()).hexdigest()[:16]


class C14(Prop):
    id = 'C14'
    props_modules = ['CylcModel.Props.C14']
    theorems = [
        'CylcModel.C14.tables_ok',
        'CylcModel.C14.rewrite_boundaries_ok',
        'CylcModel.C14.text_layer',
        'CylcModel.C14.text_layer_checked',
        'CylcModel.C14.parse_text_of_layout',
        'CylcModel.C14.lines_set_invariant',
        'CylcModel.C14.chain_vs_pairs',
        'CylcModel.C14.chain_vs_pairs_partial',
        'CylcModel.C14.chain_vs_pairs_counterexample',
        'CylcModel.C14.triggers_recorded',
        'CylcModel.C14.triggers_origin',
        'CylcModel.C14.expression_meaning',
        'CylcModel.C14.optionality_recorded',
        'CylcModel.C14.optionality_origin',
        'CylcModel.C14.node_text_injective',
        'CylcModel.C14.malformed_rejected_partial_leading',
        'CylcModel.C14.malformed_rejected_partial_dangling',
        'CylcModel.C14.malformed_rejected_partial_spaces',
        'CylcModel.C14.malformed_rejected_partial_lines',
    ]
    statement_note = (
        'partial. [rewrite_boundaries_ok] the look-around sets of the live regexes that delimit a rewritten node '
        'contain every character that can continue a node (generated table, decide). Proved for all inputs (no '
        'size bounds): TEXT LAYER [text_layer, text_layer_checked, '
        'parse_text_of_layout] every layout of token lines - any white space at token boundaries, trailing '
        'comments, blank/comment-only lines, line breaks with their own comments next to => & | - is read by the '
        'first two loops of parse_graph (port: comments, bad-spaces regex, white-space stripping, continuation '
        'joining) as the same canonical lines, so all layouts of the same token lines give the same parse result, '
        'well-formed or not; STRUCTURE LAYER on graph ASTs (lone conjunctions / chains head => c1 => c2..): '
        '[lines_set_invariant] duplicated lines and the order of lines do not matter (the sequential table updates '
        'with their conflict checks are characterised by the set of declarations), [chain_vs_pairs] a chain cut at '
        'an inner element into two chains gives the same tables given the mid-chain inference of '
        'findings/C14-fix-3.diff, [chain_vs_pairs_partial] the same for the code as probed (hypothesis: flag '
        'midInfer regenerated from the live parser), [chain_vs_pairs_counterexample] it is false without it (the '
        'unchanged code: a => b / x => b => c / b:fail? => d); FAITHFULNESS [triggers_recorded, triggers_origin, '
        'expression_meaning] the recorded non-empty trigger expressions are exactly the expressions of the written '
        'left sides (whole if conditional/parenthesised, else per &-joined node), with the right node\'s suicide '
        'flag, and mean them (plain = succeeded, alias = standard output, finish = succeeded or failed); '
        '[optionality_recorded, optionality_origin] the optionality table holds exactly what right-hand / lone '
        'nodes without suicide mark declare (explicit qualifier with or without ?, inferred succeeded, finish = '
        'succeeded and failed optional); '
        '[node_text_injective] valid node texts determine nodes; MALFORMED [malformed_rejected_partial_*] leading / '
        'dangling operators, && / ||, two names separated by white space, bad nodes on the lines the node check '
        'looks at are rejected with GraphParseError. NOT proved: (a) parseText on canonical lines = parseStruct on '
        'the AST (regex lexing of nodes/expressions of well-formed lines: tied by correspondence only, both models '
        'are compared with the real parser on every AST case); (b) rejection of every text outside the grammar - '
        'false on the unchanged code (findings bad-node-not-last-line, lone-line-unchecked, expression-unchecked, '
        'rhs-valueerror); (c) the end-of-chain rule for the inferred :succeeded is only characterised through the '
        'model function rightOutput in optionality_origin (explicit qualifiers: optionality_recorded)')
    technique = ('fold characterisation by sets of declarations (invariants over the assoc-list tables) + '
                 'automaton/induction proofs over laid-out token lines + generated-table decide + seeded correspondence '
                 'of two models with a spec-side reference reader as judge')
    trusted = [
        'pairs with equal left-hand sides are processed by the real code in Python set order; the harness fixes '
        'that order (ascending right-hand text) by shadowing `sorted` inside cylc.flow.graph_parser',
        'the regexes of graph_parser.py are ported as hand matchers (character classes and look-around sets '
        'tabulated from the compiled regexes on every run); Python re / str semantics for them',
        'the judge reads recorded expression strings back as boolean expressions (& binds tighter than |) and '
        'compares meanings on all valuations up to 8 atoms (sampled beyond)',
        'the reference reader of the judge (Drv/C14.lean, Spec.*): its grammar is the documented node / expression '
        'format; white space inside a node other than between two names gets no verdict on acceptance',
    ]
    unmodelled = [
        '<parameter> expansion and <workflow::task> markers (texts containing "<" are not generated), '
        'REC_NODE_OUT_OF_RANGE (texts containing "-3276"), families (C15), expire_triggers mode, Cylc-7 '
        'back-compat mode, task_output_opt shared between graph sections, a task literally named None',
        'second stage through WorkflowConfig: not modelled; every 6th AST case is also loaded through '
        'WorkflowConfig in every form and the judge requires forms with equal parser tables to give equal TaskDef '
        'dependencies / outputs / graph edges (digest comparison)',
        'structure model: right-hand elements with parentheses and lone conditional lines are outside its domain '
        '(covered by the text model only)',
    ]
    rule = (
        'corpus of ~65 literal strings (DESIGN section 8 witnesses, every malformed class) + seeded AST cases: 1-4 '
        'lines, lone conjunctions and chains of 2-5 elements, head trees of depth <= 3 (and/or/parentheses), '
        'names with -+%@ and mutual substrings, offsets, xtriggers, all alias / standard / custom / family '
        'qualifiers, four optionality styles, suicide marks; every 4th case a small plain graph over <= 4 names '
        '(end-of-chain overlaps); every 8th case one task named several times in one left-hand expression with '
        'nodes that are prefixes of one another (alias / standard qualifier next to the same qualifier extended '
        'with "-...", e.g. submit | submit-fail, fail | fail-safe; a name next to the name extended with -+%@; '
        'with / without offset); each AST rendered in 5 (quick) / 8 (thorough) forms: plain, all pairs, random '
        'cuts + duplicates + shuffles, random white space / comments / blank lines / continuation breaks (each form '
        'is re-rendered by Graph.renderText and checked against the hypotheses of text_layer in the driver); + '
        'mutated renderings (16 mutation kinds: insert/delete/replace a character, doubled operator, dangling / '
        'leading operator, swapped qualifier order, junk after offset, space inside a name, parenthesis edits, '
        'misplaced !, xtrigger on the right, dropped node; 1 in 7 on a line that is not the last). Distinct = '
        'distinct input; classes = ast/<outcome>:<features> and raw/<mutation>/<outcome>')
    exhaustive = False
    workers = 16

    def setup(self):
        import logging
        import cylc.flow.graph_parser as gp
        from cylc.flow.config import WorkflowConfig
        from cylc.flow.scheduler_cli import RunOptions
        gp.sorted = _sorted_total
        logging.getLogger('cylc').setLevel(logging.CRITICAL + 1)
        _RT.update(gp=gp, WorkflowConfig=WorkflowConfig, RunOptions=RunOptions)

    def translate(self):
        return translate_tables()

    # -- adapter --------------------------------------------------------------------
    def run_text(self, text):
        gp = _RT['gp']
        p = gp.GraphParser()
        try:
            p.parse_graph(text)
        except gp.GraphParseError:
            return {'err': 'GraphParseError'}
        except Exception:
            return {'err': 'other'}
        trig = []
        for name, d in p.triggers.items():
            for expr, (trigs, suicide) in d.items():
                if expr != '':
                    trig.append([name, expr, sorted(set(trigs)), bool(suicide)])
        return {
            'tasks': sorted(p.triggers),
            'trig': sorted(trig),
            'opt': sorted([n, o, bool(a), bool(b), bool(c)] for (n, o), (a, b, c) in p.task_output_opt.items()),
        }

    def impl_batch(self, inputs):
        # inputs are large (texts + layouts): workers get indices into a list inherited through fork
        import multiprocessing as mp
        import shutil
        import tempfile
        _RT['tmp'] = tempfile.mkdtemp(prefix='C14-run-', dir='/tmp')
        _RT['inputs'] = inputs
        try:
            if len(inputs) < 500:
                return [self.impl(i) for i in inputs]
            with mp.get_context('fork').Pool(self.workers) as pool:
                return pool.map(_impl_index, range(len(inputs)), chunksize=max(1, len(inputs) // (self.workers * 16)))
        finally:
            _RT['inputs'] = None
            shutil.rmtree(_RT['tmp'], ignore_errors=True)
            _RT['tmp'] = None

    def impl(self, inp):
        if inp['kind'] == 'raw':
            return {'r': [self.run_text(inp['text'])]}
        rs = [self.run_text(t) for t in inp['texts']]
        s = {'err': 'rejected'} if 'err' in rs[0] else rs[0]
        out = {'r': rs, 's': s}
        if inp.get('cfg'):
            out['c'] = [config_digest(t) for t in inp['texts']]
        return out

    # the WorkflowConfig digests are observations the model does not produce: they travel in the driver's case
    def driver_input(self, inp, raw):
        if 'c' in raw:
            d = dict(inp)
            d['cfgobs'] = raw['c']
            return d
        return inp

    def driver_obs(self, inp, raw):
        return {k: v for k, v in raw.items() if k != 'c'}

    # -- cases ----------------------------------------------------------------------
    def corpus(self):
        rng = random.Random(14)
        out = [raw_case(t) for t in [
            'a => b\nfoo:bar:baz => c\nc => d',
            'a => b\nx => b => c\nb:fail? => d',
            'a => b\nx => b\nb => c\nb:fail? => d',
            'a| => b', 'a|&b => c', '(a|) => b', '() => b', 'a&()b => c', 'a)&(b => c',
            'a => !!b', 'a => b!c', 'a!b => c', 'a => !', 'a => @x', 'a => b:x@y', 'a:b@x => c',
            'a => b &', 'a => b\n=> c', 'a =>\n\n b', 'a => b # c => d', 'a & \n b => c', 'a \n & b => c',
            'a => => b', 'a & & b => c', 'a && b => c', 'a | | b => c', 'a => b | c', 'a => (b & c)',
            'a => (b) & (c)', 'a => ((b)', 'a => (b)', 'foo bar => baz', 'a[- P1] => b', 'a [-P1] => b', 'a ? => b',
            'a => b[-P1] & c', 'a => b[-P1]', '!a', 'a | b', '@x', 'a => b)(', 'a &\n& b => c', 'a =>\n=> b',
            'a?? => b', 'a::b => c', 'a[] => b', 'a[x][y] => b', 'a:succeed-all => b', 'a => b:succeed-all',
            'a:finish? => b', 'a:finish => b', 'a => b:finish', 'a => b:expire', 'a => b:fail', 'a => b & b:fail?',
            'a:submit? | a:submit-fail? => b', 'a:fail? | a:fail-safe => b', '(a:start & a:start-up) | c => b',
            'a | a-x | a:fail? | a[-P1] => b', 'a:finish | a:finished-x => b', 'x-a | a | a+1 => b',
            'a => b\na => !b', 'a & b => c\nb & a => c', '', '\n', '# only a comment', 'a', 'a => b => c => d',
        ]]
        L = [{'head': {'n': node('a')['n']}, 'rest': [[node('b')['n']]]},
             {'head': {'n': node('x')['n']}, 'rest': [[node('b')['n']], [node('c')['n']]]},
             {'head': {'n': node('b', q='fail', opt=True)['n']}, 'rest': [[node('d')['n']]]}]
        out.append(ast_case(rng, L, 4, cfg=True))
        return out

    def gen(self, tier, rng):
        n_ast, nforms, n_raw = {'quick': (700, 5, 2000), 'thorough': (10000, 8, 60000)}.get(tier, (30000, 8, 150000))
        bases = []
        for k in range(n_ast):
            lines = plain_lines(rng) if k % 4 == 0 else same_task_lines(rng) if k % 8 == 3 else rand_lines(rng)
            if k % 6 == 1:
                c = ast_case(rng, config_lines(rng), nforms, cfg=True)
            else:
                c = ast_case(rng, lines, nforms)
            if len(bases) < 4000:
                bases.append(rng.choice(c['texts']))
            yield c
        for k in range(n_raw):
            base = rng.choice(bases)
            if k % 7 == 0 and '\n' in base:
                # mutate a line that is not the last one
                ls = base.split('\n')
                j = rng.randrange(len(ls) - 1)
                ls[j], how = mutate(rng, ls[j])
                text = '\n'.join(ls)
            else:
                text, how = mutate(rng, base)
            if rng.random() < 0.15:
                text, how2 = mutate(rng, text)
                how += '+' + how2
            if '<' in text or '-3276' in text:
                continue
            yield raw_case(text, how)

    # -- evidence -------------------------------------------------------------------
    def classify(self, inp, obs):
        r0 = obs['r'][0]
        out = 'err' if 'err' in r0 else 'ok'
        if inp['kind'] == 'raw':
            return 'raw/%s/%s' % (inp.get('how', 'given').split('+')[0], r0.get('err', 'ok'))
        tags = set()
        last_plain, mid = set(), set()
        for ln in inp['lines']:
            if 'lone' in ln:
                tags.add('lone')
                continue
            n = 1 + len(ln['rest'])
            if n >= 3:
                tags.add('chain3+')
            h = ln['head']
            if 'n' not in h:
                tags.add('cond' if ('or' in str(h) or 'par' in str(h)) else 'conj')
            for k, e in enumerate(ln['rest']):
                for nd in e:
                    if nd['sui']:
                        tags.add('suicide')
                    if not nd['q'] and not nd['opt']:
                        (last_plain if k == n - 2 else mid).add(nd['name'])
                    elif k < n - 2:
                        mid.add(nd['name'])
            for nd in tree_nodes(h):
                if nd['off']:
                    tags.add('offset')
                if nd['name'].startswith('@'):
                    tags.add('xtrig')
                if nd['q'] in ('finish', 'finished'):
                    tags.add('finish')
        if last_plain & mid:
            tags.add('eoc-overlap')
        return 'ast/%s:%s' % (out, ','.join(sorted(tags)))

    def neighbours(self, inp, rng):
        out = []
        if inp['kind'] == 'raw':
            ls = inp['text'].split('\n')
            if len(ls) > 1:
                out += [raw_case(l, 'line') for l in ls]
                out += [raw_case('\n'.join(ls[:k] + ls[k + 1:]), 'drop') for k in range(len(ls))]
            for _ in range(30):
                t, how = mutate(rng, inp['text'])
                if '<' not in t:
                    out.append(raw_case(t, how))
            return out
        for ln in inp['lines']:
            out.append(ast_case(rng, [ln], 4))
        for k in range(len(inp['lines']) - 1):
            out.append(ast_case(rng, inp['lines'][k:k + 2], 4))
        out += [raw_case(t, 'text') for t in inp['texts']]
        return out


PROP = C14()
