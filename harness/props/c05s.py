"""C05S  Internal queue limits at scheduler level: a limited queue never releases beyond its limit, FIFO, held skipped.

(The component-level half of C05 - membership resolution, LimitedTaskQueue in isolation - is harness/props/c05.py;
the coordinator merges the two manifest entries.)"""
from __future__ import annotations

import sys
from pathlib import Path

sys.path.insert(0, str(Path(__file__).resolve().parents[1] / 'sched'))
from prop import SchedProp, run_workers  # noqa: E402
from core import Infra  # noqa: E402


# -- hand-written regression histories (run first on every check) ---------------------------------------------
def _flow(queues, graph='a & b & c', fcp=2, runahead=1):
    return f'''[scheduler]
    allow implicit tasks = True
[scheduling]
    cycling mode = integer
    initial cycle point = 1
    final cycle point = {fcp}
    runahead limit = P{runahead}
    [[queues]]
{queues}    [[graph]]
        P1 = """
            {graph}
        """
[runtime]
    [[root]]
        [[[simulation]]]
            default run length = PT0S
'''


def _q(name, limit, members=None):
    s = f'        [[[{name}]]]\n            limit = {limit}\n'
    if members:
        s += f'            members = {", ".join(members)}\n'
    return s


def _cmd(name, **args):
    return {'op': 'cmd', 'name': name, 'args': args}


def _job(task, sn=1, msgs=('started', 'succeeded')):
    return [{'op': 'subres', 'task': task, 'ok': True, 'sn': sn}] + [
        {'op': 'msg', 'task': task, 'msg': m, 'sn': sn, 'sev': 'INFO'} for m in msgs]


def _trig(*ids):
    """`cylc trigger` (default flow) of pooled tasks that are not connected by trigger edges"""
    return _cmd('force_trigger_tasks', tasks=list(ids), flow=[], flow_wait=False)


_L = {'op': 'loop'}
_STOP = _cmd('stop', mode='REQUEST(NOW)')
_R = {'op': 'restart'}

_FAMFLOW = _flow(_q('q', 1, ['BIG']), graph='a & b & c', fcp=1) + '''    [[SMALL]]
    [[BIG]]
    [[a]]
        inherit = SMALL, BIG
    [[b]]
        inherit = BIG
'''

_CORPUS = {
    # a queue that lists a FAMILY: a inherits it as second parent (multiple inheritance), b as only parent; both belong
    # to q (limit 1), c to default
    'family-second-parent': (_FAMFLOW, [_L, _L] + _job('1/c') + _job('1/a') + [_L, _L] + _job('1/b') + [_L, _L]),
    # limit 1 over three parallel tasks and two cycles: main loops while the released task is still `preparing`
    # (no submit result yet) must release nothing more; then one at a time in the order they were queued
    'preparing-window': (_flow(_q('q', 1, ['a', 'b', 'c'])),
                         [_L, _L, _L] + _job('1/a') + [_L, _L] + _job('1/b') + [_L, _L, _L] + _job('1/c') + [_L, _L]),
    # the head of the queue is held: the ones behind it are released, the held one keeps its place and is
    # the next to go once released from hold
    'held-head-keeps-place': (_flow(_q('q', 1, ['a', 'b', 'c']), fcp=1),
                              [_cmd('pause'), _L, _cmd('hold', tasks=['1/a']), _cmd('resume'), _L] + _job('1/b') +
                              [_L, _cmd('release', tasks=['1/a']), _L, _L] + _job('1/a') + [_L, _L] + _job('1/c') +
                              [_L, _L]),
    # overlapping memberships: b is listed by q0 and q1 and belongs to q1 (the last one); default limited too
    'overlap-last-wins': (_flow(_q('default', 1) + _q('q0', 1, ['a', 'b']) + _q('q1', 2, ['b', 'c']), graph='a & b & c & d',
                                runahead=2, fcp=3),
                          [_L, _L] + _job('1/a') + _job('1/b') + [_L, _L] + _job('1/c') + _job('1/d') + [_L, _L, _L]),
    # stop + restart with tasks sitting in the queue: the queues are rebuilt from the pool, the running task
    # still counts against the limit
    'restart-with-queue': (_flow(_q('q', 1, ['a', 'b', 'c'])),
                           [_L] + _job('1/a', msgs=('started',)) + [_L, _STOP, _L, _R, _L, _L,
                                                                    {'op': 'msg', 'task': '1/a', 'msg': 'succeeded',
                                                                     'sn': 1, 'sev': 'INFO'}, _L, _L, _L]),
    # manual triggers against a limit: runahead P0 keeps the cycle-2 instances in the pool unqueued; with 1/a
    # preparing (queue q, limit 2, one slot left) ONE trigger of 2/a and 2/b may start only one of them, the other
    # has to be queued; the already queued 1/c, triggered next, runs regardless of the limit
    'trigger-two-one-slot': (_flow(_q('q', 2, ['a', 'b', 'c']), fcp=2, runahead=0),
                             [_cmd('pause'), _L, _trig('1/a'), _L, _trig('2/a', '2/b'), _L, _trig('1/c'), _L,
                              _cmd('resume')] + _job('1/a') + [_L, _L] + _job('2/a') + _job('2/b') + [_L, _L, _L]),
    # two queues: `big` (limit 1) is full; a trigger of 2/c, which belongs to the unlimited default queue, starts it at
    # once (it must not end up in `big`); a trigger of 2/b, a member of the full queue, queues it in `big`
    'trigger-while-other-queue-full': (_flow(_q('big', 1, ['a', 'b']), fcp=2, runahead=0),
                                       [_L, _trig('2/c'), _L, _trig('2/b'), _L] + _job('1/a') + _job('2/c') +
                                       [_L, _L] + _job('1/b') + [_L, _L]),
}


def add_queue_families(case, rng):
    """Replace one or two tasks in the member lists of the generated [[queues]] by family names; the tasks inherit
    the family as `SMALL, BIG` (second parent), `BIG, SMALL`, or `BIG` alone."""
    import re
    flow = case['flow']
    lines = flow.split('\n')
    idx = [i for i, ln in enumerate(lines) if re.match(r'^            members = ', ln)]
    if not idx:
        return case
    fams = {}
    for n, i in enumerate(rng.sample(idx, min(len(idx), rng.choice([1, 1, 2])))):
        mem = [m.strip() for m in lines[i].split('=', 1)[1].split(',')]
        t = rng.choice(mem)
        fam = f'BIG{n}'
        keep = rng.random() < 0.2          # now and then the task stays listed next to its family
        mem = [fam if m == t else m for m in mem] + ([t] if keep else [])
        lines[i] = '            members = ' + ', '.join(dict.fromkeys(mem))
        fams.setdefault(t, []).append(fam)
    flow = '\n'.join(lines)
    extra = '    [[SMALL]]\n'
    for t, fl in fams.items():
        for fam in fl:
            extra += f'    [[{fam}]]\n'
        order = rng.choice(['second', 'second', 'first', 'only'])
        inh = {'second': ['SMALL'] + fl, 'first': fl + ['SMALL'], 'only': fl}[order]
        head = f'    [[{t}]]\n'
        line = f'        inherit = {", ".join(inh)}\n'
        if head in flow:
            flow = flow.replace(head, head + line, 1)
        else:
            flow += head + line
    flow += extra
    return dict(case, flow=flow, id=case['id'] + 'f')


def expected_queues(flow, tasks):
    """[[task, queue]..] from the flow.cylc TEXT: member lists of [[queues]] with family names expanded over the full
    inheritance of the [runtime] sections; the last queue listing a task wins, else `default`."""
    import re
    parents, cur, in_rt = {}, None, False
    queues, q = [], None
    for ln in flow.split('\n'):
        if re.match(r'^\[runtime\]', ln):
            in_rt = True
        m = re.match(r'^    \[\[([^\[\]]+)\]\]\s*$', ln)
        if m and in_rt:
            cur = m.group(1).strip()
            parents.setdefault(cur, [])
            continue
        m = re.match(r'^\s*inherit\s*=\s*(.*)$', ln)
        if m and in_rt and cur:
            parents[cur] = [x.strip() for x in m.group(1).split(',') if x.strip()]
        m = re.match(r'^        \[\[\[([^\[\]]+)\]\]\]\s*$', ln)
        if m and not in_rt:
            q = [m.group(1).strip(), []]
            queues.append(q)
        m = re.match(r'^            members\s*=\s*(.*)$', ln)
        if m and not in_rt and q is not None:
            q[1] = [x.strip() for x in m.group(1).split(',') if x.strip()]

    def ancestors(n, seen=()):
        out = set()
        for p in parents.get(n, []):
            if p not in seen:
                out |= {p} | ancestors(p, seen + (n,))
        return out
    tasks = list(tasks)
    assign = {t: 'default' for t in tasks}
    for qn, mem in queues:
        if qn == 'default':
            continue
        for m in mem:
            if m in tasks:
                assign[m] = qn
            for t in tasks:
                if m in ancestors(t):
                    assign[t] = qn
    return sorted([t, qn] for t, qn in assign.items())


class C05S(SchedProp):
    id = 'C05S'
    report_id = 'C05'
    drv = 'C05S'
    props_modules = ['CylcModel.Props.C05Sched']
    theorems = [
        'CylcModel.C05S.queue_release_fifo',
        'CylcModel.C05S.release_fifo',
        'CylcModel.C05S.held_never_released',
        'CylcModel.C05S.unlimited_releases_all',
        'CylcModel.C05S.stops_only_at_limit',
        'CylcModel.C05S.queue_invariants_run',
        'CylcModel.C05S.release_limit',
        'CylcModel.C05S.release_and_prepare_limit',
        'CylcModel.C05S.launch_only_in_main_loop',
        'CylcModel.C05S.queue_order_step',
        'CylcModel.C05S.queue_order_release',
        'CylcModel.C05S.Inv_queue_step',
        'CylcModel.C05S.Inv_queue_partial',
        'CylcModel.C05S.Inv_queue_counterexample',
        'CylcModel.C05S.trigger_respects_limit',
        'CylcModel.C05S.trigger_keeps_invariants',
    ]
    statement_note = (
        'proof over the Sched3QT model (Sched2 = scheduler core + hold / release / hold point / stop / pause / clean '
        'restart, extended with limited internal queues: IndepQueueManager push / release / remove, '
        'LimitedTaskQueue.release, count_active_tasks / release_queued_tasks with waiting_on_job_prep, pool in '
        'get_tasks() order), for every instance graph and every state / op list. Proved: FIFO with held tasks '
        'skipped and left in place - the release loop of a queue releases exactly the non-held tasks among the first k '
        'entries of its deque, in order, and the deque afterwards is the old one without them (queue_release_fifo, '
        'release_fifo for all queues; held_never_released; unlimited_releases_all; stops_only_at_limit); run invariants '
        'in every state of every run: no duplicate (point, name), the queue manager has exactly the configured queues, '
        'every deque entry is a member of its queue (queue_invariants_run, one lemma per primitive); a queue never '
        'releases while at its limit: in any state satisfying the run invariants, with independent queues, the '
        'released members of a queue with limit L > 0 plus its members that are preparing / submitted / running / '
        'waiting on job preparation stay within L or nothing is released, and release + job preparation never takes '
        'a queue above max(L, previous count) (release_limit, release_and_prepare_limit); jobs are launched only by '
        'the release step of a main loop (launch_only_in_main_loop); queue order at run level: over ANY operation '
        '(main loop, message, command, restart) every deque afterwards is a sublist of the deque before followed by '
        'the tasks queued by that operation, so tasks leave a queue in the order they entered it '
        '(queue_order_step, queue_order_release). PARTIAL on the run-level Inv_queue: the '
        'unrestricted statement "after any op every limited queue has at most L active members" (Inv_queue_full) is '
        'false in the model and in the code it follows - a job message can move a waiting task to running without '
        'passing its queue (Inv_queue_counterexample: a "started" message for a waiting queued task); proved instead: '
        'Inv_queue_partial - if along the run every proxy that counts as active after an operation counted as active '
        'before it or was launched by it (NoOobFrom, a checkable property of the trace; the judge checks the limits '
        'on every real trace unconditionally), every limited queue stays within its limit in every state of the run '
        '(Inv_queue_step per operation). Independence of the queues (each task name in exactly one queue) is a '
        'hypothesis here; it is the component-level half of C05 (membership_partition) and is checked on every real '
        'run by the judge. Manual trigger (restricted to `cylc trigger`, default flow, of POOLED tasks that are pairwise '
        'unconnected by trigger edges, i.e. every task is its own group and a group-start task; queue_or_trigger / '
        'push_task_if_limited / waiting_on_job_prep = tasks_to_trigger_now / is_manual_submit ported): a trigger of a '
        'task that is not queued leaves every limited queue at most at max(L, previous count) - it starts only if its '
        'queue has room, else it is queued (trigger_respects_limit); the command keeps the run invariants, launches '
        'nothing itself and only appends to / deletes from the deques (trigger_keeps_invariants; all run-level '
        'theorems above cover the trigger op). NOT proved: that a triggered-while-queued task is the ONLY way over a '
        'limit as a run-level statement (Inv_queue_partial excludes activating triggers through NoOobFrom; the judge '
        'tracks the exemption on the real traces), and nothing about the state "active task sits in a queue" created '
        'by finding queued-and-started (the model follows the code there through two probed flags). Not in the model: '
        'group triggers with in-group prerequisites / of tasks outside the pool (C28), --flow options, reload, flows')
    technique = ('inductive invariants over op lists of a Lean scheduler model with limited queues and manual triggers (Sched3QT) + trace '
                 'correspondence with the real Scheduler (queue contents and pool order observed) + a monitor judge on '
                 'the observed traces')
    trusted = ['the queue definitions (name, limit, members after family expansion and _make_indep) are read off the real '
               'IndepQueueManager and are an input of the model; their construction is the component-level half of C05',
               'the iteration order of the graph-children lists is read off a fresh TaskProxy of the same TaskDef '
               '(same set objects, same process) and handed to the model (children_ord)']
    rule = ('generated integer-cycling workflows (2-6 tasks, 1-3 recurrences, AND/OR and inter-cycle triggers, retries, '
            'runahead P1-P4) with 1-3 internal queues of limit 1-3 and random overlapping memberships (a task listed '
            'several times belongs to the last queue) and, in 40 %, a limit 1-3 on the default queue, driven through the '
            'real Scheduler by a seeded adaptive schedule: kinds qc (every job completes), qa (failures, submit failures, '
            'duplicate / stale / out-of-order messages), cmdq / cmdqc (the same with hold / release - 60 % of the holds aim '
            'at a task sitting in a queue - hold point, pause, stop point, stop + restart), cmdqt / cmdqtc (manual triggers '
            'against the limits: `cylc trigger` of 1-3 pooled, pairwise unconnected tasks - 60 % several waiting members of '
            'ONE limited queue at once, preferably not yet queued, else any waiting tasks such as a member of a free queue '
            'while another queue is full, 10 % tasks that already have a job - mixed with hold / release / hold point / '
            'pause / resume, no restart); compared after every '
            'operation: the pool in get_tasks() order, every queue head first, the proxies waiting on job preparation, '
            'the manual-submit flags, plus everything the Sched2 correspondence compares; every third generated workflow '
            'gets FAMILIES in its queue member lists (a member task replaced by a family it inherits as second, first or '
            'only parent) and the judge checks the queue of every task against the membership computed from the flow.cylc '
            'text with full inheritance; seven hand-written histories, the witness of the open finding and the witnesses '
            'of the REPAIRED findings (permanent regression tests) run first; non-trivial = a '
            'limited queue held back a ready task; classes = (kind, limit-bound, held-in-queue, release-past-held, '
            'restart-with-queue, launch count)')
    kinds = ('qc', 'cmdqt', 'qa', 'cmdq', 'cmdqtc', 'cmdqc')
    n_quick = 60
    n_thorough = 720

    def translate(self):
        """Behaviour flags of the two places where a task that is already on its way to job submission can be
        queued as well (finding queued-and-started), probed on the live TaskPool methods with mock objects."""
        import collections
        from unittest import mock
        from cylc.flow.task_pool import TaskPool
        # (1) queue_or_trigger on a proxy that waits on job preparation, its queue full: is it pushed?
        pool = mock.MagicMock()
        pool.count_active_tasks.return_value = (collections.Counter(), [])
        pool.task_queue_mgr.push_task_if_limited.return_value = True
        itask = mock.MagicMock()
        itask.waiting_on_job_prep = True
        itask.state.is_queued = False
        TaskPool.queue_or_trigger(pool, itask)
        guard1 = not pool.task_queue_mgr.push_task_if_limited.called
        # (2) release_held_active_task on a manually triggered proxy that waits on job preparation: is it queued?
        pool = mock.MagicMock()
        itask = mock.MagicMock()
        itask.waiting_on_job_prep = True
        itask.is_manual_submit = True
        itask.state.is_queued = False
        itask.state.is_runahead = False
        itask.is_ready_to_run.return_value = True
        itask.state_reset.return_value = True
        pool.queue_if_ready = lambda t: TaskPool.queue_if_ready(pool, t)
        TaskPool.release_held_active_task(pool, itask)
        guard2 = not pool.queue_task.called

        def b(v):
            return 'true' if v else 'false'
        return {'Sched3QTCfg.lean': (
            '/- generated by harness/props/c05s.py translate() from the live code - do not edit -/\n'
            'namespace CylcModel.Sched3QT\n\n'
            '/-- `TaskPool.queue_or_trigger` leaves a proxy that is waiting on job preparation alone (probed) -/\n'
            f'def retriggerGuard : Bool := {b(guard1)}\n\n'
            '/-- `TaskPool.release_held_active_task` does not queue a manually triggered proxy (probed) -/\n'
            f'def releaseHeldGuard : Bool := {b(guard2)}\n\n'
            'end CylcModel.Sched3QT\n')}
    unmodelled = [
        'job submission / platforms / remote init (stub job runner: real prep_submit_task_jobs, launch recorded, '
        'outcome delivered by explicit ops); with the stub a released task is prepared in the same main loop, so '
        'waiting_on_job_prep is never observed set at an operation boundary (the model carries the flag)',
        'the static instance graph and the queue definitions are read off the real TaskDef / TaskProxy / '
        'IndepQueueManager objects and are inputs of the model (C13-C16, component-level C05)',
        'group triggers beyond the restricted class (in-group prerequisites, tasks outside the pool, --flow), '
        'manual tasks across a restart (ported from Sched3Trig, not exercised: the trigger kinds do not restart), '
        'reload (queues rebuilt, adopt_tasks), several flows, xtriggers, clock-expiry, datetime cycling',
    ]

    def corpus(self):
        out = [{'id': 'c05s-' + k, 'flow': flow, 'seed': 0, 'opts': {}, 'policy': {'restarts': 1}, 'ops': ops,
                'kind': 'corpus'} for k, (flow, ops) in _CORPUS.items()]
        # the witnesses of REPAIRED findings stay in the corpus for good: a regression of the repair must be reported
        # as a violation (a `fixed` entry suppresses nothing, and the check itself does not run its witness)
        import json
        from core import VERIF
        f = VERIF / 'findings' / 'C05S.json'
        if f.exists():
            for e in json.loads(f.read_text()):
                if e.get('kind') == 'fixed' and 'witness' in e and e['witness'] not in out:
                    out.append(e['witness'])
        return out

    def gen(self, tier, rng):
        # every third generated case gets FAMILIES in its queue member lists: a member task is replaced by a family
        # name that the task inherits as first, second (multiple inheritance) or only parent (text surgery on the
        # generated flow.cylc; drawn from an own generator so that the other cases are unchanged)
        import random
        for k, case in enumerate(super().gen(tier, rng)):
            if k % 3 == 1:
                case = add_queue_families(case, random.Random(case.get('seed', 0) * 7919 + 13))
            yield case

    def driver_input(self, inp, raw):
        d = super().driver_input(inp, raw)
        if 'graph' in d:
            d['expect_queue'] = expected_queues(inp.get('flow', ''), raw['graph'].get('order', []))
        return d

    def impl_batch(self, inputs):
        # a start-up time-out of the scheduler's server thread (overloaded machine) says nothing about the
        # case: such cases are run again, on their own
        res = run_workers(inputs, self.workers)
        for _attempt in range(2):
            again = [k for k, r in enumerate(res) if 'error' in r and 'BrokenBarrierError' in r['error']]
            if not again:
                break
            for k, r in zip(again, run_workers([inputs[k] for k in again], 2)):
                res[k] = r
        return res

    def skip_case(self, inp, raw):
        if 'error' in raw and 'BrokenBarrierError' in raw['error']:
            raise Infra('scheduler server thread did not start within its time-out (overloaded machine?) '
                        f'in case {inp.get("id")}')
        return super().skip_case(inp, raw)

    def classify(self, inp, obs):
        if isinstance(obs, dict):
            return 'crash'
        tags = [inp.get('kind', '?')]
        ops = inp.get('ops') or []
        bound = held_q = past_held = restart_q = False
        trig = set()
        for k in range(1, len(obs)):
            b, a = obs[k - 1], obs[k]
            op = ops[k - 1] if k - 1 < len(ops) else {}
            held = {(t['p'], t['n']) for t in b['pool'] if t['held']}
            for qb, qa in zip(b.get('qs', []), a.get('qs', [])):
                dq = [tuple(x) for x in qb[2]]
                if any(x in held for x in dq):
                    held_q = True
                if op.get('op') == 'loop':
                    if qb[2] and qa[2] and any(tuple(x) not in held for x in qa[2]):
                        bound = True      # a ready, not held task stayed queued over a main loop
                    launched = {(l[0], l[1]) for l in a['launch']}
                    for j, x in enumerate(dq):
                        if x in launched and any(y in held for y in dq[:j]):
                            past_held = True
                if op.get('op') == 'restart' and qb[2]:
                    restart_q = True
            if op.get('op') == 'cmd' and op.get('name') == 'force_trigger_tasks':
                bq = {(t['p'], t['n']): t['q'] for t in b['pool']}
                aq = {(t['p'], t['n']): t['q'] for t in a['pool']}
                for t in op['args'].get('tasks', []):
                    p_, n_ = t.split('/')
                    key = (int(p_), n_)
                    if key in bq and key in aq:
                        if not bq[key] and aq[key]:
                            trig.add('trigger-queued-because-full')
                        elif bq[key] and not aq[key]:
                            trig.add('trigger-out-of-queue')
                        elif [key[0], key[1]] in a.get('wjp', []) and [key[0], key[1]] not in b.get('wjp', []):
                            trig.add('trigger-started')
                if len(op['args'].get('tasks', [])) > 1:
                    trig.add('multi-trigger')
        if not bound and not trig:
            return None
        if bound:
            tags.append('limit-bound')
        tags += sorted(trig)
        if held_q:
            tags.append('held-in-queue')
        if past_held:
            tags.append('release-past-held')
        if restart_q:
            tags.append('restart-with-queue')
        n = sum(len(o['launch']) for o in obs)
        tags.append('launch<5' if n < 5 else 'launch<15' if n < 15 else 'launch>=15')
        return '/'.join(tags)


PROP = C05S()
