"""C47  Platform and host selection avoids unreachable hosts; a name resolves to the last-defined match.

Real code: cylc.flow.platforms.get_host_from_platform / get_platform_from_group / platform_from_name on
configurations that are rendered as global.cylc text and loaded through the real parsec machinery
(mode "raw": ParsecConfig.loadcfg as the test fixtures do - comma-list headings reach platform_from_name
verbatim; mode "global": GlobalConfig.load - comma lists are expanded by _expand_commas first).
Regex matching is an input of the Lean model: the adapter supplies the match matrices, computed per
alternative with re.fullmatch from the *structure* of the generated heading (never with the code's
comma-substitution regex).  random.choice is an input too: the adapter replaces it by a stream of numbers.
"""
from __future__ import annotations

import os
import random
import re
import shutil
import tempfile

from core import Prop

HOSTS = ['h0', 'h1', 'h2', 'h3', 'h4', 'h5']
# name patterns (one alternative of a section heading).  parsec cannot read a heading that starts
# with '[' or ends with ']', so none of these does.
LITERALS = ['p0', 'p1', 'p2', 'hpc', 'box', 'linux', 'my-host', 'hpc1']
REGEXES = ['p[0-9]+', 'p.', r'hpc\d?', r'hpc\d{2}', '.*x', 'p0|p1', 'b(o|a)x', r'p\d+', 'hpc.*', 'g.*', 'li?n.x']
QUANT = ['n{1,2}x', r'hpc\d{1,2}', 'p{1, 2}q', r'nd\d{2,}', r'nd\d{,2}', 'n{2,}x', r'gp\d{1,}']     # a comma inside a quantifier
# every quantifier form, for the systematic grid of gen()
QUANT_FORMS = ['{2}', '{1,2}', '{2,}', '{,2}', '{1,}', '{0,1}']
LOCALISH = ['local(_big)?', 'loc|hpc', r'l[a-z]{2}\d?', 'l.*', 'localhost|box', 'local.*', 'l[a-z]{4}']   # touch "localhost"
NAMES = ['p0', 'p1', 'p2', 'p12', 'hpc', 'hpc1', 'hpc12', 'box', 'bax', 'nx', 'nnx', 'nnnx', 'pq', 'ppq',
         'local', 'local_big', 'loc', 'lab1', 'linux', 'localhost', 'simulation', 'skip', 'my-host', 'zzz', 'px',
         'nd1', 'nd12', 'nd123', 'gp1', 'gp123']
GROUP_KEYS = ['g0', 'g1', 'g.', 'pool', 'ga|gb', 'gr[12]x']
GROUP_NAMES = ['g0', 'g1', 'ga', 'gb', 'pool', 'gr1x', 'gx']
METHODS = ['random', 'definition order']
SPECIALS = set('()[]{}?*+-|^$\\.&~# \t\n\r\v\f')


def header_text(sec):
    """Render the alternatives of a section as a comma list with some spacing variant."""
    seps = [', ', ',', ' , ', ',  '][sec.get('sp', 0) % 4]
    return seps.join(sec['alts'])


def render(inp):
    out = ['[platforms]']
    for i, sec in enumerate(inp['sections']):
        out.append(f'    [[{header_text(sec)}]]')
        if sec['hosts']:
            out.append('        hosts = ' + ', '.join(sec['hosts']))
            if len(sec['hosts']) > 1:
                out.append('        job runner = slurm')      # background/at are single-host runners
        out.append(f'        install target = t{i}')
        if sec.get('method'):
            out.append('        [[[selection]]]')
            out.append(f'            method = {sec["method"]}')
    if inp['groups']:
        out.append('[platform groups]')
        for g in inp['groups']:
            out.append(f'    [[{g["key"]}]]')
            if g['members']:
                out.append('        platforms = ' + ', '.join(g['members']))
            if g.get('method'):
                out.append('        [[[selection]]]')
                out.append(f'            method = {g["method"]}')
    return '\n'.join(out) + '\n'


class Stream:
    """Replacement of random.choice: consumes the case's numbers (0 when exhausted)."""

    def __init__(self, cs):
        self.cs = list(cs)

    def __call__(self, seq):
        c = self.cs.pop(0) if self.cs else 0
        return seq[c % len(seq)]


def fullmatch_any(alts, name):
    return any(re.fullmatch(a, name) is not None for a in alts)


def _worker(inp):
    return PROP.impl(inp)


class C47(Prop):
    id = 'C47'
    props_modules = ['CylcModel.Props.C47']
    theorems = [
        'CylcModel.C47.host_not_bad',
        'CylcModel.C47.no_hosts_only_when_none',
        'CylcModel.C47.host_selected_when_available',
        'CylcModel.C47.group_never_selects_dead',
        'CylcModel.C47.no_platforms_only_when_none',
        'CylcModel.C47.alive_member_selected',
        'CylcModel.C47.platform_not_dead',
        'CylcModel.C47.last_match_wins',
        'CylcModel.C47.unmatched_name_errors',
        'CylcModel.C47.last_match_wins_full_counterexample',
        'CylcModel.C47.last_match_wins_full_of_fullmatch_guard',
    ]
    technique = ('Lean 4 theorems over an executable port of platforms.py (regex matching and random.choice are '
                 'universally quantified inputs) + correspondence on configurations loaded by the real parsec')
    statement_note = (
        'proved for all definition lists, host lists, bad-host sets, match relations, selection methods and random '
        'streams: a returned host is a host of the platform outside the bad set, NoHostsError iff every host is bad, '
        'a host is returned whenever one remains (host_*); for a group whose members are platform names the selected '
        'member resolves to a platform with a host outside the bad set, NoPlatformsError only when every member is '
        'dead, a member is selected whenever one is alive (group_never_selects_dead, no_platforms_only_when_none, '
        'alive_member_selected, platform_not_dead through platform_from_name with the last-defined matching group); '
        'a name matched by no group resolves to the last-defined matching definition (last_match_wins) or is a '
        'lookup error (unmatched_name_errors). partial: last_match_wins assumes the configuration passes the '
        '"localhost is not a regex" guard as implemented; with the documented guard (no regex fully matching '
        '"localhost") the statement fails on code that uses re.match (last_match_wins_full_counterexample, finding '
        'localhost-prefix-guard, findings/C47-fix-1.diff) and holds once it uses re.fullmatch '
        '(last_match_wins_full_of_fullmatch_guard). Groups with members that are themselves matched by a group '
        'pattern (nested groups) are modelled and tied by correspondence but the group theorems exclude them')
    trusted = [
        'Python re.fullmatch / re.match on the generated name patterns (the match matrices handed to the model and '
        'the judge are computed per comma-separated alternative from the structure of the generated heading)',
        'random.choice is replaced by an explicit stream of numbers (HOST_SELECTION_METHODS["random"] and '
        'random.choice are patched for the duration of a call)',
        'parsec loading of the rendered global.cylc (the model starts from the loaded [platforms] / [platform groups] '
        'sections; the key list itself is compared for the comma expansion)',
    ]
    unmodelled = [
        'get_platform with Cylc 7 task settings (_platform_name_from_job_info, generic_items_match), subshell '
        'platforms, install targets, validate_platforms',
        'text of the exceptions (errors are compared as class names; NoPlatformsError with its consumed host set)',
    ]
    rule = ('one generated configuration + one call per case: sections with literal / regex / comma-list / '
            'quantifier-with-comma / localhost-touching name patterns, 0-3 hosts, optional groups (regex keys, '
            'optional nesting, undefined members), bad-host sets built from the hosts of randomly chosen '
            'definitions; calls: platform_from_name, get_platform_from_group, get_host_from_platform (inline '
            'platform, incl. unsupported methods and duplicate hosts), loaded key list; both load modes; the '
            'exhaustive box of get_host_from_platform over <=3 hosts x all bad subsets x methods x choices is '
            'included; a systematic grid of every regex quantifier form ({n} {m,n} {n,} {,n}) at every position of a '
            'comma list x spacing x load mode x names of 0-3 digits; class = call kind / mode / outcome / branch tags')
    workers = 16

    # ------------------------------------------------------------------
    def setup(self):
        import logging
        from cylc.flow import LOG
        LOG.setLevel(logging.CRITICAL)
        import cylc.flow.platforms as P
        from cylc.flow.parsec.config import ParsecConfig
        from cylc.flow.parsec.validate import cylc_config_validate
        from cylc.flow.cfgspec.globalcfg import SPEC, GlobalConfig, upg
        from cylc.flow.parsec.util import expand_many_section
        from cylc.flow.run_modes import JOBLESS_MODES
        self.P = P
        self.ParsecConfig, self.validate = ParsecConfig, cylc_config_validate
        self.SPEC, self.GlobalConfig, self.upg = SPEC, GlobalConfig, upg
        self.expand_many_section = expand_many_section
        self.JOBLESS = JOBLESS_MODES
        self._dir = None

    def workdir(self):
        if self._dir is None or self._dir[0] != os.getpid():
            base = f'/dev/shm/verif-C47-{os.getppid()}' if os.path.isdir('/dev/shm') else f'/tmp/C47/run-{os.getppid()}'
            d = os.path.join(base, str(os.getpid()))
            os.makedirs(d, exist_ok=True)
            self._dir = (os.getpid(), d, base)
        return self._dir[1]

    def impl_batch(self, inputs):
        # the Prop object holds modules (not picklable): fork workers that reach it through the module global
        try:
            if self.workers <= 1 or len(inputs) < 64:
                return [self.impl(i) for i in inputs]
            import multiprocessing as mp
            with mp.get_context('fork').Pool(self.workers) as pool:
                return pool.map(_worker, inputs, chunksize=max(1, len(inputs) // (self.workers * 8)))
        finally:
            for base in (f'/dev/shm/verif-C47-{os.getpid()}', f'/dev/shm/verif-C47-{os.getppid()}',
                         f'/tmp/C47/run-{os.getpid()}', f'/tmp/C47/run-{os.getppid()}'):
                shutil.rmtree(base, ignore_errors=True)
            self._dir = None

    def load(self, text, mode):
        d = self.workdir()
        path = os.path.join(d, 'global.cylc')
        with open(path, 'w') as fh:
            fh.write(text)
        if mode == 'raw':
            from pathlib import Path
            cfg = self.ParsecConfig(self.SPEC, validator=self.validate)
            cfg.loadcfg(Path(path))
            cfg.get(['platforms'])
            return cfg
        old = os.environ.get('CYLC_CONF_PATH')
        os.environ['CYLC_CONF_PATH'] = d
        try:
            cfg = self.GlobalConfig(self.SPEC, self.upg, validator=self.validate)
            cfg.load()
            return cfg
        finally:
            if old is None:
                os.environ.pop('CYLC_CONF_PATH', None)
            else:
                os.environ['CYLC_CONF_PATH'] = old

    # ------------------------------------------------------------------
    def translate(self):
        P = self.P
        first, rnd = [], []
        for name, fn in P.HOST_SELECTION_METHODS.items():
            if fn is random.choice:
                rnd.append(name)
                continue
            probes = [['a'], ['a', 'b'], ['c', 'a', 'b'], ['d', 'c', 'b', 'a']]
            if all(fn(list(pr)) == pr[0] for pr in probes):
                first.append(name)
            else:
                raise ValueError(f'selection method {name!r} is neither "first element" nor random.choice')
        jobless = sorted(self.JOBLESS)
        # the localhost guard: prefix or full match?
        saved = P.glbl_cfg
        try:
            cfg = self.load('[platforms]\n    [[loc(x)?]]\n        hosts = a\n', 'raw')
            P.glbl_cfg = lambda *a, **k: cfg
            try:
                P.platform_from_name('locx')
                prefix = False
            except P.PlatformLookupError:
                prefix = True
        finally:
            P.glbl_cfg = saved
            shutil.rmtree(self._dir[2], ignore_errors=True)
            self._dir = None
        split = list(self.expand_many_section({'a{1,2}b': {}})) != ['a{1,2}b']

        def lst(xs):
            return '[' + ', '.join('"' + x.replace('\\', '\\\\').replace('"', '\\"') + '"' for x in xs) + ']'
        return {'PlatformCfg.lean': (
            '/- GENERATED by harness/props/c47.py translate() from the live source. Do not edit. -/\n'
            'namespace CylcModel.Platform\n'
            '/-- keys of `HOST_SELECTION_METHODS` whose function returns the first element -/\n'
            f'def methodsFirst : List String := {lst(first)}\n'
            '/-- keys of `HOST_SELECTION_METHODS` bound to `random.choice` -/\n'
            f'def methodsRandom : List String := {lst(rnd)}\n'
            '/-- `JOBLESS_MODES` (sorted) -/\n'
            f'def jobless : List String := {lst(jobless)}\n'
            '/-- probed: the "localhost cannot be a regex" guard of `platform_from_name` fires on a pattern that\n'
            'only matches a *prefix* of "localhost" (`re.match`) rather than all of it (`re.fullmatch`) -/\n'
            f'def lhGuardPrefix : Bool := {"true" if prefix else "false"}\n'
            '/-- probed: `expand_many_section` (used by `GlobalConfig._expand_commas`) splits a section heading at a\n'
            'comma inside a regex quantifier such as `x{1,2}` -/\n'
            f'def commaSplitsQuantifier : Bool := {"true" if split else "false"}\n'
            'end CylcModel.Platform\n')}

    # ------------------------------------------------------------------
    def corpus(self):
        S = lambda alts, hosts=(), method=None, sp=0: {'alts': list(alts), 'hosts': list(hosts), 'method': method, 'sp': sp}  # noqa: E731
        G = lambda key, members, method=None: {'key': key, 'members': list(members), 'method': method}  # noqa: E731
        secs = [S(['hpc\\d?'], ['h0', 'h1'], 'random'), S(['box', 'hpc2'], [], 'definition order'), S(['p.'], ['h2']),
                S(['p0|p1', 'linux'], ['h3', 'h4'], 'definition order', 1)]
        grp = [G('pool', ['hpc1', 'box', 'p0'], 'random'), G('g.', ['p0', 'p1'], 'definition order')]
        mk = lambda mode, call, s=secs, g=grp: {'mode': mode, 'sections': s, 'groups': g, 'call': call}  # noqa: E731
        N = lambda name, bad=None, cs=(): {'f': 'name', 'name': name, 'bad': bad, 'cs': list(cs)}  # noqa: E731
        return [
            mk('raw', N('hpc2')),                                   # two definitions match: the later one
            mk('global', N('hpc2')),
            mk('raw', N('p0', ['h3'])),                             # overridden by the comma list
            mk('raw', N('pool', ['h0', 'h1'], [0])),                # hpc1 dead -> box or p0
            mk('global', N('pool', ['h0', 'h1', 'box', 'h3', 'h4'], [2])),      # all dead
            mk('raw', N('g1', ['h3', 'h4'])),                       # definition order skips the dead p0
            mk('raw', N('simulation')), mk('raw', N('zzz')),
            mk('raw', {'f': 'group', 'g': 0, 'bad': ['box'], 'cs': [1]}),
            mk('raw', {'f': 'host', 'hosts': ['a', 'b', 'c'], 'method': 'random', 'bad': ['a'], 'cs': [3]}),
            mk('raw', {'f': 'host', 'hosts': ['a', 'b'], 'method': 'definition order', 'bad': ['a', 'b'], 'cs': []}),
            mk('global', {'f': 'keys'}),
            mk('raw', {'f': 'keys'}),
            # a member that is itself an (empty) group: the inner NoPlatformsError propagates
            mk('raw', N('g1', ['h2'], [0]), secs, [G('g.', ['p0', 'ga'], 'definition order'), G('ga|gb', [])]),
            # nested group selected by the outer one: no platform of that name
            mk('raw', N('pool', ['h9'], [1]), secs, [G('pool', ['g1', 'p0'], 'random'), G('g.', ['p0', 'p1'], 'random')]),
        ]

    def gen(self, tier, rng):
        # exhaustive box for get_host_from_platform
        hosts_box = [[], ['a'], ['a', 'b'], ['b', 'a', 'c'], ['a', 'a', 'b']]
        for hs in hosts_box:
            uni = ['a', 'b', 'c']
            for mask in range(8):
                bad = [h for k, h in enumerate(uni) if mask >> k & 1]
                for bv in ([None] if not bad else []) + [bad]:
                    for m in METHODS + ['first']:
                        for c in ([0, 1, 2, 5] if m == 'random' else [0]):
                            yield {'mode': 'raw', 'sections': [], 'groups': [],
                                   'call': {'f': 'host', 'hosts': hs, 'method': m, 'bad': bv, 'cs': [c]}}
        # systematic grid: every regex quantifier form x its position in a comma list x spacing x load mode x
        # names with 0..3 digits; an earlier, broader definition catches what the quantified pattern lets through
        for q in QUANT_FORMS:
            pat = 'nd\\d' + q
            for alts in ([pat], [pat, 'box'], ['box', pat], ['box', pat, 'linux'], [pat, 'gp\\d' + q]):
                for sp in range(4):
                    if len(alts) == 1 and sp:
                        continue
                    secs = [{'alts': ['n.*', 'g.*'], 'hosts': ['h0'], 'method': None, 'sp': sp},
                            {'alts': alts, 'hosts': ['h1', 'h2'], 'method': 'definition order', 'sp': sp}]
                    for mode in ('raw', 'global'):
                        for nm in ('nd', 'nd1', 'nd12', 'nd123') + (('gp12',) if len(alts) > 1 and alts[1].startswith('gp') else ()):
                            yield {'mode': mode, 'sections': secs, 'groups': [],
                                   'call': {'f': 'name', 'name': nm, 'bad': None, 'cs': []}}
        n = {'quick': 8000, 'thorough': 120000, 'search': 160000}[tier]
        for _ in range(n):
            yield self.random_case(rng)

    def random_case(self, rng):
        mode = rng.choice(['raw', 'global'])
        nsec = rng.choice([1, 2, 2, 3, 3, 4, 5])
        sections = []
        for _ in range(nsec):
            alts = []
            for _ in range(rng.choice([1, 1, 1, 2, 3])):
                r = rng.random()
                pool = LITERALS if r < 0.45 else REGEXES if r < 0.88 else QUANT if r < 0.94 else None
                if pool is None:
                    continue
                a = rng.choice(pool)
                if a not in alts:
                    alts.append(a)
            if not alts:
                # a single pattern that touches "localhost"
                alts = [rng.choice(LOCALISH)] if rng.random() < 0.35 else [rng.choice(LITERALS + ['localhost'])]
            hosts = rng.sample(HOSTS, rng.choice([0, 1, 1, 2, 2, 3]))
            if rng.random() < 0.05 and hosts:
                hosts.append(hosts[0])
            sections.append({'alts': alts, 'hosts': hosts, 'method': rng.choice([None] + METHODS), 'sp': rng.randint(0, 3)})
        groups = []
        keys = rng.sample(GROUP_KEYS, rng.choice([0, 1, 1, 2, 3]))
        for k in keys:
            pool = NAMES if rng.random() < 0.85 else NAMES + GROUP_NAMES     # sometimes nested
            # bias the members towards names the sections define
            defined = [nm for nm in NAMES if nm not in ('simulation', 'skip', 'localhost')
                       and any(fullmatch_any(s['alts'], nm) for s in sections)]
            members = []
            for _ in range(rng.choice([0, 1, 2, 2, 3, 3, 4])):
                members.append(rng.choice(defined) if defined and rng.random() < 0.85 else rng.choice(pool))
            groups.append({'key': k, 'members': members, 'method': rng.choice([None] + METHODS)})
        call = self.random_call(rng, sections, groups)
        return {'mode': mode, 'sections': sections, 'groups': groups, 'call': call}

    def random_bad(self, rng, sections, extra=()):
        r = rng.random()
        if r < 0.15:
            return None
        if r < 0.2:
            return []
        bad = set()
        for s in sections:
            if rng.random() < 0.5:
                bad.update(s['hosts'] or [a for a in s['alts'] if a in NAMES])
        for x in extra:
            if rng.random() < 0.4:
                bad.add(x)
        if rng.random() < 0.3:
            bad.update(rng.sample(HOSTS, rng.randint(1, 4)))
        return sorted(bad)

    def random_call(self, rng, sections, groups):
        r = rng.random()
        cs = [rng.randint(0, 7) for _ in range(rng.choice([0, 1, 3, 6]))]
        if r < 0.04:
            return {'f': 'keys'}
        if r < 0.12:
            hosts = [rng.choice(HOSTS[:4]) for _ in range(rng.randint(0, 4))]
            bad = rng.choice([None, [], rng.sample(HOSTS[:4], rng.randint(1, 4))])
            return {'f': 'host', 'hosts': hosts, 'method': rng.choice(METHODS + METHODS + ['first', 'Random']), 'bad': bad, 'cs': cs}
        if groups and r < 0.3:
            g = rng.randrange(len(groups))
            return {'f': 'group', 'g': g, 'bad': self.random_bad(rng, sections, groups[g]['members']), 'cs': cs}
        # a name: biased to names that something matches
        cands = []
        for nm in NAMES + GROUP_NAMES:
            try:
                if any(fullmatch_any(s['alts'], nm) for s in sections) or any(re.fullmatch(g['key'], nm) for g in groups):
                    cands.append(nm)
            except re.error:
                pass
        grp_names = [nm for nm in GROUP_NAMES if any(re.fullmatch(g['key'], nm) for g in groups)]
        q = rng.random()
        if grp_names and q < 0.45:
            name = rng.choice(grp_names)
        elif cands and q < 0.9:
            name = rng.choice(cands)
        else:
            name = rng.choice(NAMES + GROUP_NAMES)
        extra = [m for g in groups for m in g['members']]
        return {'f': 'name', 'name': name, 'bad': self.random_bad(rng, sections, extra), 'cs': cs}

    # ------------------------------------------------------------------
    def expected_alts(self, inp):
        """heading text / alternative -> list of alternatives (for the match matrices)"""
        m = {'localhost': ['localhost']}
        for s in inp['sections']:
            m.setdefault(header_text(s), s['alts'])
        return m

    def impl(self, inp):
        P = self.P
        call = inp['call']
        mode = inp['mode']
        secs_view = [{'text': header_text(s), 'alts': s['alts']} for s in inp['sections']]
        try:
            cfg = self.load(render(inp), mode)
        except Exception as exc:
            # the generator only writes configurations that are expected to load
            return {'i': {'plats': [], 'groups': [], 'names': [], 'pm': [], 'gm': [],
                          'calls': [{'f': 'keys', 'mode': mode, 'sections': secs_view}]},
                    'o': [{'err': 'load:' + type(exc).__name__}]}
        platforms = cfg.get(['platforms'])
        pgroups = cfg.get(['platform groups'])
        by_text = self.expected_alts(inp)
        plats, alts_of = [], []
        for key, v in platforms.items():
            if mode == 'raw':
                alts = by_text.get(key, [key])
            else:
                alts = [key]
            special = any(ch in SPECIALS for ch in key)
            try:
                lp = special and re.match(key, 'localhost') is not None
                lf = special and re.fullmatch(key, 'localhost') is not None
            except re.error:
                lp = lf = False
            plats.append({'key': key, 'hosts': list(v['hosts'] or []), 'method': v['selection']['method'],
                          'tag': str(v['install target']), 'lhPrefix': bool(lp), 'lhFull': bool(lf)})
            alts_of.append(alts)
        groups = [{'key': k, 'members': list(v['platforms'] or []), 'method': v['selection']['method']}
                  for k, v in pgroups.items()]
        names = ['localhost']
        if call['f'] == 'name':
            names.append(call['name'])
        for g in groups:
            names += g['members']
        names = list(dict.fromkeys(names))

        def fm(alts, nm):
            try:
                return fullmatch_any(alts, nm)
            except re.error:
                return False
        pm = [[fm(a, nm) for a in alts_of] for nm in names]
        gm = [[fm([g['key']], nm) for g in groups] for nm in names]
        bad = call.get('bad')
        dcall = dict(call)
        dcall['bad'] = list(bad or [])
        if call['f'] == 'keys':
            dcall.update({'mode': mode, 'sections': secs_view})
        if call['f'] == 'name':
            # which sections *as written* match the name (alternative by alternative)
            dcall['intended'] = [fm(s['alts'], call['name']) for s in inp['sections']]
        di = {'plats': plats, 'groups': groups, 'names': names, 'pm': pm, 'gm': gm, 'calls': [dcall]}

        stream = Stream(call.get('cs') or [])
        saved = (P.glbl_cfg, P.HOST_SELECTION_METHODS.get('random'), random.choice)
        P.glbl_cfg = lambda *a, **k: cfg
        if 'random' in P.HOST_SELECTION_METHODS:
            P.HOST_SELECTION_METHODS['random'] = stream
        random.choice = stream
        badset = None if bad is None else set(bad)
        try:
            if call['f'] == 'keys':
                obs = {'ok': list(platforms.keys())}
            elif call['f'] == 'host':
                plat = {'name': 'x', 'hosts': list(call['hosts']), 'selection': {'method': call['method']}}
                obs = {'ok': P.get_host_from_platform(plat, badset)}
            elif call['f'] == 'group':
                key = groups[call['g']]['key']
                obs = {'ok': P.get_platform_from_group(pgroups[key], key, badset)}
            else:
                p = P.platform_from_name(call['name'], bad_hosts=badset)
                obs = {'ok': {'name': p['name'], 'hosts': list(p['hosts']), 'method': p['selection']['method'],
                              'tag': str(p['install target'])}}
        except Exception as exc:
            obs = {'err': type(exc).__name__}
            if type(exc).__name__ == 'NoPlatformsError':
                obs['consumed'] = sorted(exc.bad_hosts)
        finally:
            P.glbl_cfg = saved[0]
            if saved[1] is not None:
                P.HOST_SELECTION_METHODS['random'] = saved[1]
            random.choice = saved[2]
        return {'i': di, 'o': [obs]}

    def driver_input(self, inp, raw):
        return raw['i']

    def driver_obs(self, inp, raw):
        return raw['o']

    # ------------------------------------------------------------------
    def classify(self, inp, obs):
        call = inp['call']
        o = obs[0] if obs else {}
        out = 'ok' if 'ok' in o else o.get('err', '?')
        f = call['f']
        if f == 'keys':
            kinds = set()
            for s in inp['sections']:
                if any(re.search(r'\{[^}]*,[^}]*\}', a) for a in s['alts']):
                    kinds.add('quantifier-comma')
                elif len(s['alts']) > 1:
                    kinds.add('comma-list')
            return f'keys/{inp["mode"]}/' + ('+'.join(sorted(kinds)) or 'plain')
        bad = call.get('bad')
        btag = 'nobad' if not bad else 'bad'
        if f == 'host':
            hs = call['hosts']
            left = [h for h in hs if not bad or h not in bad]
            st = 'empty' if not hs else 'allbad' if not left else 'filtered' if len(left) < len(hs) else 'allgood'
            return f'host/{call["method"]}/{st}/{out}'
        if f == 'group':
            return f'group/{inp["mode"]}/{btag}/{out}'
        name = call['name']
        try:
            is_grp = any(re.fullmatch(g['key'], name) for g in inp['groups'])
            nmatch = sum(1 for s in inp['sections'] if fullmatch_any(s['alts'], name))
        except re.error:
            is_grp, nmatch = False, 0
        tags = ['name', inp['mode'], 'group' if is_grp else 'plain', btag, out]
        if not is_grp:
            tags.append('multi' if nmatch > 1 else 'single' if nmatch == 1 else 'nomatch')
            if any(a in LOCALISH for s in inp['sections'] for a in s['alts']):
                tags.append('localish')
            if any('{' in a for s in inp['sections'] for a in s['alts']):
                tags.append('quantifier')
        elif 'ok' in o and isinstance(o['ok'], dict) and bad:
            tags.append('alive-selected')
        return '/'.join(tags)

    def neighbours(self, inp, rng):
        out = []
        call = inp['call']
        for c in range(4):
            j = dict(inp)
            j['call'] = dict(call, cs=[c, (c + 1) % 4, 2])
            out.append(j)
        if call.get('bad'):
            for k in range(len(call['bad'])):
                j = dict(inp)
                j['call'] = dict(call, bad=call['bad'][:k] + call['bad'][k + 1:])
                out.append(j)
        j = dict(inp)
        j['mode'] = 'global' if inp['mode'] == 'raw' else 'raw'
        out.append(j)
        for k in range(len(inp['sections'])):
            j = dict(inp)
            j['sections'] = inp['sections'][:k] + inp['sections'][k + 1:]
            out.append(j)
        return out


PROP = C47()
