"""Shared by C04F / C07F (sub-checks of C04 / C07 over the Sched3Fut model: future triggers + stop points set by
command): hand-written regression workflows, the retry of scheduler start-up time-outs, trace classification."""
from __future__ import annotations

import sys
from pathlib import Path

sys.path.insert(0, str(Path(__file__).resolve().parents[1] / 'sched'))
from prop import SchedProp, run_workers  # noqa: E402
from core import Infra  # noqa: E402
import gen as sgen  # noqa: E402


def _flow(graph, icp=1, fcp=4, runahead=1, extra='', runtime=''):
    return f'''[scheduler]
    allow implicit tasks = True
[scheduling]
    cycling mode = integer
    initial cycle point = {icp}
    final cycle point = {fcp}
    runahead limit = P{runahead}
{extra}    [[graph]]
{graph}[runtime]
    [[root]]
        [[[simulation]]]
            default run length = PT0S
{runtime}'''


def _sec(rec, *lines):
    body = '\n'.join('            ' + ln for ln in lines)
    return f'        {rec} = """\n{body}\n        """\n'


_L = {'op': 'loop'}


def _cmd(name, **args):
    return {'op': 'cmd', 'name': name, 'args': args}


def _stop_at(p):
    return _cmd('stop', mode=None, cycle_point=str(p))


def _job(task, sn=1, msgs=('started', 'succeeded')):
    return [{'op': 'subres', 'task': task, 'ok': True, 'sn': sn}] + [
        {'op': 'msg', 'task': task, 'msg': m, 'sn': sn, 'sev': 'INFO'} for m in msgs]


# workflows with future triggers; run with the seeded adaptive policy (ops = None) or a fixed op list
FLOWS = {
    # two dependants with different future offsets (2 and 1): the pool member with the largest offset comes and
    # goes while the one with the smaller offset stays -> the cached maximum must follow (regression 1 of the brief)
    'two-offsets': _flow(_sec('P1', 'a[+P2] => b', 'a[+P1] => c', 'a'), fcp=5, runahead=1),
    # the offset of b depends on the cycle: only the odd cycles have the future trigger
    'offset-by-cycle': _flow(_sec('P1', 'a', 'b') + _sec('P2', 'a[+P1] => b'), fcp=5, runahead=1),
    # "foo[+P1] & bar => baz" of the spawn_task comment: in the last cycle within the stop point bar wants to
    # spawn baz, whose other prerequisite is beyond the stop point (regression 2 of the brief)
    'beyond-stop': _flow(_sec('P1', 'a[+P1] & c => b', 'a', 'c'), fcp=4, runahead=2),
    # future trigger at the final cycle point only (refers beyond the final point)
    'final-only': _flow(_sec('P1', 'a => b', 'a') + _sec('R1/$', 'a[+P1] | b => c'), fcp=3, runahead=1),
    # a future-trigger child enters the pool in an earlier cycle than the current base point while the limit
    # sits at the stop point (finding stale-limit-at-stop-point)
    'child-behind-base': _flow(_sec('P1', 'e[+P2] => b', 'e', 'd[-P1] => d'), fcp=5, runahead=1),
    # future triggers written relative to the INITIAL cycle point, mixed with a cycle-relative one: 1/b depends on 3/a
    # (offset 2), 2/b on 3/a (offset 1), 1/d on 2/a; with runahead P0 the run completes only if the limit is extended
    'icp-relative': _flow(_sec('P1', 'a', 'c') + _sec('R1', 'c & a[^+P2] => b') + _sec('R1/+P1', 'c & a[^+P2] => b') +
                          _sec('R1', 'c & a[+P1] => d'), fcp=4, runahead=0),
}


def corpus_cases():
    out = []
    for k, (name, flow) in enumerate(sorted(FLOWS.items())):
        for kind, seed in (('fut', 11), ('futcmd', 12), ('futcmd', 13)):
            wf_tasks = sorted(set(c for c in 'abcdef' if f'{c}' in flow.split('[[graph]]')[1].split('[runtime]')[0]))
            import random
            rng = random.Random(seed * 100 + k)
            wf = {'tasks': wf_tasks,
                  'prof': {t: {'opt_fail': False, 'custom': [], 'opt_custom': [], 'exec_retries': 0, 'sub_retries': 0}
                           for t in wf_tasks}}
            pol = sgen.gen_policy(rng, wf, kind, {})
            out.append({'id': f'fut-{name}-{kind}{seed}', 'flow': flow, 'seed': seed * 100 + k, 'opts': {},
                        'policy': pol, 'ops': None, 'kind': kind})
    # fixed histories ---------------------------------------------------------------------------------------
    # stop point lowered to 2 while 2/c runs: 2/c then wants to spawn 2/b whose prerequisite 3/a is beyond the stop
    # point; the stop point is raised again afterwards (2/b stays unspawned: its refusal left a database row)
    out.append({'id': 'fut-fixed-beyond-stop', 'flow': FLOWS['beyond-stop'], 'seed': 0, 'opts': {},
                'policy': {'restarts': 0}, 'kind': 'futcmd',
                'ops': [_L] + _job('1/a') + _job('1/c') + _job('2/a') + _job('2/c', msgs=('started',)) + [
                    _L, _stop_at(2), {'op': 'msg', 'task': '2/c', 'msg': 'succeeded', 'sn': 1, 'sev': 'INFO'},
                    _L, _L, _stop_at(4), _L, _L]})
    # P1 runahead: 3/a is still runahead-limited when cycles 1-2 of a and c are done and 1/b, 2/b are pooled; the stop
    # point is then lowered to 2: 2/b (within the stop point) waits on 3/a (beyond it, never released).  The stall
    # check must ignore that dependence (log_unsatisfied_prereqs); the unchanged scheduler then neither stalls nor
    # shuts down (finding hang-waiting-beyond-stop-point)
    out.append({'id': 'fut-fixed-wait-beyond-stop', 'flow': _flow(_sec('P1', 'a[+P1] & c => b', 'a', 'c'), fcp=4, runahead=1),
                'seed': 0, 'opts': {}, 'policy': {'restarts': 0}, 'kind': 'futcmd',
                'ops': [_L] + _job('1/a') + _job('1/c') + _job('2/a') + _job('2/c') + [_L, _stop_at(2), _L] +
                _job('1/b') + [_L, _L, _L, _L]})
    return out


class FutProp(SchedProp):
    kinds = ('fut', 'futany', 'futcmd')
    n_quick = 48
    n_thorough = 600
    gen_opts = {'max_span': 5, 'p_stop': 0.3, 'p_startcp': 0.15}
    unmodelled = [
        'job submission / platforms / remote init (stub job runner: real prep_submit_task_jobs, launch recorded, '
        'outcome delivered by explicit ops)',
        'the static instance graph (prerequisites, graph children / parents, parentless points, the future offset each '
        'instance contributes to TaskDef.max_future_prereq_offset) is read off the real TaskDef / TaskProxy objects and '
        'is an input of the model (C13-C16 cover that part)',
        'duration runahead limits (PT..), datetime cycling, manual triggers (is_manual_submit exemption), cylc set / '
        'remove, reload, several flows, xtriggers, clock-expiry, queue limits, Cylc-7 compatibility mode',
    ]

    def corpus(self):
        return corpus_cases()

    def impl_batch(self, inputs):
        # a start-up time-out of the scheduler's server thread (overloaded machine) says nothing about the
        # case: such cases are run again, on their own
        res = run_workers(inputs, self.workers)
        for _attempt in range(2):
            again = [k for k, r in enumerate(res) if 'error' in r and 'BrokenBarrierError' in r['error']]
            if not again:
                break
            for k, r in zip(again, run_workers([inputs[k] for k in again], 2)):
                res[k] = r
        return res

    def skip_case(self, inp, raw):
        if 'error' in raw and 'BrokenBarrierError' in raw['error']:
            raise Infra('scheduler server thread did not start within its time-out (overloaded machine?) '
                        f'in case {inp.get("id")}')
        return super().skip_case(inp, raw)

    def neighbours(self, inp, rng):
        # the same workflow under other seeded schedules
        out = []
        for k in range(6):
            d = dict(inp)
            d['ops'] = None
            d['seed'] = rng.randrange(1 << 30)
            d['id'] = f"{inp.get('id', 'case')}n{k}"
            out.append(d)
        return out

    def classify(self, inp, obs):
        if isinstance(obs, dict):
            return 'crash'
        if '[+P' not in inp.get('flow', ''):
            return None         # no future trigger: covered by C04 / C07 / C43
        tags = [inp.get('kind', '?')]
        ms = [o.get('mfo') for o in obs]
        if any(m is not None for m in ms):
            tags.append('offset')
            if any(x is not None and (y is None or y < x) for x, y in zip(ms, ms[1:])):
                tags.append('drops')
        bases = [min(t['p'] for t in o['pool']) for o in obs if o['pool']]
        if any(y < x for x, y in zip(bases, bases[1:])):
            tags.append('base-back')
        sps = [o.get('stop_point') for o in obs]
        if len(set(sps)) > 1:
            tags.append('stop-moves')
        elif sps and obs[0]['pool'] and sps[0] is not None and any(
                t['p'] > sps[0] for o in obs for t in o['pool']):
            tags.append('beyond-stop')
        if any(t['rh'] for o in obs for t in o['pool']):
            tags.append('binds')
        last = obs[-1]
        tags.append('stop' if last['stop'] else ('stalled' if last['stalled'] else 'cut'))
        return '/'.join(tags)
