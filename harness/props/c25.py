"""C25  The published data store reflects the task pool; a subscriber that replays the published deltas holds the
scheduler's data (DataStoreMgr delta algebra + a monitor over real scheduler runs)."""
from __future__ import annotations

import json
import random
import sys
from pathlib import Path
from types import SimpleNamespace

from google.protobuf.message_factory import GetMessageClass

sys.path.insert(0, str(Path(__file__).resolve().parents[1] / 'sched'))
from prop import SchedProp, run_workers  # noqa: E402
import gen as sgen  # noqa: E402

FLOWS = ['trigger', 'trigger', 'trigger', 'trigger', 'set_out', 'set_pre', 'remove', 'hold', 'release', 'trigger']
MIX = ['hold', 'release', 'pause', 'resume', 'trigger', 'trigger', 'set_out', 'set_pre', 'remove', 'window',
       'window', 'reload', 'reload', 'set_hold_point', 'release_hold_point', 'stop_clean', 'stop_now',
       'stop_point']


class C25(SchedProp):
    id = 'C25'
    props_modules = ['CylcModel.Props.C25']
    theorems = [
        'CylcModel.C25.replay_equals_store',
        'CylcModel.C25.replay_equals_store_partial',
        'CylcModel.C25.replay_aliased_counterexample',
        'CylcModel.C25.replay_code_as_probed',
        'CylcModel.C25.checksum_agree',
        'CylcModel.C25.snapshot_idempotent',
        'CylcModel.C25.republish_counterexample',
        'CylcModel.C25.state_delta_sufficient',
        'CylcModel.C25.held_delta_sufficient',
        'CylcModel.C25.flow_delta_sufficient',
        'CylcModel.C25.outputs_delta_sufficient',
        'CylcModel.C25.prereq_delta_sufficient',
        'CylcModel.C25.prereq_delta_empty_counterexample',
    ]
    statement_note = (
        'partial: the delta ALGEBRA is proved for all stores, deltas and histories of any length - a subscriber that '
        'starts from a published snapshot and applies every published batch in order holds exactly the scheduler\'s store '
        'and computes its checksums (replay_equals_store, checksum_agree: invariant over all lists of apply / silent '
        'apply / snapshot / re-initialise steps, well-formedness of the id-keyed maps preserved by apply_delta); with '
        'the code as found (apply_delta keeps the `added` elements of the delta it publishes afterwards) the statement is '
        'false (replay_aliased_counterexample, finding added-aliased) and holds under the hypothesis that the '
        'scheduler\'s own application leaves the published batch unchanged (replay_equals_store_partial); '
        'replay_code_as_probed states it for the behaviour probed in the code under test.  The task-proxy delta '
        'constructors are sufficient: after delta_task_state ("only fields that differ from the store or the pending '
        'delta") / delta_task_held / delta_task_flow_nums / delta_task_outputs / delta_task_prerequisite and the flush, the '
        'store element shows the proxy\'s status, flags, flows, outputs, prerequisites (prerequisites: for a proxy that has '
        'any - counterexample otherwise).  NOT a theorem: that every one of the ~40 sites that change a task proxy calls '
        'the matching delta_* method, that update_data_structure follows every change, and that every applied batch is '
        'published exactly once - these are covered only by the monitor over generated scheduler runs (pool vs store '
        'after every data-store update, replayed store vs scheduler store, checksums)')
    technique = ('inductive invariant over server histories + field-wise reasoning about MergeFrom on flattened '
                 'messages; component correspondence with the real apply_delta / delta_task_*; monitor over real '
                 'scheduler runs')
    trusted = [
        'protobuf MergeFrom / CopyFrom / ClearField / ListFields semantics (set scalars overwrite, repeated fields '
        'append, map entries are replaced by key, singular sub-messages merge field-wise) - assumed in the model, '
        'exercised against the real protobuf runtime by the "apply" component cases',
        'the subscriber protocol: per-type deltas are applied in published order and a delta flagged `reloaded` first '
        'clears its type (what cylc-uiserver does; cylc-flow has no subscriber of its own); the AllDeltas message is '
        'the concatenation of the per-type deltas of the batch',
        'the start-up publication of Scheduler.run_scheduler (not executed by the in-process runner) is reproduced by '
        'the harness from the form found in its source (unconditional put / _publish_deltas())',
        'the canonical rendering of protobuf messages (harness/sched/dsobs.py) and zlib.adler32',
    ]
    unmodelled = [
        'how the scheduler decides WHICH deltas to create (window walks, pruning, family / workflow summaries, jobs): '
        'the model replays whatever was published; the pool-vs-store comparison is a monitor',
        'job submission / platforms (stub job runner), xtriggers, ext-triggers, broadcasts, log records',
        'ZeroMQ publication itself (what is put on the publish queue is what is observed)',
    ]
    rule = ('(1) generated integer-cycling workflows driven through the real Scheduler by a seeded adaptive schedule '
            '(kinds: complete / any (failures, noise) / cmd (hold, release, pause, stop + restart) / flows (group triggers, set, remove with --flow: several flows) / mix (group trigger, set '
            'outputs / prerequisites, remove, window resize, reload with changed definitions, stop + restart)); every '
            'published batch is replayed by the model, the pool is compared with the store after every data-store update; '
            '(2) component cases on the real functions: random stores and delta batches through apply_delta; what '
            'apply_delta_batch leaves in the delta it publishes; delta_task_state over every (store, pending, proxy) value '
            'combination of one field with the others random; delta_task_held / flow_nums / outputs / prerequisite; '
            'non-trivial = distinct class label per distinct case')
    n_quick = 16
    n_thorough = 160
    workers = 16

    # ------------------------------------------------------------------ set up
    def setup(self):
        import dsobs        # noqa: F401  (harness/sched; imports cylc.flow from the repository under test)
        self.ds = dsobs
        from cylc.flow import data_store_mgr as dsm
        self.dsm = dsm

    def translate(self):
        d = self.dsm
        import dsobs

        def q(s):
            if not isinstance(s, str) or '"' in s or '\\' in s:
                raise ValueError(f'not a plain string: {s!r}')
            return '"' + s + '"'

        def lst(xs):
            return '[' + ', '.join(xs) + ']'
        keys = [d.EDGES, d.FAMILIES, d.FAMILY_PROXIES, d.JOBS, d.TASKS, d.TASK_PROXIES, d.WORKFLOW]
        clear = lst('(%s, %s)' % (q(k), lst(q(f) for f in sorted(d.CLEAR_FIELD_MAP[k]))) for k in keys)
        deque = lst('(%s, %s)' % (q(k), lst('(%s, %d)' % (q(f), int(n)) for f, n in sorted(v.items())))
                    for k, v in sorted(d.DEQUE_FIELD_MAP.items()))
        reset = lst(q(k) for k in sorted(d.RESET_PROTOBUF_TYPES))
        mgr = d.DataStoreMgr(SimpleNamespace(owner='u', workflow='w'))
        order = lst(q(k) for k in mgr.deltas)
        # probe: does the scheduler's own application change the delta it publishes afterwards?
        mgr.deltas[d.TASK_PROXIES].added.append(d.PbTaskProxy(id='t'))
        upd = d.PbTaskProxy(id='t')
        upd.edges.append('e')
        mgr.deltas[d.TASK_PROXIES].updated.append(upd)
        mgr.apply_delta_batch()
        edges = list(mgr.deltas[d.TASK_PROXIES].added[0].edges)
        if edges == ['e']:
            aliased = 'true'
        elif edges == []:
            aliased = 'false'
        else:
            raise ValueError(f'apply_delta_batch probe: unexpected added element {edges}')
        if list(mgr.data[mgr.workflow_id][d.TASK_PROXIES]['t'].edges) != ['e']:
            raise ValueError('apply_delta_batch probe: the update was not applied to the store')
        startup = 'true' if dsobs.startup_mode() == 'unconditional' else 'false'
        return {'DataStoreTables.lean': (
            '/- GENERATED by harness/props/c25.py translate() from the live source. Do not edit. -/\n'
            'namespace CylcModel.Generated.DataStoreTables\n'
            '/-- `CLEAR_FIELD_MAP` (sets sorted) -/\n'
            f'def clearFieldMap : List (String × List String) := {clear}\n'
            '/-- `DEQUE_FIELD_MAP` -/\n'
            f'def dequeFieldMap : List (String × List (String × Nat)) := {deque}\n'
            '/-- `RESET_PROTOBUF_TYPES` (sorted) -/\n'
            f'def resetTypes : List String := {reset}\n'
            '/-- order of `DataStoreMgr.deltas` = order in which a batch is applied and published -/\n'
            f'def deltaOrder : List String := {order}\n'
            '/-- probe: `apply_delta` stores the `added` elements of the delta themselves, so updates of the same batch are\n'
            'merged into the elements that are published afterwards -/\n'
            f'def addedAliased : Bool := {aliased}\n'
            '/-- source of `Scheduler.run_scheduler`: the start-up publication puts `publish_deltas` on the queue\n'
            'unconditionally (true) or goes through `_publish_deltas()` (false) -/\n'
            f'def startupUnconditional : Bool := {startup}\n'
            'end CylcModel.Generated.DataStoreTables\n')}

    # ------------------------------------------------------------------ generation
    def sched_case(self, seed, kind, tier):
        base = {'complete': 'complete', 'any': 'any', 'cmd': 'cmd', 'mix': 'cmdrl', 'flows': 'cmdrl'}[kind]
        c = sgen.gen_case(seed, base, {})
        pol = c['policy']
        pol['obs_ds'] = True
        pol.pop('inst_off', None)
        pol['max_steps'] = 100 if tier == 'quick' else 160
        if kind == 'mix':
            pol.update(cmds=MIX, p_cmd=[0.12, 0.2, 0.3][seed % 3], restarts=[0, 1, 1, 2][seed % 4])
        if kind == 'flows':
            # several flows in the pool: group triggers with --flow, cylc set / remove with --flow, no restarts
            pol.update(cmds=FLOWS, p_cmd=0.3, restarts=0)
        if kind == 'cmd':
            pol['cmds'] = list(pol['cmds']) + ['window']
        c['id'] = f'{kind}{seed}'
        c['kind'] = kind
        return c

    def gen(self, tier, rng):
        n = self.n_quick if tier == 'quick' else self.n_thorough
        base = rng.randrange(1 << 30)
        kinds = ['mix', 'flows', 'cmd', 'mix', 'any', 'flows', 'complete', 'mix']
        for k in range(n):
            yield self.sched_case(base + k, kinds[k % len(kinds)], tier)
        yield from self.unit_cases(tier, rng)

    def corpus(self):
        """The witnesses of every recorded finding, whatever its kind: once a finding is marked `fixed` its witness
        stays in the run as a regression input."""
        f = Path(__file__).resolve().parents[2] / 'findings' / 'C25.json'
        if not f.exists():
            return []
        return [e['witness'] for e in json.loads(f.read_text()) if 'witness' in e]

    # ---- component cases -------------------------------------------------
    POOLS = {
        'edges': ['E1', 'E2', 'E3'], 'families': ['Fa', 'Fb'], 'family_proxies': ['P1', 'P2', 'P3'],
        'jobs': ['J1', 'J2', 'J3'], 'tasks': ['Ta', 'Tb'], 'task_proxies': ['t1', 't2', 't3', 't4'],
    }
    FIELD_POOL = {
        'first_parent': 'family_proxies', 'source': 'task_proxies', 'target': 'task_proxies', 'edges': 'edges',
        'child_tasks': 'task_proxies', 'child_families': 'family_proxies', 'jobs': 'jobs',
        'task_proxies': 'task_proxies', 'family_proxies': 'family_proxies', 'task_proxy': 'task_proxies',
    }

    def rand_msg(self, rng, cls, p_set=0.45, depth=0, mid=None):
        from google.protobuf.descriptor import FieldDescriptor as FD
        msg = cls()
        for fd in cls.DESCRIPTOR.fields:
            if fd.name == 'id' and mid is not None:
                if mid != '':
                    msg.id = mid
                continue
            if rng.random() > p_set:
                continue
            pool = self.POOLS.get(self.FIELD_POOL.get(fd.name, ''), None)

            def scalar(f):
                if f.type == FD.TYPE_STRING:
                    if pool and rng.random() < 0.9:
                        return rng.choice(pool)
                    if f.name == 'stamp':
                        return rng.choice(['s@1', 's@2', 'b@1.5', 'a@3'])
                    return rng.choice(['', 'a', 'b', 'x y', 'true', 'waiting', 'running'])
                if f.type == FD.TYPE_BOOL:
                    return rng.random() < 0.5
                if f.type in (FD.TYPE_DOUBLE, FD.TYPE_FLOAT):
                    return rng.choice([0.0, 1.5, 2.0, 12.25])
                return rng.choice([0, 1, 2, 3])
            if self.ds._is_map(fd):
                vfd = fd.message_type.fields_by_name['value']
                for key in rng.sample(['k1', 'k2', 'succeeded', 'x'], rng.randint(1, 2)):
                    if vfd.message_type is not None:
                        getattr(msg, fd.name)[key].CopyFrom(
                            self.rand_msg(rng, GetMessageClass(vfd.message_type), 0.5, depth + 1))
                    else:
                        getattr(msg, fd.name)[key] = scalar(vfd)
            elif self.ds._is_rep(fd):
                n = rng.randint(1, 3)
                if fd.message_type is not None:
                    if depth < 2:
                        for _ in range(min(n, 2)):
                            getattr(msg, fd.name).add().CopyFrom(
                                self.rand_msg(rng, GetMessageClass(fd.message_type), 0.5, depth + 1))
                else:
                    getattr(msg, fd.name).extend(scalar(fd) for _ in range(n))
            elif fd.message_type is not None:
                if depth < 2:
                    getattr(msg, fd.name).CopyFrom(
                        self.rand_msg(rng, GetMessageClass(fd.message_type), 0.3, depth + 1))
            else:
                setattr(msg, fd.name, scalar(fd))
        return msg

    def rand_store(self, rng):
        d = self.dsm
        data = {}
        for key in self.ds.KEYS:
            ids = rng.sample(self.POOLS[key], rng.randint(0, len(self.POOLS[key])))
            data[key] = [[i, self.ds.canon(self.rand_msg(rng, d.MESSAGE_MAP[key], 0.4, mid=i))] for i in ids]
        data[d.WORKFLOW] = self.ds.canon(self.rand_msg(rng, d.PbWorkflow, 0.4))
        return data

    def rand_delta(self, rng, key=None, p_reload=0.12, share_ids=False):
        d = self.dsm
        key = key or rng.choice(self.ds.KEYS + [d.WORKFLOW, d.TASK_PROXIES, d.FAMILY_PROXIES])
        out = {'key': key, 'reloaded': rng.random() < p_reload, 'checksum': None}
        if key == d.WORKFLOW:
            empty = {'s': {}, 'r': {}, 'm': {}}
            out['added'] = self.ds.canon(self.rand_msg(rng, d.PbWorkflow, 0.3)) if rng.random() < 0.3 else empty
            out['updated'] = self.ds.canon(self.rand_msg(rng, d.PbWorkflow, 0.3)) if rng.random() < 0.8 else empty
            if rng.random() < 0.3:
                out['updated']['s']['states_updated'] = rng.choice(['true', 'false'])
            if rng.random() < 0.3:
                out['updated']['r']['log_records'] = [
                    json.dumps({'m': {}, 'r': {}, 's': {'message': f'm{k}'}}, sort_keys=True, separators=(',', ':'))
                    for k in range(rng.randint(1, 7))]
            out['pruned'] = rng.random() < 0.1
            return out
        pool = self.POOLS[key]

        def some_id():
            r = rng.random()
            return '' if r < 0.03 else 'zz' if r < 0.08 else rng.choice(pool)
        cls = d.MESSAGE_MAP[key]
        added = [self.rand_msg(rng, cls, 0.4, mid=some_id()) for _ in range(rng.choice([0, 0, 1, 1, 2]))]
        upd_ids = [some_id() for _ in range(rng.choice([0, 1, 1, 2, 3]))]
        if share_ids and added:
            upd_ids = [rng.choice(added).id for _ in range(rng.randint(1, 3))] + upd_ids[:1]
            if rng.random() < 0.3:
                added.append(self.rand_msg(rng, cls, 0.4, mid=rng.choice(added).id))
        out['added'] = [self.ds.canon(m) for m in added]
        out['updated'] = [self.ds.canon(self.rand_msg(rng, cls, 0.35, mid=i)) for i in upd_ids]
        out['pruned'] = [some_id() for _ in range(rng.choice([0, 0, 1, 2]))]
        return out

    def tp_elem(self, rng, tp_id, fields):
        """canonical PbTaskProxy with the given scalar fields (None = unset) + a few random other fields"""
        d = self.dsm
        msg = d.PbTaskProxy(id=tp_id)
        for k, v in fields.items():
            if v is not None:
                setattr(msg, k, v)
        if rng.random() < 0.4:
            msg.prerequisites.add(expression='0', satisfied=rng.random() < 0.5)
        if rng.random() < 0.4:
            o = msg.outputs[rng.choice(['succeeded', 'x'])]
            o.label, o.satisfied = 'l', rng.random() < 0.5
        if rng.random() < 0.3:
            msg.edges.append('E1')
        if rng.random() < 0.3:
            msg.flow_nums = '[1]'
        if rng.random() < 0.3:
            msg.first_parent = 'P1'
        return self.ds.canon(msg)

    STATUSES = [None, 'waiting', 'running', 'succeeded']

    def unit_cases(self, tier, rng):
        big = tier != 'quick'
        # apply_delta on random stores / batches
        for k in range(1500 if big else 260):
            yield {'unit': 'apply', 'store': self.rand_store(rng),
                   'batches': [[self.rand_delta(rng) for _ in range(rng.randint(1, 3))]
                               for _ in range(rng.randint(1, 3))]}
        # what apply_delta_batch leaves in the published delta
        for k in range(600 if big else 120):
            key = rng.choice(self.ds.KEYS + [self.dsm.TASK_PROXIES, self.dsm.JOBS, self.dsm.WORKFLOW])
            yield {'unit': 'alias', 'store': self.rand_store(rng),
                   'delta': self.rand_delta(rng, key, p_reload=0.0, share_ids=rng.random() < 0.7)}
        # delta_task_state: one field swept exhaustively (store value x pending value x proxy value), others random
        flags = ['is_held', 'is_queued', 'is_runahead']
        tri = [None, False, True]

        def tstate(store_f, pend_f, proxy):
            return {'unit': 'tstate', 'store': self.tp_elem(rng, '~u/w//1/a', store_f),
                    'pending': self.tp_elem(rng, '~u/w//1/a', pend_f), 'proxy': proxy}
        for _rep in range(3 if big else 1):
            for f in flags:
                for sv in tri:
                    for pv in tri:
                        for val in (False, True):
                            sf = {g: rng.choice(tri) for g in flags}
                            pf = {g: rng.choice(tri) for g in flags}
                            px = {'st': rng.choice(self.STATUSES[1:]), 'held': rng.random() < 0.5,
                                  'q': rng.random() < 0.5, 'rh': rng.random() < 0.5}
                            sf[f], pf[f] = sv, pv
                            px[{'is_held': 'held', 'is_queued': 'q', 'is_runahead': 'rh'}[f]] = val
                            sf['state'], pf['state'] = rng.choice(self.STATUSES), rng.choice(self.STATUSES)
                            yield tstate(sf, pf, px)
            for sv in self.STATUSES:
                for pv in self.STATUSES:
                    for val in self.STATUSES[1:]:
                        sf = {g: rng.choice(tri) for g in flags}
                        pf = {g: rng.choice(tri) for g in flags}
                        sf['state'], pf['state'] = sv, pv
                        yield tstate(sf, pf, {'st': val, 'held': rng.random() < 0.5, 'q': rng.random() < 0.5,
                                              'rh': rng.random() < 0.5})
        for k in range(1200 if big else 200):
            what = rng.choice(['held', 'flows', 'outputs', 'prereq'])
            sf = {g: rng.choice(tri) for g in flags}
            pf = {g: rng.choice(tri) for g in flags}
            case = {'unit': 'tdelta', 'what': what, 'store': self.tp_elem(rng, '~u/w//1/a', sf),
                    'pending': self.tp_elem(rng, '~u/w//1/a', pf)}
            if what == 'held':
                case['arg'] = rng.random() < 0.5
            elif what == 'flows':
                case['arg'] = sorted(rng.sample([1, 2, 3, 12], rng.randint(0, 3)))
            elif what == 'outputs':
                labels = rng.sample(['submitted', 'started', 'succeeded', 'failed', 'x'], rng.randint(0, 4))
                case['arg'] = [[lb, lb + 'msg', rng.random() < 0.5] for lb in labels]
            else:
                case['arg'] = [[f'{k}', rng.random() < 0.5] for k in range(rng.randint(0, 3))]
            yield case

    # ------------------------------------------------------------------ implementation
    def impl_batch(self, inputs):
        sched = [i for i in inputs if 'unit' not in i]
        res = iter(run_workers(sched, self.workers)) if sched else iter(())
        return [self.impl_unit(i) if 'unit' in i else next(res) for i in inputs]

    def impl(self, inp):
        return self.impl_batch([inp])[0]

    # -- building protobuf messages back from the canonical form
    def build(self, cls, elem):
        msg = cls()
        for path, v in elem['s'].items():
            obj, parts = msg, path.split('.')
            for p in parts[:-1]:
                obj = getattr(obj, p)
            fd = obj.DESCRIPTOR.fields_by_name[parts[-1]]
            setattr(obj, parts[-1], self.unscal(fd, v))
        for path, items in elem['r'].items():
            obj, parts = msg, path.split('.')
            for p in parts[:-1]:
                obj = getattr(obj, p)
            fd = obj.DESCRIPTOR.fields_by_name[parts[-1]]
            rep = getattr(obj, parts[-1])
            for it in items:
                if fd.message_type is not None:
                    rep.add().CopyFrom(self.build(GetMessageClass(fd.message_type), json.loads(it)))
                else:
                    rep.append(self.unscal(fd, it))
        for path, items in elem['m'].items():
            obj, parts = msg, path.split('.')
            for p in parts[:-1]:
                obj = getattr(obj, p)
            fd = obj.DESCRIPTOR.fields_by_name[parts[-1]]
            vfd = fd.message_type.fields_by_name['value']
            mp = getattr(obj, parts[-1])
            for k, it in items:
                if vfd.message_type is not None:
                    mp[k].CopyFrom(self.build(GetMessageClass(vfd.message_type), json.loads(it)))
                else:
                    mp[k] = self.unscal(vfd, it)
        return msg

    @staticmethod
    def unscal(fd, text):
        if fd.type == fd.TYPE_BOOL:
            return text == 'true'
        if fd.type in (fd.TYPE_DOUBLE, fd.TYPE_FLOAT):
            return float(text)
        if fd.type == fd.TYPE_STRING:
            return text
        return int(text)

    def build_store(self, store):
        d = self.dsm
        data = {k: {i: self.build(d.MESSAGE_MAP[k], e) for i, e in store[k]} for k in self.ds.KEYS}
        data[d.WORKFLOW] = self.build(d.PbWorkflow, store[d.WORKFLOW])
        return data

    def build_delta(self, cd):
        d = self.dsm
        key = cd['key']
        delta = d.DELTAS_MAP[key]()
        delta.reloaded = cd['reloaded']
        if key == d.WORKFLOW:
            delta.added.CopyFrom(self.build(d.PbWorkflow, cd['added']))
            delta.updated.CopyFrom(self.build(d.PbWorkflow, cd['updated']))
            if cd['pruned']:
                delta.pruned = 'x'
        else:
            for e in cd['added']:
                delta.added.add().CopyFrom(self.build(d.MESSAGE_MAP[key], e))
            for e in cd['updated']:
                delta.updated.add().CopyFrom(self.build(d.MESSAGE_MAP[key], e))
            delta.pruned.extend(cd['pruned'])
        return delta

    def stub_mgr(self):
        d = self.dsm
        return d.DataStoreMgr(SimpleNamespace(owner='u', workflow='w'))

    def impl_unit(self, inp):
        d, ds = self.dsm, self.ds
        kind = inp['unit']
        saved_time = d.time
        d.time = lambda: 1000.5
        try:
            if kind == 'apply':
                client = ds.Client()
                client.data = self.build_store(inp['store'])
                ccs = []
                for batch in inp['batches']:
                    row = []
                    for cd in batch:
                        client.apply(cd['key'], self.build_delta(cd))
                        row.append(ds.store_checksum(cd['key'], client.data) if cd['key'] != d.WORKFLOW else None)
                    ccs.append(row)
                return {'store': ds.canon_store(client.data), 'ccs': ccs}
            if kind == 'alias':
                mgr = self.stub_mgr()
                mgr.data[mgr.workflow_id] = self.build_store(inp['store'])
                key = inp['delta']['key']
                mgr.deltas[key] = self.build_delta(inp['delta'])
                mgr.apply_delta_batch()
                pub = ds.canon_delta(key, mgr.deltas[key])
                pub.pop('checksum')
                return {'published': pub, 'store': ds.canon_store(mgr.data[mgr.workflow_id])}
            # task-proxy delta constructors on a stub manager
            from cylc.flow.id import Tokens
            mgr = self.stub_mgr()
            tokens = Tokens('~u/w//1/a')
            tp_id = tokens.id
            data = mgr.data[mgr.workflow_id]
            data[d.TASK_PROXIES][tp_id] = self.build(d.PbTaskProxy, inp['store'])
            mgr.updated[d.TASK_PROXIES][tp_id] = self.build(d.PbTaskProxy, inp['pending'])
            if kind == 'tstate':
                px = inp['proxy']
                itask = SimpleNamespace(
                    tokens=tokens, identity='1/a', point='1',
                    state=SimpleNamespace(status=px['st'], is_held=px['held'], is_queued=px['q'], is_runahead=px['rh']),
                    tdef=SimpleNamespace(name='a', elapsed_times=[], rtconfig={}))
                mgr.delta_task_state(itask)
            else:
                what, arg = inp['what'], inp['arg']
                if what == 'held':
                    mgr.delta_task_held('a', '1', arg)
                elif what == 'flows':
                    mgr._delta_task_flow_nums(tp_id, set(arg))
                elif what == 'outputs':
                    itask = SimpleNamespace(tokens=tokens, state=SimpleNamespace(
                        outputs=[(lb, msg, sat) for lb, msg, sat in arg]))
                    mgr.delta_task_outputs(itask)
                else:
                    pres = [SimpleNamespace(api_dump=(lambda m=self.prereq_msg(k, sat): m)) for k, sat in arg]
                    if arg and arg[0][1]:
                        pres.insert(0, SimpleNamespace(api_dump=lambda: None))      # a prerequisite without atoms
                    itask = SimpleNamespace(tokens=tokens, state=SimpleNamespace(prerequisites=pres))
                    mgr.delta_task_prerequisite(itask)
            pend = mgr.updated[d.TASK_PROXIES][tp_id]
            out = {'pending': ds.canon(pend)}
            delta = d.TPDeltas()
            delta.updated.add().CopyFrom(pend)
            d.apply_delta(d.TASK_PROXIES, delta, data)
            out['flushed'] = ds.canon(data[d.TASK_PROXIES][tp_id])
            return out
        finally:
            d.time = saved_time

    def prereq_msg(self, k, sat):
        from cylc.flow import data_messages_pb2 as d
        return d.PbPrerequisite(expression=f'c{k}', satisfied=sat, conditions=[
            d.PbCondition(task_proxy=f'1/p{k}', expr_alias='0', req_state='succeeded', satisfied=sat,
                          message='satisfied naturally' if sat else 'unsatisfied')], cycle_points=['1'])

    # ------------------------------------------------------------------ driver interface
    def skip_case(self, inp, raw):
        if 'unit' in inp:
            return False
        return super().skip_case(inp, raw)

    def driver_input(self, inp, raw):
        if 'unit' in inp:
            di = {k: v for k, v in inp.items() if k != 'unit'}
            di['kind'] = inp['unit']
            if inp['unit'] == 'tdelta':
                from cylc.flow.util import serialise_set
                d = self.dsm
                if inp['what'] == 'flows':
                    di['arg'] = serialise_set(set(inp['arg']))
                elif inp['what'] == 'outputs':
                    from cylc.flow.data_messages_pb2 import PbOutput
                    di['arg'] = [[lb, self.ds._text(PbOutput(label=lb, message=msg, satisfied=sat, time=1000.5))]
                                 for lb, msg, sat in inp['arg']]
                elif inp['what'] == 'prereq':
                    di['arg'] = [self.ds._text(self.prereq_msg(k, sat)) for k, sat in inp['arg']]
            return di
        if 'error' in raw:
            return {'crash': raw['error'].strip().splitlines()[-1][:300]}
        return {'kind': 'sched', 'ops': raw['ops'],
                'steps': [{'fresh': o['ds']['fresh'], 'pub': o['ds']['pub']} for o in raw['obs']]}

    def driver_obs(self, inp, raw):
        if 'unit' in inp:
            return raw
        if 'error' in raw:
            return {'crash': raw['error'][-1500:]}
        out = []
        for o in raw['obs']:
            d = o['ds']
            out.append({'ds': {k: d[k] for k in ('store', 'client', 'upd', 'ev', 'pending', 'error')},
                        'ccs': [[x['client_checksum'] for x in b['deltas']] for b in d['pub']],
                        'stop': o['stop'], 'stalled': o['stalled'], 'launch': o['launch'], 'polls': o['polls']})
        return out

    def replay_input(self, inp, driver_inp):
        if 'unit' in inp or 'crash' in driver_inp:
            return inp
        d = dict(inp)
        d['ops'] = driver_inp['ops']
        return d

    def equal(self, model_out, obs):
        if isinstance(obs, dict):
            return model_out == obs
        if not isinstance(model_out, list) or len(model_out) != len(obs):
            return False
        cur_m = cur_c = cur_s = None
        for m, o in zip(model_out, obs):
            if m.get('ccs') != o.get('ccs'):
                return False
            if o['ds']['store'] is not None:
                cur_s = o['ds']['store']
            c = o['ds']['client']
            if c == 'same':
                cur_c = cur_s
            elif c is not None:
                cur_c = c
            if m.get('client') is not None:
                cur_m = m['client']
            if cur_m != cur_c:
                return False
        return True

    def classify(self, inp, obs):
        if 'unit' in inp:
            u = inp['unit']
            if u == 'apply':
                keys = sorted({d['key'] for b in inp['batches'] for d in b})
                tags = ['reloaded' if any(d['reloaded'] for b in inp['batches'] for d in b) else 'plain',
                        'prune' if any(d['pruned'] for b in inp['batches'] for d in b) else 'noprune',
                        'wf' if 'workflow' in keys else 'elems']
                return 'apply/' + '/'.join(tags)
            if u == 'alias':
                d = inp['delta']
                if d['key'] == 'workflow':
                    return 'alias/workflow'
                ids = {e['s'].get('id', '') for e in d['added']}
                shared = any(e['s'].get('id', '') in ids for e in d['updated'])
                return f"alias/{d['key']}/{'added+updated' if shared else 'disjoint'}"
            if u == 'tstate':
                return 'tstate'
            return 'tdelta/' + inp['what']
        if isinstance(obs, dict):
            return 'crash'
        tags = [inp.get('kind', '?')]
        ops = inp.get('ops') or []
        names = {op.get('name') or op['op'] for op in ops}
        for tag, key in (('reload', 'reload'), ('window', 'window'), ('restart', 'restart'),
                         ('trigger', 'force_trigger_tasks'), ('set', 'set_prereqs_and_outputs'),
                         ('remove', 'remove_tasks')):
            if key in names:
                tags.append(tag)
        npub = sum(1 for o in obs if o['ccs'])
        tags.append('pub<10' if npub < 10 else 'pub<30' if npub < 30 else 'pub>=30')
        return '/'.join(tags)

    def neighbours(self, inp, rng):
        if 'unit' in inp:
            return []
        out = []
        ops = inp.get('ops') or []
        for cut in sorted({len(ops) // 2, max(1, len(ops) - 5)}):
            d = dict(inp)
            d['ops'] = ops[:cut]
            d['id'] = f"{inp['id']}c{cut}"
            out.append(d)
        return out


PROP = C25()
