"""C16  Integer recurrences denote the clipped arithmetic progression."""
from __future__ import annotations

import itertools
import random
import sys

from core import Prop


def pt_text(p):
    if 'abs' in p:
        return str(p['abs'])
    d = p['rel']
    return ('+P%d' % d) if d >= 0 else ('-P%d' % -d)


def form_text(f, variant=0):
    k = f['k']
    n, st = f.get('n'), f.get('step')
    a = pt_text(f['a']) if 'a' in f else None
    b = pt_text(f['b']) if 'b' in f else None
    if k == 'repStartEnd':
        return f'R{n}/{a}/{b}'
    if k == 'startIntv':
        return (f'{a}/P{st}', f'R/{a}/P{st}', f'{a}/P{st}/')[variant % 3]
    if k == 'intv':
        return f'P{st}'
    if k == 'intvEnd':
        return (f'P{st}/{b}', f'R/P{st}/{b}')[variant % 2]
    if k == 'r1Start':
        return (f'R1/{a}', f'R1/{a}/')[variant % 2]
    if k == 'repStartIntv':
        return f'R{n}/{a}/P{st}'
    if k == 'repIntvFromIcp':
        return f'R{n}//P{st}'
    if k == 'repIntvEnd':
        return f'R{n}/P{st}/{b}'
    if k == 'repIntv':
        return (f'R{n}/P{st}', f'R{n}/P{st}/')[variant % 2]
    if k == 'r1':
        return ('R1', 'R1/')[variant % 2]
    if k == 'r1End':
        return f'R1//{b}'
    raise ValueError(k)


def case_text(inp):
    t = form_text(inp['form'], inp.get('variant', 0))
    ex = inp.get('excl') or []
    if ex:
        items = [str(e['pt']) if 'pt' in e else form_text(e['seq']) for e in ex]
        sp = ' ' if inp.get('variant', 0) % 2 else ''
        t += sp + '!' + sp + ('(' + (',' + sp).join(items) + ')' if len(items) > 1 or inp.get('variant', 0) % 3 == 0 else items[0])
    return t


def A(v):
    return {'abs': v}


def R(d):
    return {'rel': d}


def forms_box(pts, steps, reps):
    out = []
    for a in pts:
        for b in pts:
            for n in reps:
                out.append({'k': 'repStartEnd', 'n': n, 'a': a, 'b': b})
        for st in steps:
            out.append({'k': 'startIntv', 'a': a, 'step': st})
            out.append({'k': 'intvEnd', 'step': st, 'b': a})
            for n in reps:
                out.append({'k': 'repStartIntv', 'n': n, 'a': a, 'step': st})
                out.append({'k': 'repIntvEnd', 'n': n, 'step': st, 'b': a})
        out.append({'k': 'r1Start', 'a': a})
        out.append({'k': 'r1End', 'b': a})
    for st in steps:
        out.append({'k': 'intv', 'step': st})
        for n in reps:
            out.append({'k': 'repIntvFromIcp', 'n': n, 'step': st})
            out.append({'k': 'repIntv', 'n': n, 'step': st})
    out.append({'k': 'r1'})
    return out


EXCLS = [
    [],
    [{'pt': 3}],
    [{'pt': 0}, {'pt': 7}, {'pt': 0}],
    [{'seq': {'k': 'intv', 'step': 3}}],
    [{'pt': 5}, {'seq': {'k': 'startIntv', 'a': R(1), 'step': 4}}],
    [{'seq': {'k': 'repStartIntv', 'n': 2, 'a': A(2), 'step': 2}}, {'pt': 6}],
]


class C16(Prop):
    id = 'C16'
    props_modules = ['CylcModel.Props.C16']
    theorems = [
        'CylcModel.C16.points_spec_partial',
        'CylcModel.C16.points_spec_stepped',
        'CylcModel.C16.built_wellformed',
        'CylcModel.C16.next_spec',
        'CylcModel.C16.prev_spec',
        'CylcModel.C16.first_spec',
        'CylcModel.C16.start_stop_spec',
        'CylcModel.C16.oneoff_outside_counterexample',
    ]
    technique = 'Lean 4 theorems (alignment arithmetic, case analysis over the 11 recurrence forms) over an executable port of IntegerSequence + exhaustive-box correspondence'
    statement_note = (
        'partial proof. Proved for all forms, contexts, exclusion lists and unbounded integers: is_valid = '
        'progression the form denotes, clipped to [icp,fcp], minus exclusions (points_spec_stepped; for one-off '
        'forms only when the point lies inside the context - the code reports it valid outside, a known finding '
        'with a counterexample theorem; points_spec_partial is the exact reading of the code). For exclusion-free '
        'stepped sequences: next (p >= start-step), prev (p <= stop+step), first (any p), start, stop are the '
        'least/greatest members (next_spec, prev_spec, first_spec, start_stop_spec). Not proved (tied by '
        'correspondence and judged only): the queries in the presence of exclusions, nearest_prev, which '
        'constructor inputs are errors')
    trusted = [
        'regex matching of the recurrence text (RECURRENCE_FORMAT_RECS) is not modelled: Form.toParsed states '
        'which groups each form yields, tied by correspondence over every textual variant',
    ]
    unmodelled = ['P0 intervals, R0 repetitions, the bare "R/Pk" spelling, nearest_prev/next recursion depth (fuel 400 vs Python 1000)']
    rule = ('exhaustive box of the 11 recurrence forms x start/end/step/reps x icp/fcp x 6 exclusion sets (quick), '
            'larger box + random large values (thorough); every point of a query window is asked for '
            'is_valid/next/prev/nearest_prev/first plus start/stop; non-trivial = distinct '
            '(form kind, start clipped, stop clipped, bounded, exclusion kinds, emptiness) class, counted per distinct input')
    workers = 16

    def setup(self):
        sys.setrecursionlimit(1200)
        from cylc.flow.cycling.integer import IntegerSequence, IntegerPoint
        self.S, self.P = IntegerSequence, IntegerPoint

    def corpus(self):
        mk = lambda form, icp, fcp, excl=(): self.mk(form, icp, fcp, list(excl), 0)  # noqa: E731
        return [
            mk({'k': 'startIntv', 'a': A(0), 'step': 3}, 2, 20),        # start clipping
            mk({'k': 'intvEnd', 'step': 3, 'b': A(18)}, 1, 20),         # count back from END
            mk({'k': 'repIntvEnd', 'n': 4, 'step': 3, 'b': A(8)}, 3, None),
            mk({'k': 'repStartEnd', 'n': 3, 'a': A(0), 'b': A(10)}, 0, None),   # Rn/a/b
            mk({'k': 'repStartEnd', 'n': 3, 'a': A(0), 'b': A(9)}, 0, None),    # uneven -> error
            mk({'k': 'repStartIntv', 'n': 5, 'a': A(0), 'step': 3}, 0, 10),     # stop clipping
            mk({'k': 'intv', 'step': 1}, 0, None, [{'seq': {'k': 'intv', 'step': 2}}]),  # excluded start, open end
            mk({'k': 'intv', 'step': 1}, 1, 10, [{'pt': 1}, {'pt': 10}]),
        ]

    def mk(self, form, icp, fcp, excl, variant):
        return {'form': form, 'excl': excl, 'icp': icp, 'fcp': fcp, 'variant': variant,
                'qs': list(range(icp - 7, (fcp if fcp is not None else icp + 12) + 8)),
                'win': [-60, 110]}

    def gen(self, tier, rng):
        pts = [A(0), A(3), A(7), R(1), R(-2)]
        if tier == 'quick':
            forms = forms_box(pts, [1, 2, 3], [1, 2, 3, 4])
            ctxs = [(0, None), (0, 6), (2, None), (2, 11), (5, 6), (5, 11)]
            v = 0
            for f in forms:
                for icp, fcp in ctxs:
                    for ex in EXCLS:
                        v += 1
                        yield self.mk(f, icp, fcp, ex, v)
            n_rand = 1500
        else:
            pts = [A(-3), A(0), A(1), A(4), A(9), R(0), R(2), R(-1), R(-5)]
            forms = forms_box(pts, [1, 2, 3, 5], [1, 2, 3, 5])
            ctxs = [(-2, None), (0, None), (0, 7), (1, 13), (3, 3), (4, 16), (6, 5)]
            v = 0
            for f in forms:
                for icp, fcp in ctxs:
                    for ex in EXCLS:
                        v += 1
                        yield self.mk(f, icp, fcp, ex, v)
            n_rand = 20000 if tier == 'thorough' else 40000
        for _ in range(n_rand):
            yield self.random_case(rng)

    def random_case(self, rng):
        def rp():
            return A(rng.randint(-5, 30)) if rng.random() < 0.6 else R(rng.randint(-9, 9))
        f = rng.choice(forms_box([rp(), rp()], [rng.randint(1, 9)], [rng.randint(1, 7)]))
        icp = rng.randint(-5, 20)
        fcp = None if rng.random() < 0.35 else icp + rng.randint(-2, 40)
        ex = []
        for _ in range(rng.choice([0, 0, 1, 2, 3])):
            if rng.random() < 0.6:
                ex.append({'pt': rng.randint(-3, 40)})
            else:
                ex.append({'seq': rng.choice(forms_box([rp()], [rng.randint(2, 6)], [rng.randint(1, 4)]))})
        return self.mk(f, icp, fcp, ex, rng.randint(0, 5))

    def impl(self, inp):
        S, P = self.S, self.P
        text = case_text(inp)
        fcp = inp['fcp']
        try:
            s = S(text, P(inp['icp']), P(fcp) if fcp is not None else None)
        except Exception:
            return {'build': 'err'}

        def q(f, *a):
            try:
                r = f(*a)
            except RecursionError:
                return 'REC'
            except Exception as exc:
                return 'ERR:' + type(exc).__name__
            return None if r is None else int(r)

        def oi(x):
            return None if x is None else int(x)
        step = s.i_step
        out = {
            'build': {'start': oi(s.p_start), 'stop': oi(s.p_stop),
                      'step': int(step) if step else None},
            'start': q(s.get_start_point), 'stop': q(s.get_stop_point), 'q': [],
        }
        for p in inp['qs']:
            pp = P(p)
            v = q(s.is_valid, pp)
            out['q'].append([bool(v) if isinstance(v, int) else v, q(s.get_next_point, pp), q(s.get_prev_point, pp),
                             q(s.get_nearest_prev_point, pp), q(s.get_first_point, pp)])
        return out

    def classify(self, inp, obs):
        if obs.get('build') == 'err':
            return inp['form']['k'] + '/error'
        b = obs['build']
        tags = [inp['form']['k']]
        if b['step'] is None:
            tags.append('oneoff')
        if b['start'] != inp['icp'] and b['start'] > inp['icp']:
            tags.append('start>icp')
        if inp['fcp'] is None:
            tags.append('open')
        elif b['stop'] is not None and b['stop'] < inp['fcp']:
            tags.append('stop<fcp')
        if b['stop'] is not None and b['stop'] < b['start']:
            tags.append('empty')
        ex = inp.get('excl') or []
        if any('pt' in e for e in ex):
            tags.append('xpt')
        if any('seq' in e for e in ex):
            tags.append('xseq')
        return '/'.join(tags)

    def neighbours(self, inp, rng):
        out = []
        for dicp in (-1, 0, 1):
            for dfcp in (-1, 0, 1):
                j = dict(inp)
                j['icp'] = inp['icp'] + dicp
                if inp['fcp'] is not None:
                    j['fcp'] = inp['fcp'] + dfcp
                out.append(self.mk(j['form'], j['icp'], j['fcp'], j['excl'], inp.get('variant', 0)))
        out.append(self.mk(inp['form'], inp['icp'], inp['fcp'], [], inp.get('variant', 0)))
        return out


PROP = C16()
