"""C19  Stop-and-restart preserves the workflow state."""
from __future__ import annotations

import copy
import sys
from pathlib import Path

sys.path.insert(0, str(Path(__file__).resolve().parents[1] / 'sched'))
from prop import SchedProp, run_workers  # noqa: E402
import gen as sgen  # noqa: E402

# command mix of the command runs: stops (both modes, and --now --now) are frequent, up to 3 restarts
CMDS = ['hold', 'release', 'hold', 'release', 'set_hold_point', 'release_hold_point', 'stop_point', 'stop_task',
        'stop_clean', 'stop_now', 'stop_clean', 'stop_now', 'stop_now_now', 'pause', 'resume']
MODES = ['REQUEST(CLEAN)', 'REQUEST(NOW)', 'REQUEST(NOW)', 'REQUEST(CLEAN)', 'REQUEST(NOW-NOW)']


FLAKY = ('BrokenBarrierError', 'Address already in use', 'TimeoutError', 'database is locked')


def run_retry(cases, workers):
    """run_workers, re-running with fewer and fewer parallel workers the cases in which the scheduler could not even
    start or stop its server threads on an overloaded machine - an infrastructure hiccup, never a behaviour of the
    code under test (if it persists the check ends as an infrastructure failure, exit 2, not as a verdict)."""
    from core import Infra
    import time

    def batch(cs, w):
        for attempt in range(3):
            try:
                return run_workers(cs, w)
            except Infra:
                # a worker process died before answering: the cases are deterministic, run the batch again
                if attempt == 2:
                    raise
                time.sleep(5)

    res = batch(cases, workers)
    for w in (max(1, workers // 2), max(1, workers // 4), 2, 1):
        again = [k for k, r in enumerate(res) if 'error' in r and any(f in r['error'] for f in FLAKY)]
        if not again:
            break
        time.sleep(3)
        for k, r in zip(again, batch([cases[k] for k in again], w)):
            res[k] = r
    left = [cases[k]['id'] for k, r in enumerate(res) if 'error' in r and any(f in r['error'] for f in FLAKY)]
    if left:
        raise Infra(f'the scheduler could not start/stop its server threads for {left[:3]} after 5 attempts (machine overloaded?)')
    return res


def n_loops(raw):
    return sum(1 for op in raw.get('ops') or [] if op['op'] == 'loop')


def project_base(raw):
    """What the differential judge reads of the uninterrupted run: launches and removals of every
    observation, and the final pool."""
    obs = raw['obs']
    return {
        'obs': [{'launch': o['launch'], 'removed': o.get('removed', [])} for o in obs],
        'last': {'pool': obs[-1]['pool'], 'stop': obs[-1]['stop'], 'stalled': obs[-1]['stalled']},
        'cut': len(raw['ops']) >= (raw.get('max_steps') or 10 ** 9),
    }


class C19(SchedProp):
    id = 'C19'
    also = ['C19R']
    props_modules = ['CylcModel.Props.C19']
    theorems = [
        'CylcModel.C19.restart_same_instances',
        'CylcModel.C19.restart_status',
        'CylcModel.C19.restart_submit_num',
        'CylcModel.C19.restart_flows',
        'CylcModel.C19.restart_prereqs',
        'CylcModel.C19.restart_tries',
        'CylcModel.C19.restart_outputs',
        'CylcModel.C19.restart_outputs_partial',
        'CylcModel.C19.restart_outputs_counterexample',
        'CylcModel.C19.restart_held',
        'CylcModel.C19.restart_held_partial',
        'CylcModel.C19.restart_held_counterexample',
        'CylcModel.C19.restart_flags',
        'CylcModel.C19.restart_hold_point',
        'CylcModel.C19.restart_stop_task',
        'CylcModel.C19.restart_abs_outputs',
        'CylcModel.C19.restart_history',
        'CylcModel.C19.restart_running',
        'CylcModel.C19.restart_stop_point',
        'CylcModel.C19.restart_tasks_to_hold',
        'CylcModel.C19.restart_tasks_to_hold_kept',
        'CylcModel.C19.restart_tasks_to_hold_partial',
        'CylcModel.C19.spawn_after_restart',
        'CylcModel.C19.successive_restarts',
        'CylcModel.C19.with_broadcasts_is_sched2',
        'CylcModel.C19.restart_broadcasts',
        'CylcModel.C19.broadcast_table_holds_store',
        'CylcModel.Sched2.restart_spec',
        'CylcModel.Sched2.inv_run',
        'CylcModel.Sched2.nodup_run',
    ]
    statement_note = (
        'partial: proof over the frozen Sched2 model, for all instance graphs and all op lists (main loops, submit results, '
        'job messages, hold / release / hold-point / stop in every mode / stop-point / stop-task / pause / resume commands '
        'and earlier restarts). restore_persist is proved field by field for every state s of every run: restart g s has the '
        'same pooled instances in the same order; status restored with preparing -> waiting; submit number restored with '
        'preparing -> one less (and the concrete runs show the re-preparation under the same number); flow numbers, '
        'prerequisite and suicide-prerequisite satisfaction, retry state restored; hold point, stop task, record of '
        'completed absolute outputs and DB history restored (any state); stop point restored unless the scheduler shut '
        'down on its own (it then forgets the stop point by design) - this one through an inductive invariant over all '
        'primitives (Inv = duplicate-free pool + live stop point equals what a restart computes), under the decidable '
        'graph hypothesis WFStop (start-up stop point = configured one; the driver checks it on every extracted graph); '
        'queued/runahead flags normalised as documented; a second restart with nothing in between changes nothing but the '
        'internal is_updated flags (successive_restarts). TWO ITEMS OF THE PROPERTY TEXT ARE FALSE ON THE CODE and are '
        'kept as def ..._full : Prop with a kernel-checked counterexample and the exact implemented law proved instead: '
        'completed outputs are reloaded only for running/failed/succeeded tasks (restart_outputs, _partial, '
        '_counterexample; finding outputs-not-restored), and the hold point is re-applied after loading the pool so that '
        'a task beyond it that had been released individually is held again and re-enters tasks_to_hold (restart_held, '
        'restart_tasks_to_hold, _partial, _counterexample; finding hold-point-reapplied). continuation_equiv: stated as '
        'def continuation_equiv_full : Prop over the model closed with a deterministic job environment (closed-loop '
        'execution in SchedLemmasC19) and NOT proved (it needs a stuttering bisimulation up to the normalisation, and it '
        'is false as stated for plans in which a retried job does not repeat an output of its first try, by the first '
        'finding); what is proved towards it: the spawn-on-demand decision after a restart equals the one before '
        '(spawn_after_restart), history / absolute outputs / holds are preserved, Inv is re-established by restart. The '
        'second sentence of the property is decided on real runs by the differential judge. BROADCASTS: the model of the generated runs is '
        'Sched2B = the frozen Sched2 paired with the broadcast store and its broadcast_states queue (Bcast, the component '
        'model of C22; Sched2.lean untouched): broadcast set / clear / expire requests between main loops, the automatic '
        'expiry and the database write of every main loop, load on restart. Proved for every state of every Sched2B run '
        '(with_broadcasts_is_sched2: its scheduler side is a Sched2 run, so all the above applies; restart_broadcasts: a '
        'stop + restart gives back the same value or absence for every (point, namespace, key), no duplicates; '
        'broadcast_table_holds_store: the table with its pending deletes and inserts written is the store item by item), '
        'by lifting the invariant Bcast.Persist of C22 through every op; hypotheses checked by the driver on every case: '
        'key paths without brackets, one item per setting dictionary (multi-item settings and value coercion are C22). '
        'NOT IN THE FROZEN MODEL and '
        'therefore neither proved nor predicted: the flow counter (single flow; the judge still compares the '
        'real flow counter before/after), xtrigger satisfaction, and the six-table DB image itself (the model restarts '
        'from the live state of the stopped scheduler).')
    technique = ('field-by-field theorems about the restart function of a Lean scheduler model + inductive invariant over op '
                 'lists + trace correspondence, a snapshot judge and a differential (interrupted vs uninterrupted) judge on '
                 'the real Scheduler')
    trusted = [
        'the pool / hold / stop-point / stop-task / absolute-output snapshots taken after every op (before the stop: the '
        'state of the stopped scheduler object; after the restart: the state of the new Scheduler after start-up)',
        'differential runs: the stub job outcomes are a function of (case seed, point, name, submit number) only, and job '
        'messages that were queued but unprocessed at shutdown are delivered again after the restart (as polling would)',
    ]
    unmodelled = SchedProp.unmodelled + [
        'restart: the model restarts from the live state of the stopped scheduler, not from a model of the six joined DB '
        'tables (tied by the trace correspondence, the DB layer itself is C21) - except for broadcasts, whose table and '
        'pending deletes / inserts are modelled (Sched2B); the flow counter and xtrigger satisfaction are not in the '
        'frozen model (single flow, no xtriggers generated; the flow counter is checked by the judge on the real traces '
        'only); broadcast values are opaque strings, one item per setting (coercion, multi-item settings: C22)',
    ]
    rule = ('three families of generated runs of the real Scheduler (integer-cycling workflows, 2-6 tasks, 1-3 recurrences, '
            'AND/OR triggers, offsets, optional/custom outputs, retries, runahead P0-P3): (1) command runs (complete and '
            'failing/noisy job outcomes) with a command mix rich in stop / stop --now / stop --now --now, holds, hold points, '
            'stop points, stop tasks, pause/resume and 1-3 restarts; in all three families bursts of 2-4 broadcast set / clear / '
            'expire requests with no main loop in between, over a small universe of cycle points (pooled cycles, the next '
            'ones, *), namespaces (tasks, root) and keys, clears and expiries aimed at what is set so that set and cancel '
            'in one database-write window share point, namespace or key (and the automatic expiry of passed cycles does '
            'the same); (2) uninterrupted base runs whose job outcomes are a '
            'function of (seed, point, name, submit number); (3) for each base run, variants stopped (both modes, '
            '--now --now too) after the k-th main loop for k spread over the whole base run (thorough: 16 positions per '
            'workflow, i.e. every iteration of runs up to 16 loops) and restarted, a third of them stopped and restarted '
            'twice; every restart is judged item by item (snapshot before the stop vs after the restart) and every variant '
            'against its base run (launched instances, final outputs); non-trivial = distinct (kind, ending, launch-count '
            'class, statuses present at a stop, number of restarts) class per distinct case')
    kinds = ('cmd', 'cmdany')
    gen_opts = {'cmds': CMDS, 'p_cmd': 0.15, 'restarts': [1, 2, 3]}
    diff_opts = {'p_suicide': 0.0}
    # bursts of broadcast set / clear / expire requests between main loops (runner policy key p_bcast)
    p_bcast = 0.12
    # (command cases, base workflows, interrupted variants per base workflow)
    sizes = {'quick': (20, 5, 5), 'thorough': (150, 28, 16)}

    def gen(self, tier, rng):
        n_cmd, n_base, n_var = self.sizes.get(tier, self.sizes['thorough'])
        if tier == 'search':
            n_cmd, n_base, n_var = 300, 40, 16
        base = rng.randrange(1 << 30)
        for k in range(n_cmd):
            c = sgen.gen_case(base + k, self.kinds[k % len(self.kinds)], self.gen_opts)
            c['policy']['p_bcast'] = self.p_bcast
            yield c
        for b in range(n_base):
            seed = base + 100000 + b
            a = sgen.gen_case(seed, 'complete', self.diff_opts)
            a['id'] = f'base{seed}'
            a['policy']['outcome_by_key'] = True
            a['policy']['max_steps'] = 700
            a['policy']['p_bcast'] = self.p_bcast
            yield a
            for j in range(n_var):
                v = copy.deepcopy(a)
                v['id'] = f'var{seed}x{j}'
                v['kind'] = 'diff'
                v['policy']['redeliver'] = True
                v['policy']['max_steps'] = 1000
                # where to stop is fixed once the length of the uninterrupted run is known (impl_batch)
                v['diff'] = {'slot': j, 'of': n_var, 'modes': [MODES[(j + b) % len(MODES)], MODES[(j + b + 1) % len(MODES)]],
                             'twice': j % 3 == 2}
                v['base'] = a
                yield v

    def translate(self):
        # Sched2B imports the broadcast component model of C22, whose configuration table is generated
        from props.c22 import PROP as c22
        c22.setup()
        return c22.translate()

    # -- paired runs -------------------------------------------------------------------------
    def impl_batch(self, inputs):
        first, seen = [], set()
        for inp in inputs:
            c = inp['base'] if 'base' in inp else inp
            if c['id'] not in seen:
                seen.add(c['id'])
                first.append(c)
        raw1 = {c['id']: r for c, r in zip(first, run_retry(first, self.workers))}
        second = []
        for inp in inputs:
            if 'base' not in inp:
                continue
            ra = raw1[inp['base']['id']]
            if 'error' in ra:
                continue
            v = {k: val for k, val in inp.items() if k != 'base'}
            if v.get('ops') is None:
                d = inp['diff']
                if d.get('stops'):
                    stops = d['stops']          # a replay: the positions recorded by the original run
                else:
                    loops = max(1, n_loops(ra))
                    k1 = 1 + (d['slot'] * loops) // d['of']
                    stops = [[k1, d['modes'][0]]]
                    if d['twice']:
                        stops.append([k1 + 2 + d['slot'] % 3, d['modes'][1]])
                v['policy'] = dict(v['policy'], stops=stops, restarts=len(stops))
            second.append(v)
        raw2 = {v['id']: r for v, r in zip(second, run_retry(second, self.workers))}
        out = []
        for inp in inputs:
            if 'base' not in inp:
                out.append(raw1[inp['id']])
                continue
            ra = raw1[inp['base']['id']]
            if 'error' in ra:
                out.append({'id': inp['id'], 'error': ra['error'], 'stage': ra.get('stage')})
                continue
            rb = dict(raw2[inp['id']])
            if 'error' not in rb:
                ra = dict(ra, max_steps=inp['base']['policy'].get('max_steps'))
                rb['base'] = project_base(ra)
                rb['base_ops'] = ra['ops']
                rb['stops'] = next((v['policy'].get('stops') for v in second if v['id'] == inp['id']), None)
                rb['cut'] = len(rb['ops']) >= inp['policy']['max_steps'] and inp.get('ops') is None
            out.append(rb)
        return out

    def driver_input(self, inp, raw):
        d = super().driver_input(inp, raw)
        if 'base' in raw:
            d['base'] = raw['base']
            d['base_ops'] = raw['base_ops']
            d['stops'] = raw.get('stops')
            d['cut'] = bool(raw.get('cut'))
        return d

    def _replay_input(self, inp, driver_inp):
        d = dict(inp)
        if 'base' in inp and inp.get('ops') is None:
            # a pair of runs is replayed by running both seeded adaptive schedules again, with the stops at the
            # recorded positions: deterministic on the same tree, and a fair schedule on another tree (an op list
            # recorded on one tree carries no job messages for what another tree launches)
            d['diff'] = dict(inp['diff'], stops=driver_inp.get('stops'))
            return d
        d['ops'] = driver_inp['ops']
        if 'base' in inp and 'base_ops' in driver_inp:
            d['base'] = dict(inp['base'], ops=driver_inp['base_ops'])
        return d

    def classify(self, inp, obs):
        base = super().classify(inp, obs)
        if isinstance(obs, dict):
            return base
        # statuses present at the stops that were followed by a restart (observation k+1 follows op k: the
        # number of restarts is the number of times an observation with a stop reason is followed by one without)
        sts, n = set(), 0
        for b, a in zip(obs, obs[1:]):
            if b['stop'] is not None and a['stop'] is None:
                n += 1
                sts |= {t['st'] for t in b['pool']}
        tags = [base, f'restarts={n}']
        if sts:
            tags.append('at-stop:' + ','.join(sorted(s[:5] for s in sts)))
        return '/'.join(tags)


PROP = C19()
