"""C19  Stop-and-restart preserves the workflow state."""
from __future__ import annotations

import copy
import sys
from pathlib import Path

sys.path.insert(0, str(Path(__file__).resolve().parents[1] / 'sched'))
from prop import SchedProp, run_workers  # noqa: E402
import gen as sgen  # noqa: E402

# command mix of the command runs: stops (both modes, and --now --now) are frequent, up to 3 restarts
CMDS = ['hold', 'release', 'hold', 'release', 'set_hold_point', 'release_hold_point', 'stop_point', 'stop_task',
        'stop_clean', 'stop_now', 'stop_clean', 'stop_now', 'stop_now_now', 'pause', 'resume']
MODES = ['REQUEST(CLEAN)', 'REQUEST(NOW)', 'REQUEST(NOW)', 'REQUEST(CLEAN)', 'REQUEST(NOW-NOW)']


def n_loops(raw):
    return sum(1 for op in raw.get('ops') or [] if op['op'] == 'loop')


def project_base(raw):
    """What the differential judge reads of the uninterrupted run: launches and removals of every
    observation, and the final pool."""
    obs = raw['obs']
    return {
        'obs': [{'launch': o['launch'], 'removed': o.get('removed', [])} for o in obs],
        'last': {'pool': obs[-1]['pool'], 'stop': obs[-1]['stop'], 'stalled': obs[-1]['stalled']},
        'cut': len(raw['ops']) >= (raw.get('max_steps') or 10 ** 9),
    }


class C19(SchedProp):
    id = 'C19'
    props_modules = ['CylcModel.Props.C19']
    theorems: list = []
    statement_note = ''
    technique = ('field-by-field theorems about the restart function of a Lean scheduler model + inductive invariant over op '
                 'lists + trace correspondence, a snapshot judge and a differential (interrupted vs uninterrupted) judge on '
                 'the real Scheduler')
    trusted = [
        'the pool / hold / stop-point / stop-task / absolute-output snapshots taken after every op (before the stop: the '
        'state of the stopped scheduler object; after the restart: the state of the new Scheduler after start-up)',
        'differential runs: the stub job outcomes are a function of (case seed, point, name, submit number) only, and job '
        'messages that were queued but unprocessed at shutdown are delivered again after the restart (as polling would)',
    ]
    unmodelled = SchedProp.unmodelled + [
        'restart: the model restarts from the live state of the stopped scheduler, not from a model of the six joined DB '
        'tables (tied by the trace correspondence, the DB layer itself is C21); broadcasts, the flow counter and '
        'xtrigger satisfaction are not in the frozen model (single flow, no broadcasts / xtriggers generated; the flow '
        'counter is checked by the judge on the real traces only)',
    ]
    rule = ''
    kinds = ('cmd', 'cmdany')
    gen_opts = {'cmds': CMDS, 'p_cmd': 0.15, 'restarts': [1, 2, 3]}
    diff_opts = {'p_suicide': 0.0}
    # (command cases, base workflows, interrupted variants per base workflow)
    sizes = {'quick': (20, 5, 5), 'thorough': (150, 28, 16)}

    def gen(self, tier, rng):
        n_cmd, n_base, n_var = self.sizes.get(tier, self.sizes['thorough'])
        if tier == 'search':
            n_cmd, n_base, n_var = 300, 40, 16
        base = rng.randrange(1 << 30)
        for k in range(n_cmd):
            yield sgen.gen_case(base + k, self.kinds[k % len(self.kinds)], self.gen_opts)
        for b in range(n_base):
            seed = base + 100000 + b
            a = sgen.gen_case(seed, 'complete', self.diff_opts)
            a['id'] = f'base{seed}'
            a['policy']['outcome_by_key'] = True
            a['policy']['max_steps'] = 700
            yield a
            for j in range(n_var):
                v = copy.deepcopy(a)
                v['id'] = f'var{seed}x{j}'
                v['kind'] = 'diff'
                v['policy']['redeliver'] = True
                v['policy']['max_steps'] = 1000
                # where to stop is fixed once the length of the uninterrupted run is known (impl_batch)
                v['diff'] = {'slot': j, 'of': n_var, 'modes': [MODES[(j + b) % len(MODES)], MODES[(j + b + 1) % len(MODES)]],
                             'twice': j % 3 == 2}
                v['base'] = a
                yield v

    # -- paired runs -------------------------------------------------------------------------
    def impl_batch(self, inputs):
        first, seen = [], set()
        for inp in inputs:
            c = inp['base'] if 'base' in inp else inp
            if c['id'] not in seen:
                seen.add(c['id'])
                first.append(c)
        raw1 = {c['id']: r for c, r in zip(first, run_workers(first, self.workers))}
        second = []
        for inp in inputs:
            if 'base' not in inp:
                continue
            ra = raw1[inp['base']['id']]
            if 'error' in ra:
                continue
            v = {k: val for k, val in inp.items() if k != 'base'}
            if v.get('ops') is None:
                d = inp['diff']
                loops = max(1, n_loops(ra))
                k1 = 1 + (d['slot'] * loops) // d['of']
                stops = [[k1, d['modes'][0]]]
                if d['twice']:
                    stops.append([k1 + 2 + d['slot'] % 3, d['modes'][1]])
                v['policy'] = dict(v['policy'], stops=stops, restarts=len(stops))
            second.append(v)
        raw2 = {v['id']: r for v, r in zip(second, run_workers(second, self.workers))}
        out = []
        for inp in inputs:
            if 'base' not in inp:
                out.append(raw1[inp['id']])
                continue
            ra = raw1[inp['base']['id']]
            if 'error' in ra:
                out.append({'id': inp['id'], 'error': ra['error'], 'stage': ra.get('stage')})
                continue
            rb = dict(raw2[inp['id']])
            if 'error' not in rb:
                ra = dict(ra, max_steps=inp['base']['policy'].get('max_steps'))
                rb['base'] = project_base(ra)
                rb['base_ops'] = ra['ops']
                rb['cut'] = len(rb['ops']) >= inp['policy']['max_steps'] and inp.get('ops') is None
            out.append(rb)
        return out

    def driver_input(self, inp, raw):
        d = super().driver_input(inp, raw)
        if 'base' in raw:
            d['base'] = raw['base']
            d['base_ops'] = raw['base_ops']
            d['cut'] = bool(raw.get('cut'))
        return d

    def _replay_input(self, inp, driver_inp):
        d = dict(inp)
        d['ops'] = driver_inp['ops']
        if 'base' in inp and 'base_ops' in driver_inp:
            d['base'] = dict(inp['base'], ops=driver_inp['base_ops'])
        return d

    def classify(self, inp, obs):
        base = super().classify(inp, obs)
        if isinstance(obs, dict):
            return base
        return base


PROP = C19()
