"""C03  No premature shutdown, no false stall, bounded response."""
from __future__ import annotations

import sys
from pathlib import Path

sys.path.insert(0, str(Path(__file__).resolve().parents[1] / 'sched'))
from prop import SchedProp  # noqa: E402


class C03(SchedProp):
    id = 'C03'
    also = ['C03Q']
    props_modules = ['CylcModel.Props.C03']
    theorems = [
        'CylcModel.C03.shutdown_sound',
        'CylcModel.C03.auto_shutdown_only_if_ok',
        'CylcModel.C03.is_stalled_iff',
        'CylcModel.C03.stall_sound',
        'CylcModel.C03.bounded_response',
        'CylcModel.C03.stall_sound_full_counterexample',
    ]
    statement_note = (
        'proof over the Sched model v1, for every instance graph, every state (reachable or not) and every operation: '
        '(a) shutdown_sound - the stop flag is raised only by a main loop, with reason AUTOMATIC, and the pool it stops in '
        '(= the pool after compute_runahead/release_runahead_tasks on which check_auto_shutdown decided) has no '
        'preparing/submitted/running proxy, no released waiting proxy, no finished-incomplete proxy and no proxy within the '
        'stop point with an unsatisfied prerequisite waiting on an output within the stop point; (b) stall_sound - the stall '
        'flag is raised only by a main loop and only when TaskPool.is_stalled holds of the pool at the decision point or of '
        'the pool the loop ends in, and is_stalled is exactly: no active job (so no job message can arrive), no released '
        'waiting proxy with satisfied prerequisites, and some proxy incomplete or partially satisfied within the stop point; '
        '(c) bounded_response - a proxy that is waiting, not held, with all prerequisites satisfied and released or within '
        'the limit computed by this loop is launched under its next submit number by this very main loop (the one-iteration '
        'bound implies "never left unsubmitted indefinitely"). Partial with respect to the property text: Sched v1 has no '
        'pause, no holds, no xtriggers other than zero-delay retry timers, no queue limits, no stop other than the automatic '
        'one; "nothing can progress without intervention" is delivered as the pool condition above, not as a fixpoint '
        'theorem of the main loop: a proxy that is still flagged runahead-limited although its point is within the limit '
        '(spawned by the release step of the same loop) is not counted as able to progress by is_stalled - the judge does '
        'count it, and it fires on the unchanged tree: recorded finding stall-runahead-pending (about 12% of generated runs), '
        'with the model-side witness stall_sound_full_counterexample (def stall_sound_full is the stronger reading, proved '
        'false on a reachable state) and the fix findings/C03-fix-1.diff')
    technique = ('case analysis of the main loop of a Lean scheduler model (frame lemmas for stop/launched/stalled, '
                 'tracking one proxy through release, queue sweep and job submission) + trace correspondence with the real Scheduler')
    trusted = ['the pool snapshot taken by the harness at the moment TaskPool.is_stalled returns True (runner '
               '_instrument_pool) and the prerequisite expressions of the extracted instance graph, which the judge '
               're-evaluates over the atom flags reported by the real proxies']
    rule = ('generated integer-cycling workflows with required/optional outputs, retries, suicide triggers, stop points and '
            'start points; outcome policies with failures, missing custom outputs, submit failures and out-of-order '
            'messages (stalls, incomplete tasks) and complete ones (automatic shutdown); every automatic shutdown, every '
            'rise of the stall flag and every main loop (ready tasks must be launched) of every run is judged; '
            'non-trivial = distinct (kind, ending, launch-count class, polls, stall/shutdown) class per distinct case')
    gen_opts = {'p_stop': 0.3}

    FLOW = '''[scheduler]
    allow implicit tasks = True
[scheduling]
    cycling mode = integer
    initial cycle point = 1
    final cycle point = %d
    runahead limit = P1
%s    [[graph]]
        P1 = """
            %s
        """
[runtime]
    [[root]]
        [[[simulation]]]
            default run length = PT0S
'''

    @classmethod
    def make_case(cls, cid, graph, ol, fcp=1, extra=''):
        ops = []
        for o in ol:
            if o == 'L':
                ops.append({'op': 'loop'})
            elif o[0] == 'S':
                ops.append({'op': 'subres', 'task': o[1], 'ok': o[2], 'sn': o[3]})
            else:
                ops.append({'op': 'msg', 'task': o[1], 'msg': o[2], 'sn': o[3],
                            'sev': 'CRITICAL' if o[2] == 'failed' else 'INFO'})
        return {'id': cid, 'flow': cls.FLOW % (fcp, extra, graph), 'seed': 0, 'opts': {}, 'policy': {}, 'ops': ops,
                'kind': 'corpus'}

    def corpus(self):
        def job(t, final='succeeded'):
            return [('S', t, True, 1), ('M', t, 'started', 1), ('M', t, final, 1)]
        return [
            # a required-success task fails: retained incomplete, genuine stall
            self.make_case('c03-genuine-stall', 'a => b', ['L'] + job('1/a', 'failed') + ['L', 'L', 'L']),
            # everything succeeds: automatic shutdown, no stall
            self.make_case('c03-clean-shutdown', 'a => b', ['L'] + job('1/a') + ['L', 'L'] + job('1/b') + ['L', 'L', 'L']),
            # stop point before the final point: shutdown with runahead-limited tasks beyond it
            self.make_case('c03-stop-point', 'a[-P1] => a', ['L'] + job('1/a') + ['L', 'L'] + job('2/a') + ['L', 'L', 'L'],
                           fcp=4, extra='    stop after cycle point = 2\n'),
        ]

    def classify(self, inp, obs):
        base = super().classify(inp, obs)
        if base == 'crash':
            return base
        tags = [base]
        if any(o.get('stall_at') for o in obs):
            tags.append('stall-event')
        if sum(1 for a, b in zip(obs, obs[1:]) if b['stalled'] and not a['stalled']) > 1:
            tags.append('restall')
        return '/'.join(tags)


PROP = C03()
