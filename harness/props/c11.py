"""C11  Completion: the completion expression and its evaluation (semantics part).

Also holds what C12 shares with it: the table translator, the task-definition / expression
generators and the adapter helpers (c12.py imports them from here).
"""
from __future__ import annotations

import itertools
import random
from types import SimpleNamespace

from core import Prop

STD = ('expired', 'submitted', 'submit-failed', 'started', 'succeeded', 'failed')

# custom output names (all accepted by TaskOutputValidator)
PLAIN = ['x', 'y', 'z', 'w', 'a1', 'out_2', 'B']
HYPHEN = ['x-y', 'a-b-c', 'file-1']
COLLIDE = [('x-y', 'x_y'), ('a-b', 'a_b'), ('-x', '_x'), ('submit_failed',)]
NONIDENT = ['1x', '1', 'in', 'not', 'None', 'True', 'is', 'lambda', '42', '0', 'if']
CLASH = ['expr']


def compvar(t):
    return t.replace('-', '_')


def msg_of(trigger):
    return trigger if trigger in STD else 'msg ' + trigger


# ---------------------------------------------------------------------------
# expression trees and their text

def A(n):
    return {'a': n}


def AND(l, r):
    return {'and': [l, r]}


def OR(l, r):
    return {'or': [l, r]}


def tree_names(t):
    if t is None:
        return []
    if 'a' in t:
        return [t['a']]
    if 'not' in t:
        return tree_names(t['not'])
    if 'c' in t:
        return []
    k = 'and' if 'and' in t else 'or'
    return tree_names(t[k][0]) + tree_names(t[k][1])


def tree_positive(t):
    """a valid completion expression: names, and, or"""
    if t is None or 'not' in t or 'c' in t:
        return False
    if 'a' in t:
        return True
    k = 'and' if 'and' in t else 'or'
    return tree_positive(t[k][0]) and tree_positive(t[k][1])


def tree_eval(t, sigma):
    if 'a' in t:
        return sigma(t['a'])
    if 'and' in t:
        return tree_eval(t['and'][0], sigma) and tree_eval(t['and'][1], sigma)
    if 'or' in t:
        return tree_eval(t['or'][0], sigma) or tree_eval(t['or'][1], sigma)
    raise ValueError(t)


def render(t, variant=0, top=True, parent=None, rng=None):
    """Python text of a tree.  variant 0: minimal parentheses (and binds tighter than or);
    1: every binary node parenthesised; 2: redundant parentheses and blanks at random (needs rng);
    3: no blank next to parentheses."""
    if 'a' in t:
        s = t['a']
        if variant == 2 and rng.random() < 0.15:
            s = '(' + s + ')'
        return s
    if 'c' in t:
        return t['c']
    if 'not' in t:
        return 'not ' + render(t['not'], variant, False, 'not', rng)
    k = 'and' if 'and' in t else 'or'
    l, r = t[k]
    sp = ' '
    if variant == 2 and rng.random() < 0.3:
        sp = '  '
    ls, rs = render(l, variant, False, (k, 'l'), rng), render(r, variant, False, (k, 'r'), rng)
    s = ls + sp + k + sp + rs
    need = False
    if parent is not None:
        if parent == 'not':
            need = True
        else:
            pk, side = parent
            # or under and needs parentheses; a right operand of the same operator keeps its grouping
            need = (k == 'or' and pk == 'and') or (pk == k and side == 'r')
    if variant == 1 and not top:
        need = True
    if variant == 2 and rng.random() < 0.25:
        need = True
    if need:
        s = '(' + s + ')'
    if variant == 3:
        s = s.replace(' (', '(').replace(') ', ')')
    return s


def random_tree(rng, names, leaves):
    if leaves <= 1:
        return A(rng.choice(names))
    k = rng.randint(1, leaves - 1)
    l, r = random_tree(rng, names, k), random_tree(rng, names, leaves - k)
    return AND(l, r) if rng.random() < 0.5 else OR(l, r)


def all_trees(names, leaves):
    """every and/or tree with exactly `leaves` leaves over `names`"""
    if leaves == 1:
        return [A(n) for n in names]
    out = []
    for k in range(1, leaves):
        for l in all_trees(names, k):
            for r in all_trees(names, leaves - k):
                out.append(AND(l, r))
                out.append(OR(l, r))
    return out


def user(tree, variant=0, rng=None):
    return {'text': render(tree, variant, rng=rng), 'tree': tree}


BAD_TEXTS = [
    ('not x', {'not': A('x')}), ('succeeded and', None), ('(succeeded', None), ('succeeded x', None),
    ('succeeded + x', None), ('succeeded or True', OR(A('succeeded'), {'c': 'True'})), ('True', {'c': 'True'}),
    ('1', {'c': '1'}), ('0 or 1', OR({'c': '0'}, {'c': '1'})), ('succeeded or not failed', OR(A('succeeded'), {'not': A('failed')})),
    ('succeeded)', None), ('()', {'c': '()'}), ('(()) or ()', OR({'c': '()'}, {'c': '()'})), ('succeeded or ()', OR(A('succeeded'), {'c': '()'})), ('succeeded or 1x', None), ('succeeded | x', None), ('succeeded or nosuch', OR(A('succeeded'), A('nosuch'))),
    ('succeeded or (expired and nosuch)', OR(A('succeeded'), AND(A('expired'), A('nosuch')))),
    ('succeeded or finished', OR(A('succeeded'), A('finished'))), ('succeed or failed', OR(A('succeed'), A('failed'))),
    ('succeeded or submit-failed', None), ('succeeded or x-y', None), ('succeeded, x', None), ('succeeded if x else failed', None),
    ('x == succeeded', None), ('not succeeded or x', OR({'not': A('succeeded')}, A('x'))),
    ('x and not (succeeded and failed)', AND(A('x'), {'not': AND(A('succeeded'), A('failed'))})), ('succeeded or 01', None), ('None or succeeded', OR({'c': 'None'}, A('succeeded'))),
]


# ---------------------------------------------------------------------------
# table translator (shared by C11 and C12: both write the same file)

def lean_str(s):
    return '"' + s.replace('\\', '\\\\').replace('"', '\\"') + '"'


def lean_strs(l):
    return '[' + ', '.join(lean_str(s) for s in l) + ']'


def lean_ob(b):
    return 'none' if b is None else ('some true' if b else 'some false')


class Real:
    """the pieces of cylc-flow both checks drive"""

    def __init__(self):
        import cylc.flow.flags
        from cylc.flow.config import WorkflowConfig
        from cylc.flow.cycling.integer import IntegerPoint
        from cylc.flow.exceptions import InvalidCompletionExpression, WorkflowConfigError
        from cylc.flow.run_modes import skip
        from cylc.flow.taskdef import TaskDef
        from cylc.flow import task_outputs
        self.flags = cylc.flow.flags
        self.WorkflowConfig, self.P, self.TaskDef = WorkflowConfig, IntegerPoint, TaskDef
        self.ICE, self.WCE = InvalidCompletionExpression, WorkflowConfigError
        self.skip, self.to = skip, task_outputs

    def tdef(self, std, custom, completion, tweak=True):
        """std: {trigger: R}; custom: [[trigger, message, R]]; R = True required / False optional / None"""
        t = self.TaskDef('foo', {'completion': completion}, self.P(1), self.P(1))
        for trig, msg, _ in custom:
            t.add_output(trig, msg)
        for trig in STD:
            if std.get(trig) is not None:
                t.set_required_output(trig, std[trig])
        for trig, _, r in custom:
            if r is not None:
                t.set_required_output(trig, r)
        if tweak:
            t.tweak_outputs()
        return t

    def config(self, tdef):
        cfg = self.WorkflowConfig.__new__(self.WorkflowConfig)
        cfg.taskdefs = {'foo': tdef}
        cfg.pcfg = SimpleNamespace(sparse={}, dense={'runtime': {'foo': {}}})
        cfg.experimental = SimpleNamespace(expire_triggers=False)
        return cfg

    def configure(self, tdef):
        """-> 'ok' | 'reject' (WorkflowConfigError) | 'crash:<Exception>'"""
        try:
            self.config(tdef)._set_completion_expressions()
        except self.WCE:
            return 'reject'
        except Exception as exc:
            return 'crash:' + type(exc).__name__
        return 'ok'

    def check(self, tdef, text):
        try:
            self.config(tdef)._check_completion_expression('foo', text, False)
        except self.WCE:
            return 'reject'
        except Exception as exc:
            return 'crash:' + type(exc).__name__
        return 'accept'


_REAL = None


def get_real():
    """module-level (the Prop object is pickled for the worker pool, modules cannot be)"""
    global _REAL
    if _REAL is None:
        _REAL = Real()
    return _REAL


def translate_tables(real):
    import inspect
    import keyword
    to = real.to
    ev = to.CompletionEvaluator
    visitor = [c.cell_contents for c in (ev.__closure__ or ()) if hasattr(c.cell_contents, '_whitelist')]
    if len(visitor) != 1:
        raise ValueError('CompletionEvaluator: whitelist not found in the closure')
    whitelist = sorted(t.__name__ for t in visitor[0]._whitelist)
    clash = [n for n, p in inspect.signature(ev).parameters.items()
             if p.kind in (p.POSITIONAL_OR_KEYWORD, p.KEYWORD_ONLY)]
    for n in clash:   # confirm by running it
        try:
            ev('x', **{n: True, 'x': True})
            raise ValueError(f'evaluator parameter {n} did not clash')
        except TypeError:
            pass
    none6 = dict.fromkeys(STD)
    rej_coll = real.configure(real.tdef(none6, [['x-y', 'm1', True], ['x_y', 'm2', False]], None)) == 'reject'
    rej_unev = real.configure(real.tdef(none6, [['1x', 'm1', True]], None)) == 'reject'

    # consistency table: one witness task per cell, cross-checked on a second output of the same kind
    def cell(g, e, trig):
        req = None if g is None else (not g)
        cv = compvar(trig)
        text = {True: f'succeeded or {cv}', False: f'succeeded and {cv}', None: 'succeeded'}[e]
        std = dict(none6)
        custom = []
        if trig in STD:
            std[trig] = req
        else:
            custom = [[trig, 'm ' + trig, req]]
        t = real.tdef(std, custom, text, tweak=False)
        got = to.get_optional_outputs(text, t.outputs)
        if got.get(cv) is not e:
            raise ValueError(f'witness for cell {(g, e, trig)} has expression optionality {got.get(cv)}')
        r = real.check(t, text)
        if r not in ('accept', 'reject'):
            raise ValueError(f'cell {(g, e, trig)}: {r}')
        return r == 'accept'
    rows = []
    for g in (True, False, None):
        for e in (True, False, None):
            for pre in (False, True):
                a, b = [cell(g, e, t) for t in (('expired', 'submit-failed') if pre else ('x', 'started'))]
                if a != b:
                    raise ValueError(f'the decision for {(g, e, pre)} depends on the output name')
                rows.append(f'  (({lean_ob(g)}, {lean_ob(e)}, {"true" if pre else "false"}), {"true" if a else "false"})')
    src = f'''-- GENERATED by harness/props/c11.py translate() from the live cylc-flow source. Do not edit.
namespace CylcModel.Generated.Outputs

/-- cylc.flow.task_outputs.SORT_ORDERS (the standard outputs of every TaskDef, in order) -/
def stdOutputs : List String := {lean_strs(to.SORT_ORDERS)}

/-- cylc.flow.task_outputs.FINAL_OUTPUT_COMPLETION -/
def finalCompletion : String := {lean_str(to.FINAL_OUTPUT_COMPLETION)}

/-- AST node classes whitelisted by CompletionEvaluator -/
def completionWhitelist : List String := {lean_strs(whitelist)}

/-- keyword.kwlist of the running Python -/
def pyKeywords : List String := {lean_strs(keyword.kwlist)}

/-- variable names the evaluator cannot be given (probed: CompletionEvaluator('x', **{{name: True}}) raises TypeError) -/
def evalKwClash : List String := {lean_strs(clash)}

/-- WorkflowConfig._set_completion_expressions rejects two outputs with the same completion variable (probed) -/
def cfgRejectsCollision : Bool := {"true" if rej_coll else "false"}

/-- ... rejects a default expression that cannot be evaluated (required output that is no Python identifier) (probed) -/
def cfgRejectsUnevaluable : Bool := {"true" if rej_unev else "false"}

/-- accept/reject decision of WorkflowConfig._check_completion_expression per
(graph_opt, expr_opt, is_pre_exec_output), tabulated by running the real function -/
def consistencyTable : List ((Option Bool × Option Bool × Bool) × Bool) := [
{(","+chr(10)).join(rows)}
]

end CylcModel.Generated.Outputs
'''
    return {'OutputsTables.lean': src}


# ---------------------------------------------------------------------------
# task-definition generators

def mk(std, custom, usr=None, mode='tdef'):
    return {'std': {k: std.get(k) for k in STD}, 'custom': [[t, msg_of(t), r] for t, r in custom],
            'user': usr, 'mode': mode}


def random_custom(rng, kmax=4, special=0.25):
    """[(trigger, R)] with distinct triggers (a colliding pair may add one more than asked for)"""
    k = rng.choice([0, 1, 1, 2, 2, 3, kmax])
    names = []
    while len(names) < k:
        u = rng.random()
        if u < special * 0.4:
            names += list(rng.choice(COLLIDE))
        elif u < special * 0.8:
            names.append(rng.choice(NONIDENT))
        elif u < special:
            names.append(rng.choice(CLASH))
        elif u < special + 0.15:
            names.append(rng.choice(HYPHEN))
        else:
            names.append(rng.choice(PLAIN))
        names = list(dict.fromkeys(names))
    names = names[:kmax + 1]
    rng.shuffle(names)
    return [(n, rng.choice([True, True, False, None])) for n in names]


def random_std(rng):
    w = {'expired': [None, None, False, True], 'submitted': [None, None, True, False],
         'submit-failed': [None, None, False, True], 'started': [None, None, True, False],
         'succeeded': [None, True, True, False], 'failed': [None, None, False, True]}
    return {k: rng.choice(v) for k, v in w.items()}


def classify_semantic(tree, names):
    """{name: True optional / False required / None unreferenced} by the single maximal assignment"""
    used = set(tree_names(tree))
    out = {}
    for n in names:
        if n not in used:
            out[n] = None
        else:
            out[n] = bool(tree_eval(tree, lambda v: v != n and v not in ('expired', 'submit_failed')))
    return out


def consistent_flags(rng, tree, custom_names, noise=0.1):
    """graph declarations that the validation accepts for this expression (mostly)"""
    trigs = list(STD) + list(custom_names)
    cls = classify_semantic(tree, [compvar(t) for t in trigs])
    flags = {}
    for t in trigs:
        c = cls[compvar(t)]
        pre = compvar(t) in ('expired', 'submit_failed')
        if c is None:
            opts = [None, None] + ([] if pre else [False])
        elif c is True:
            opts = [None, False] + ([True] if pre else [])
        else:
            opts = [None, True]
        flags[t] = rng.choice(opts)
        if rng.random() < noise:
            flags[t] = rng.choice([None, True, False])
    return flags


class C11(Prop):
    id = 'C11'
    also = ['C11S', 'C11R']   # scheduler-level half (pool membership after finish), its own model run
    props_modules = ['CylcModel.Props.C11']
    theorems = [
        'CylcModel.C11.default_expr_sem',
        'CylcModel.C11.tweak_reachable',
        'CylcModel.C11.complete_default_sem_partial',
        'CylcModel.C11.complete_default_sem_counterexample',
        'CylcModel.C11.complete_mono',
        'CylcModel.C11.configured_default_sem',
        'CylcModel.C11.final_completion_sem',
    ]
    statement_note = (
        'partial: the completion-expression semantics of C11 (the pool-membership half, remove_if_complete, is not part '
        'of this check). Proved for every task definition and every set of completed outputs: the default expression is '
        'true exactly when all required outputs are complete (and succeeded, if success is optional), or failure / '
        'submit-failure / expiry is tolerated and happened (default_expr_sem, over unbounded output lists); is_complete of '
        'a TaskOutputs built from the task definition equals that specification when completion variables are collision '
        'free, required outputs are Python names and no output is called like an evaluator parameter '
        '(complete_default_sem_partial); the unrestricted statement is false on the current code '
        '(complete_default_sem_counterexample: outputs x-y / x_y); configured_default_sem is the unrestricted statement for '
        'task definitions accepted by _set_completion_expressions and holds once the probed validation flags are true '
        '(findings/C11-fix-1.diff, C11-fix-2.diff). User expressions: is_complete = truth of the expression by '
        'definition of the model (parser tied by correspondence, not proved).')
    technique = 'structural induction over output lists / expressions + exhaustive-subset correspondence'
    trusted = [
        'Python tokenising/parsing of completion expressions (ast.parse, and/or precedence, keyword list) is modelled by a '
        'hand-written parser (Outputs.parsePy) for the token language names/and/or/parentheses/constants; tied by '
        'correspondence over rendered text variants, not proved',
        'WorkflowConfig._set_completion_expressions is driven on a bare WorkflowConfig object holding one real TaskDef '
        '(no flow.cylc parsing)',
    ]
    unmodelled = [
        'TaskPool.remove_if_complete / pool membership (scheduler part of C11)',
        'non-ASCII identifiers, numeric literals other than plain decimals, comments and line continuations in expressions',
        'Cylc-7 compatibility mode',
    ]
    rule = ('all 3^6 declarations of the six standard outputs x 6 custom-output configurations (default expression), '
            'random task definitions with up to 4 custom outputs drawn from plain / hyphenated / colliding / non-identifier / '
            'evaluator-parameter names, user expressions (random and/or trees rendered in 4 text variants, with graph '
            'declarations steered to be accepted) and invalid texts, TaskOutputs(text) objects; every case evaluates '
            'is_complete on ALL subsets of its outputs; class = mode / default-expression shape / name kind')
    workers = 16

    def setup(self):
        get_real()

    def translate(self):
        return translate_tables(get_real())

    def corpus(self):
        none6 = {}
        return [
            mk(none6, []),
            mk(none6, [('x', True)]),
            mk({'succeeded': False}, [('x', True)]),
            mk({'succeeded': False, 'submit-failed': False, 'expired': False}, [('x', True), ('y', False)]),
            mk({'succeeded': True, 'submitted': False}, []),
            mk({'failed': True}, []),
            mk(none6, [('x', True)], user(AND(A('succeeded'), A('x')))),
            mk({'succeeded': False}, [('x', False), ('y', False)],
               user(OR(AND(A('succeeded'), OR(A('x'), A('y'))), A('failed')))),
            mk(none6, [], {'text': '', 'tree': None}, 'bare'),
            mk(none6, [('x', None)], user(OR(A('x'), A('succeeded'))), 'bare'),
        ]

    def gen(self, tier, rng):
        quick = tier == 'quick'
        # (1) every declaration of the standard outputs x custom configurations
        customs = [[], [('x', True)], [('y', False)], [('x', True), ('y', False)], [('a-b-c', True), ('z', True)],
                   [('x', None)]]
        for flags in itertools.product([None, True, False], repeat=6):
            std = dict(zip(STD, flags))
            for cu in (customs if not quick else customs[:4]):
                yield mk(std, cu)
        # (2) random definitions incl. special names
        for _ in range(600 if quick else 12000):
            yield mk(random_std(rng), random_custom(rng, 3 if quick else 5))
        # (3) user expressions
        for _ in range(600 if quick else 12000):
            yield self.user_case(rng)
        # (4) invalid texts and TaskOutputs(text)
        for text, tree in BAD_TEXTS:
            yield mk({}, [('x', None)], {'text': text, 'tree': tree})
            yield mk({'succeeded': False}, [('x', False), ('x-y', None)], {'text': text, 'tree': tree}, 'bare')
        for _ in range(60 if quick else 1500):
            cu = random_custom(rng, 3, special=0.1)
            names = [compvar(t) for t in list(STD) + [c[0] for c in cu]]
            u = None if rng.random() < 0.2 else user(random_tree(rng, names, rng.randint(1, 6)), rng.randint(0, 3), rng)
            yield mk({}, cu, u or {'text': '', 'tree': None}, 'bare')

    def user_case(self, rng):
        cu = random_custom(rng, 3, special=0.12)
        cnames = [c[0] for c in cu]
        pool = ['succeeded', 'succeeded', 'failed', 'expired', 'submit_failed', 'started', 'submitted'] + \
               [compvar(c) for c in cnames] * 2
        tree = random_tree(rng, pool, rng.choice([1, 2, 2, 3, 3, 4, 5, 7]))
        flags = consistent_flags(rng, tree, cnames)
        return mk({t: flags[t] for t in STD}, [(c, flags[c]) for c in cnames], user(tree, rng.randint(0, 3), rng))

    # -- adapter ---------------------------------------------------------------
    def impl(self, inp):
        real = get_real()
        to = real.to
        usr = inp['user']
        text = usr['text'] if usr else None
        outs = [[t, t] for t in STD] + [[c[0], c[1]] for c in inp['custom']]
        if inp['mode'] == 'bare':
            def fresh():
                o = to.TaskOutputs(text or '')
                for trig, msg in outs:
                    o.add(trig, msg)
                return o
            expr = text or ''
        else:
            tdef = real.tdef(inp['std'], inp['custom'], text or None)
            r = real.configure(tdef)
            if r != 'ok':
                return {'cfg': 'reject', 'detail': r}
            expr = tdef.rtconfig['completion']

            def fresh():
                return to.TaskOutputs(tdef)
            got = [[t, m] for t, (m, _) in tdef.outputs.items()]
            if got != outs:
                return {'cfg': 'ok', 'expr': expr, 'complete': 'order of tdef.outputs differs: %r' % (got,)}
        msgs = [m for _, m in outs]
        n = len(msgs)
        res = []
        for k in range(1 << n):
            o = fresh()
            for j in range(n):
                if k >> j & 1:
                    o.set_message_complete(msgs[j])
            try:
                v = o.is_complete()
                res.append('T' if v is True else 'F' if v is False else 'X')
            except NameError:
                res.append('N')
            except (real.ICE, SyntaxError):
                res.append('I')
            except TypeError:
                res.append('Y')
            except Exception:
                res.append('X')
        return {'cfg': 'ok', 'expr': expr, 'complete': ''.join(res)}

    def equal(self, model_out, obs):
        obs = {k: v for k, v in obs.items() if k != 'detail'}
        return model_out == obs

    def classify(self, inp, obs):
        cu = [c[0] for c in inp['custom']]
        cvs = [compvar(c) for c in cu]
        tags = [inp['mode']]
        usr = inp['user']
        if obs.get('cfg') == 'reject':
            if usr and usr['text']:
                return None      # rejected user expression: nothing of C11 is evaluated (trivial)
            tags.append('rejected')
        if usr and usr['text']:
            t = usr['tree']
            if not tree_positive(t):
                tags.append('user-invalid')
            else:
                tags.append('user/%d-leaves' % min(len(tree_names(t)), 6))
        else:
            std = inp['std']
            shape = ''.join(s for s, on in (
                ('F', std['succeeded'] is False or std['failed'] is False),
                ('S', std['submitted'] is False or std['submit-failed'] is False),
                ('E', std['expired'] is False)) if on)
            nreq = sum(1 for c in inp['custom'] if c[2] is True) + sum(1 for v in std.values() if v is True)
            tags.append('default/' + (shape or '-') + '/req%d' % min(nreq, 4))
        if len(set(cvs)) < len(cvs):
            tags.append('collision')
        if any(c in NONIDENT for c in cu):
            tags.append('nonident')
        if 'expr' in cu:
            tags.append('kwclash')
        c = obs.get('complete', '')
        if c and set(c) <= set('TF'):
            tags.append('mixed' if len(set(c)) == 2 else 'const')
        elif c:
            tags.append('err')
        return '/'.join(tags)

    def neighbours(self, inp, rng):
        out = []
        for k in STD:
            for v in (None, True, False):
                if inp['std'].get(k) is not v:
                    j = dict(inp)
                    j['std'] = dict(inp['std'], **{k: v})
                    out.append(j)
        for i in range(len(inp['custom'])):
            j = dict(inp)
            j['custom'] = inp['custom'][:i] + inp['custom'][i + 1:]
            out.append(j)
            for v in (None, True, False):
                j = dict(inp)
                j['custom'] = [list(c) for c in inp['custom']]
                j['custom'][i][2] = v
                out.append(j)
        if inp['user']:
            out.append(dict(inp, user=None))
        return out


PROP = C11()
