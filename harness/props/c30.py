"""C30  Removing a task undoes exactly its effects (`cylc remove`, with and without --flow)."""
from __future__ import annotations

import sys
from pathlib import Path

sys.path.insert(0, str(Path(__file__).resolve().parents[1] / 'sched'))
from prop import SchedProp, run_workers  # noqa: E402
from core import Infra  # noqa: E402


def _flow(graph, fcp=1, runahead='P1', extra=''):
    return f'''[scheduler]
    allow implicit tasks = True
[scheduling]
    cycling mode = integer
    initial cycle point = 1
    final cycle point = {fcp}
    runahead limit = {runahead}
{extra}    [[graph]]
        P1 = """
{graph}
        """
[runtime]
    [[root]]
        [[[simulation]]]
            default run length = PT0S
'''


_L = {'op': 'loop'}


def _cmd(name, **args):
    return {'op': 'cmd', 'name': name, 'args': args}


def _rm(tasks, flow=()):
    return _cmd('remove_tasks', tasks=list(tasks), flow=list(flow))


def _trig(tasks, flow=(), wait=False):
    return _cmd('force_trigger_tasks', tasks=list(tasks), flow=list(flow), flow_wait=wait)


def _sub(task, sn=1, ok=True):
    return {'op': 'subres', 'task': task, 'ok': ok, 'sn': sn}


def _msg(task, m, sn=1):
    return {'op': 'msg', 'task': task, 'msg': m, 'sn': sn, 'sev': 'INFO'}


def _job(task, sn=1, msgs=('started', 'succeeded')):
    return [_sub(task, sn)] + [_msg(task, m, sn) for m in msgs]


_AB = _flow('            a => b')
_ABC = _flow('            a => b\n            b => c', fcp=2)
_AND = _flow('            a & x => b')
_RACE = _flow('            a:start => b\n            a => b')
_E2 = _flow('            e', fcp=2, runahead='P3')

# hand-written regression histories (run first on every check)
_CORPUS = {
    # remove a waiting child: gone from the pool, history erased at the next commit, spawned again later
    'waiting-child': (_AB, [_L] + _job('1/a', msgs=('started',)) + [_L, _L, _rm(['1/b']), _L,
                           _msg('1/a', 'succeeded'), _L, _L] + _job('1/b') + [_L, _L]),
    # remove a finished parent: its child loses the naturally satisfied prerequisite and stands down
    'parent-of-waiting': (_AND, [_L] + _job('1/a') + [_L, _L, _rm(['1/a']), _L, _L]),
    # ... but not a prerequisite that was force-satisfied by a trigger, and not a child that has started
    'forced-kept': (_AND, [_cmd('hold', tasks=['1/a', '1/x']), _trig(['1/b']), _rm(['1/a']), _L, _L]),
    'child-preparing': (_AB, [_L] + _job('1/a') + [_L, _L, _rm(['1/a']), _L] + _job('1/b') + [_L, _L]),
    # removal from one of two flows / from a flow the task is not in / of an unknown flow number
    'one-of-two-flows': (_ABC, [_L, _trig(['1/a'], flow=['1', '2']), _rm(['1/a'], flow=['1']), _L,
                                _rm(['1/a'], flow=['3']), _rm(['1/a'], flow=['2', '7']), _L, _L]),
    # a running task is removed (job killed); matched parent and child together
    'kill-running': (_ABC, [_L] + _job('1/a') + [_L, _L] + _job('1/b', msgs=('started',)) +
                     [_L, _rm(['1/a', '1/b', '2/a', '9/zz']), _L, _L]),
    # removal after a clean stop + restart
    'after-restart': (_ABC, [_L] + _job('1/a') + [_L, _cmd('stop', mode='REQUEST(NOW)'), _L, {'op': 'restart'},
                             _rm(['1/a', '1/b']), _L, _L]),
}

# a finished chain is run again in a new flow; the parent is removed while the re-spawned child waits: the child
# stands down in the new flow only, its history of the first flow stays (1/h, held, keeps the workflow alive)
_ABH = _flow('            a => b\n            h')
_CORPUS['rerun-then-remove-parent'] = (_ABH, [_cmd('hold', tasks=['1/h']), _L] + _job('1/a') + [_L, _L] + _job('1/b') + [
    _L, _L, _cmd('pause'), _trig(['1/a'], flow=['new']), _L] + _job('1/a', sn=2) + [_L, _rm(['1/a']), _L, _L])
_CORPUS['rerun-then-remove-parent-flows'] = (_ABH, [_cmd('hold', tasks=['1/h']), _L] + _job('1/a') + [_L, _L] + _job('1/b') + [
    _L, _L, _cmd('pause'), _trig(['1/a'], flow=['new']), _L] + _job('1/a', sn=2) + [_L, _rm(['1/a'], flow=['1', '2']), _L, _L])

# witnesses of the recorded findings (also run first on every check)
_W_RACE = [_L, _sub('1/a'), _msg('1/a', 'started'), _L, _rm(['1/b']), _msg('1/a', 'succeeded'), _L, _L, _L]
_W_ZOMBIE = [_L, _cmd('stop', mode='REQUEST(NOW)'), _sub('1/e'), _sub('2/e'), _L, {'op': 'restart'},
             _rm(['1/e', '2/e']), _L, _L]
_W_ELSE = ([_cmd('hold', tasks=['1/b']), _L] + _job('1/a') + [_L, _L, _trig(['1/a'], flow=['2']),
           _rm(['1/a'], flow=['1']), _L, _L])


def _run_retry(cases, workers):
    """run_workers; a case whose scheduler did not come up (server thread start timed out on an overloaded
    machine: BrokenBarrierError) is run again, up to twice, on few workers"""
    res = run_workers(cases, workers)
    for _ in range(2):
        bad = [k for k, r in enumerate(res) if 'error' in r and 'BrokenBarrierError' in r['error']]
        if not bad:
            break
        again = run_workers([cases[k] for k in bad], min(4, len(bad)))
        for k, r in zip(bad, again):
            res[k] = r
    return res


def _probe_row_insert_mode() -> int:
    """(C28/C29's flag) call the live TaskPool._load_historical_outputs on stand-in objects with one overlapping DB row
    of other flows: are fresh rows queued never (0), always (1), or unless the proxy is finished and complete (2)?"""
    from types import SimpleNamespace
    from cylc.flow.task_pool import TaskPool

    def called(status, complete, outputs_text):
        calls = []

        class _State:
            def __init__(self):
                self.status = status
                self.outputs = SimpleNamespace(set_trigger_complete=lambda t: None,
                                               set_message_complete=lambda m: None,
                                               is_complete=lambda: complete)

            def __call__(self, *statuses):
                return self.status in statuses
        itask = SimpleNamespace(tdef=SimpleNamespace(name='a'), point='1', flow_nums={1, 2}, state=_State(),
                                transient=False, is_complete=lambda: complete, identity='1/a')
        pool = SimpleNamespace(
            workflow_db_mgr=SimpleNamespace(pri_dao=SimpleNamespace(
                select_task_outputs=lambda name, point: {outputs_text: {1}})),
            db_add_new_flow_rows=lambda it: calls.append(it))
        TaskPool._load_historical_outputs(pool, itask)
        return bool(calls)
    try:
        unfinished = called('waiting', False, '{}')
        finished = called('succeeded', True, '{"succeeded": "succeeded"}')
    except Exception as exc:
        raise Infra(f'C30 probe of _load_historical_outputs failed: {exc!r}')
    return 0 if not unfinished else 1 if finished else 2


def _probe_unit_flags():
    """(C28's flags) call the live queue_or_trigger / release_held_active_task on stand-in objects and read the
    behaviour off the calls they make: (qotSkipsPrepped, releaseQueueIfReady)"""
    from unittest.mock import MagicMock
    from cylc.flow.task_pool import TaskPool
    try:
        pool, itask = MagicMock(), MagicMock()
        itask.waiting_on_job_prep = True
        itask.state.is_queued = False
        pool.task_queue_mgr.push_task_if_limited.return_value = False
        pool.count_active_tasks.return_value = ({}, [])
        TaskPool.queue_or_trigger(pool, itask)
        qot = not pool.tasks_to_trigger_now.add.called
        pool, itask = MagicMock(), MagicMock()
        itask.state_reset.return_value = True
        itask.state.is_runahead = False
        itask.is_ready_to_run.return_value = True
        TaskPool.release_held_active_task(pool, itask)
        qir = bool(pool.queue_if_ready.called) and not pool.queue_task.called
    except Exception as exc:
        raise Infra(f'C30 unit probes failed: {exc!r}')
    return qot, qir


def _case(cid, flow, ops):
    return {'id': cid, 'flow': flow, 'seed': 0, 'opts': {}, 'policy': {'obs_db': True}, 'ops': ops, 'kind': 'cmdrm'}


class C30(SchedProp):
    id = 'C30'
    props_modules = ['CylcModel.Props.C30']
    theorems = []            # set below
    statement_note = ''      # set below
    technique = ('line-by-line Lean port of the `cylc remove` code path on top of the scheduler model (Sched3Rm: flows, '
                 'run-DB tables with queued / committed operations, group trigger) + theorems per primitive and for the '
                 'whole removal loop + trace correspondence with the real Scheduler + a before/after judge on the '
                 'observed traces')
    trusted = [
        'the matched ids, and the graph children of each matched id, are Python sets: the orders in which '
        '_remove_matched_tasks walks them are taken from the implementation as hints (the theorems hold for every order)',
        'behaviour flags of code paths the model shares with C28 / C29 (group trigger: anyOutput, triggerUnpooled, '
        'qotSkipsPrepped; release_held_active_task: releaseQueueIfReady; _load_historical_outputs: rowInsertMode) are probed from the live code like the two flags of this property',
        'jobs of proxies removed by the command are killed: the generated schedule delivers no further message of theirs',
        'SQLite semantics of UPDATE OR REPLACE on the primary key (name, cycle, flow_nums) and the order in which the rows '
        'of one task come back (flow_nums text, binary collation)',
        'the stub job runner clears is_manual_submit when a job is handed over (as live mode does)',
    ]
    unmodelled = SchedProp.unmodelled[:2] + [
        'datetime cycling, xtriggers / external triggers, clock-expiry, queue limits (default unlimited queue only), reload, '
        'cylc set; the task_prerequisites table and the data store (delta_remove_task_flow_nums); id globbing and family '
        'ids (ids are given as point/name); --flow options are integers (as validated for this command) or `all`',
        'restart after a group trigger (manual-submit flag and trigger-now list across restarts): the runs with restarts '
        'contain removals but no triggers',
    ]
    rule = ('generated integer-cycling workflows (2-6 tasks, 1-3 recurrences, AND/OR, inter-cycle, absolute and suicide '
            'triggers, sequential tasks, retries, warm starts, runahead P0-P3) driven through the real Scheduler by a seeded '
            'adaptive schedule of main loops, submit results, job messages (any outcome / complete outcomes, noise) and '
            'commands: `cylc remove` of 1-5 instances (pooled in any state, finished, never spawned; grown along graph edges; '
            'now and then an id that names nothing) without --flow / --flow=all / --flow=N.. (existing and unused numbers), '
            'mixed with group triggers (--flow=new / N: several flows in the pool), hold / release / hold point / pause / '
            'resume, (third kind) stop + restart, and (fourth kind) multi-flow histories: finished instances with graph '
            'children are run again in a new flow and the parent of a waiting child is removed; non-trivial = distinct class (flow option, removed states, killed, '
            'flows reduced, prerequisites unset, children stood down, multi-flow pool, new flow by --flow, restart) per case')
    kinds = ('cmdrm', 'cmdrmc', 'cmdrmr', 'cmdrmf')
    n_quick = 44
    n_thorough = 600

    # -- K-T: behaviour flags probed from the live code -------------------------------------------------------
    def translate(self):
        probes = [
            # does `cylc remove` write the erased history to the DB before it returns?
            _case('c30-probe-commits', _AB, [_rm(['1/a'])]),
            # is the history of an id that is active in another flow only erased?
            _case('c30-probe-else', _AB, _W_ELSE),
            # (C28's flags; the model carries the group trigger) are all prerequisites on a live parent forced?
            _case('c30-probe-trig', _AB, [_L] + _job('1/a', msgs=('started',)) + [_L, _trig(['1/a', '1/b'])]),
            # ... and is an object that is not the pooled proxy of its instance put on the trigger-now list?
            _case('c30-probe-unpooled', _flow('            d\n            d[^]:x => e', fcp=2).replace(
                '            default run length = PT0S\n',
                '            default run length = PT0S\n    [[d]]\n        [[[outputs]]]\n            x = xx\n'),
                [_L] + _job('1/d', msgs=('started',)) + [_L, _trig(['1/d', '1/e'], flow=['new'])]),
        ]
        raws = _run_retry(probes, 4)
        for raw in raws:
            if 'error' in raw:
                raise Infra(f'C30 probe run failed: {raw["error"][-400:]}')
        rows = raws[0]['obs'][-1]['xdb']['states']
        commits = all(r[2] == [] for r in rows if r[:2] == [1, 'a'])
        rows = raws[1]['obs'][-1]['xdb']['states']
        always_db = not any(r[:2] == [1, 'a'] and 1 in r[2] for r in rows)
        b = [t for t in raws[2]['obs'][-1]['xt']['pool'] if (t['p'], t['n']) == (1, 'b')]
        any_output = bool(b) and any(a[3] != 0 for pre in b[0]['pre'] for a in pre if a[:3] == [1, 'a', 'succeeded'])
        unpooled = [1, 'e'] in raws[3]['obs'][-1]['xt']['now']
        row_mode = _probe_row_insert_mode()
        qot, qir = _probe_unit_flags()
        self.flags = {'commits': commits, 'always_db': always_db, 'any_output': any_output,
                      'trigger_unpooled': unpooled, 'row_insert_mode': row_mode, 'qot_skips_prepped': qot,
                      'release_queue_if_ready': qir}
        lb = {True: 'true', False: 'false'}
        return {'RmFlags.lean': (
            '/- GENERATED by harness/props/c30.py translate() from the live source. Do not edit. -/\n'
            'namespace CylcModel.RmFlags\n'
            '/-- `_remove_matched_tasks` writes the erased history of each matched id to the run database at once\n'
            '(true: repaired) or leaves the operations queued until the next commit (false: code as found) -/\n'
            f'def commits : Bool := {lb[commits]}\n'
            '/-- a matched id whose pooled proxy is in none of the given flows is still removed from those flows in the\n'
            'database and its children stand down (true: repaired); nothing happens for it (false: code as found) -/\n'
            f'def alwaysDb : Bool := {lb[always_db]}\n'
            '/-- (C28) `cylc trigger` forces every prerequisite on a live group-start member that has completed some output -/\n'
            f'def anyOutput : Bool := {lb[any_output]}\n'
            '/-- (C28) `cylc trigger` triggers the object `_set_prereqs_tdef` hands back even when it is not the pooled proxy -/\n'
            f'def triggerUnpooled : Bool := {lb[unpooled]}\n'
            '/-- (C28/C29) `_load_historical_outputs`, rows overlap the flows of the proxy but none is of exactly its flows:\n'
            'fresh rows are queued 0 never, 1 always, 2 unless the proxy is a finished and complete instance -/\n'
            f'def rowInsertMode : Nat := {row_mode}\n'
            '/-- (C28) `queue_or_trigger` returns early for a proxy already waiting on job preparation -/\n'
            f'def qotSkipsPrepped : Bool := {lb[qot]}\n'
            '/-- (C28) `release_held_active_task` queues through `queue_if_ready` (not a manually triggered proxy) -/\n'
            f'def releaseQueueIfReady : Bool := {lb[qir]}\n'
            'end CylcModel.RmFlags\n')}

    def corpus(self):
        return [_case('c30-' + k, v[0], v[1]) for k, v in _CORPUS.items()]

    def impl_batch(self, inputs):
        return _run_retry(inputs, self.workers)

    def driver_input(self, inp, raw):
        d = super().driver_input(inp, raw)
        if 'crash' not in d:
            d['obs_db'] = True
        return d

    _DS_CRASH = "object has no attribute 'graph_depth'"

    def driver_obs(self, inp, raw):
        # the recorded crash of the real scheduler inside the (unmodelled) data store: finding `datastore-crash`
        if 'error' in raw and self._DS_CRASH in raw['error']:
            return {'crash': 'datastore-crash'}
        return super().driver_obs(inp, raw)

    def equal(self, model_out, obs):
        if isinstance(obs, dict) and obs.get('crash') == 'datastore-crash':
            return model_out == obs          # no correspondence claim for that run (reported as a known finding)
        return super().equal(model_out, obs)

    def skip_case(self, inp, raw):
        if 'error' in raw and 'BrokenBarrierError' in raw['error']:
            raise Infra('scheduler server thread did not start within its time-out (overloaded machine?) '
                        f'in case {inp.get("id")}')
        return super().skip_case(inp, raw)

    def classify(self, inp, obs):
        if isinstance(obs, dict):
            return 'crash'
        ops = inp.get('ops') or []
        rms = [(k, o) for k, o in enumerate(ops) if o.get('name') == 'remove_tasks']
        if not rms:
            return None
        tags = set()
        for k, o in rms:
            fl = o['args'].get('flow') or []
            tags.add('flow-' + ('all' if not fl or fl == ['all'] else 'N'))
            if k + 1 >= len(obs):
                continue
            b, a = obs[k], obs[k + 1]
            if len(o.get('rm') or []) > 1:
                tags.add('ids>1')
            for r in a['removed']:
                if r[4] == 'request':
                    tags.add('rm-' + ('live' if r[2] in ('preparing', 'submitted', 'running') else
                                      'final' if r[2] != 'waiting' else 'waiting'))
                else:
                    tags.add('stood-down')
            bp = {(t['p'], t['n']): t for t in b['pool']}
            for t in a['pool']:
                x = bp.get((t['p'], t['n']))
                if x is not None and x['fl'] != t['fl'] and set(t['fl']) < set(x['fl']):
                    tags.add('flows-reduced')
            bx = {(t['p'], t['n']): t['pre'] for t in b['xt']['pool']}
            for t in a['xt']['pool']:
                if (t['p'], t['n']) in bx and bx[(t['p'], t['n'])] != t['pre']:
                    tags.add('unset')
            if a['flows_known'] != b['flows_known']:
                tags.add('new-flow')
            # a child that stands down while the DB holds rows of it in flows it is not in now
            if b.get('xdb'):
                for r in a['removed']:
                    if r[4] != 'request':
                        cur = set((bp.get((r[0], r[1])) or {}).get('fl', []))
                        if any(row[0] == r[0] and row[1] == r[1] and set(row[2]) - cur for row in b['xdb']['states']):
                            tags.add('child-other-flow-history')
            if any(len(t['fl']) > 1 for t in b['pool']):
                tags.add('multiflow')
        if any(o['op'] == 'restart' for o in ops):
            tags.add('restart')
        tags.add('rm<3' if len(rms) < 3 else 'rm<8' if len(rms) < 8 else 'rm>=8')
        return '/'.join(sorted(tags))

    def neighbours(self, inp, rng):
        # op-sequence mutations of a recorded history: drop one op
        ops = inp.get('ops') or []
        out = []
        for _ in range(6):
            if len(ops) < 2:
                break
            k = rng.randrange(len(ops))
            out.append(dict(inp, id=f'{inp["id"]}-d{k}', ops=ops[:k] + ops[k + 1:]))
        return out


C30.theorems = ['CylcModel.C30.' + t for t in (
    'unset_exactly_natural', 'forced_kept', 'other_tasks_kept', 'natural_unset', 'changed_iff',
    'match_flows_spec', 'flows_removed', 'leaves_pool_iff_none_remain',
    'child_untouched', 'child_prereqs_unset', 'child_kept', 'child_unqueued', 'child_removed', 'child_leaves_iff',
    'child_history_erased_in_its_own_flows',
    'history_erased', 'other_history_kept', 'other_flows_history_kept', 'history_forgotten', 'runs_again',
    'erase_then_respawn',
    'others_untouched', 'kill_leaves_pool', 'removal_frame',
    'erased_at_once_partial', 'erased_at_once_counterexample', 'erased_at_once_live', 'repaired_is_quiet',
    'elsewhere_partial', 'elsewhere_counterexample', 'elsewhere_live',
    'respawn_partial', 'respawn_counterexample', 'respawn_live',
)]
C30.statement_note = (
    'PARTIAL. Proved over the Sched3Rm model (Sched2 + flows, run-DB tables with queued / committed operations, group '
    'trigger, `cylc remove`), for every instance graph, state, id list, flow list and iteration order of the ids: '
    '(1) Prerequisite.unset_naturally_satisfied turns exactly the atoms on the removed task that are satisfied naturally / '
    'from the database into unsatisfied ones and keeps every other atom (forced ones, other tasks) and the expression '
    '(unset_exactly_natural, forced_kept, other_tasks_kept, natural_unset, changed_iff); (2) match_flows = the proxy\'s flows '
    'within --flow (all without it); a pooled matched id keeps exactly its other flows, the same object otherwise, and is out '
    'of the pool iff none remain (match_flows_spec, flows_removed, leaves_pool_iff_none_remain); (3) the stand-down step of a '
    'downstream proxy, case by case: untouched if not pooled / not in the flows concerned / nothing unset; else its '
    'prerequisites (normal and suicide) are the old ones with (1) applied; it stays if still ready, leaves the queue if matched '
    'itself or some prerequisite is still satisfied, and leaves the pool otherwise -- and in no other case '
    '(child_untouched, child_prereqs_unset, child_kept, child_unqueued, child_removed, child_leaves_iff); (4) '
    'remove_task_from_flows followed by a commit, when nothing else is queued for the two tables: no task_states / task_outputs '
    'row of the task carries a removed flow (no flow at all without --flow), rows of other tasks are exactly what they were '
    '(history_erased, other_history_kept), a flow set of the same task that contains no removed flow is still the flow set '
    'of one of its rows (other_flows_history_kept), and a child that stands down is erased with its own matched flows, not '
    'the flows named by the command (child_history_erased_in_its_own_flows); then _get_task_history finds nothing and spawn_task hands out a new instance '
    '(waiting, no outputs, the requested flows) for any instance of the graph that is not a pre-start instance of flow 1 '
    '(history_forgotten, runs_again, erase_then_respawn); (5) frame: after the whole removal loop of _remove_matched_tasks and '
    'the kill of the removed jobs every pooled proxy outside the closure of the matched ids (ids, their graph children, the '
    'parentless successors of both) is the very same object (others_untouched, kill_leaves_pool, removal_frame); (6) the '
    'defects found, per probed behaviour flag: the history is erased when the per-id step returns only for the repaired code '
    '(erased_at_once_partial / _counterexample / _live; the repaired code commits before the first id and after every one, so it '
    'meets the "nothing queued" hypothesis of (4) by construction, repaired_is_quiet; and end to end on a concrete workflow: a task removed and needed again '
    'within one main loop is spawned again only by the repaired code, respawn_partial / _counterexample / _live); a matched '
    'id active in other flows only is handled like an inactive one only by the repaired code (elsewhere_partial / '
    '_counterexample / _live). NOT proved (covered by the trace correspondence and the judge only): (4) with other operations '
    'queued for the same tables; the frame across the runahead release that ends the command (ordinary scheduling: flags, '
    'parentless successors); "children" are the graph children (finding abs-trigger-dependants: later instances behind an '
    'absolute trigger are not reached); whole-command composition of (2)-(4) over several ids. Three deviations of cylc-flow '
    'from the property text are recorded as findings: erase-deferred (repair: findings/C30-fix-1.diff), '
    'active-elsewhere-history-kept (repair: findings/C30-fix-2.diff), abs-trigger-dependants.')

PROP = C30()
