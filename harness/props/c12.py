"""C12  Required/optional output classification matches the expression; graph consistency; skip-mode outputs."""
from __future__ import annotations

import itertools
from types import SimpleNamespace

from core import Prop
from props.c11 import (
    A, AND, OR, BAD_TEXTS, CLASH, NONIDENT, STD, all_trees, compvar, consistent_flags, get_real, mk as mk11,
    random_custom, random_std, random_tree, translate_tables, tree_names, tree_positive, user,
)


def mk(std, custom, usr=None, disable=None, conf=()):
    c = mk11(std, custom, usr)
    del c['mode']
    c['disable'] = disable
    c['conf'] = list(conf)
    return c


def err_name(exc, real):
    if isinstance(exc, NameError):
        return 'name'
    if isinstance(exc, TypeError):
        return 'type'
    if isinstance(exc, (real.ICE, SyntaxError)):
        return 'invalid'
    return 'other'


class C12(Prop):
    id = 'C12'
    props_modules = ['CylcModel.Props.C12']
    theorems = [
        'CylcModel.C12.required_iff_semantic',
        'CylcModel.C12.required_iff_maximal',
        'CylcModel.C12.optional_iff',
        'CylcModel.C12.classification_keys',
        'CylcModel.C12.whitelist_monotone',
        'CylcModel.C12.consistency_table',
        'CylcModel.C12.check_accept_consistent',
        'CylcModel.C12.skip_outputs_partial',
        'CylcModel.C12.skip_outputs_counterexample',
    ]
    statement_note = (
        'partial: for every and/or expression over the task outputs (no bound on size) and every output: classified '
        'required iff the expression is false under EVERY assignment that makes the output, expired and submit_failed '
        '(and the disabled output) false (required_iff_semantic, by monotonicity) iff false under the single maximal such '
        'assignment (required_iff_maximal); optional iff referenced and not required, unreferenced otherwise '
        '(optional_iff, classification_keys); the evaluator whitelist admits only and/or/names (whitelist_monotone, over '
        'the regenerated whitelist); the accept/reject table tabulated from the real _check_completion_expression equals '
        'the documented table (consistency_table) and an accepted expression is consistent with the graph for every '
        'output (check_accept_consistent); default skip-mode outputs contain submitted, started, succeeded, not failed, '
        'and every output required on the success path (skip_outputs_partial). Not full: "every required output" fails '
        'when failed itself is required (skip_outputs_counterexample, finding skip-required-failed). Python parsing of '
        'the expression text is modelled and tied by correspondence, not proved.')
    technique = 'monotonicity of and/or expressions (structural induction) + tabulated finite table + exhaustive small-box correspondence'
    trusted = [
        'Python tokenising/parsing of completion expressions is modelled by a hand-written parser (Outputs.parsePy); tied by '
        'correspondence over rendered text variants, not proved',
        '_check_completion_expression is driven on a bare WorkflowConfig object holding one real TaskDef; process_outputs on '
        'a stub task proxy holding a real TaskOutputs',
    ]
    unmodelled = [
        'the text of validation error messages (only accept / reject is compared; an internal KeyError counts as reject)',
        'Cylc-7 compatibility mode; expire-trigger hint in the error message',
        'non-ASCII identifiers, numeric literals other than plain decimals',
    ]
    rule = ('exhaustive: every and/or tree with <= 3 leaves (quick) / <= 4 leaves over 5 names and <= 5 leaves over 3 names '
            '(thorough), each with steered graph declarations and a cycling disable argument; every declaration (3^5) of '
            'succeeded/failed/expired/submit-failed/x for 14 fixed expressions; random trees up to 8 leaves over standard and '
            'custom outputs (plain, hyphenated, colliding, non-identifier names) in 4 text variants; default expressions of '
            'random task definitions; invalid texts; skip [outputs] settings incl. failed / both. class = expression kind / '
            'size / classification pattern / check verdict / skip setting')
    workers = 16

    def setup(self):
        get_real()

    def translate(self):
        return translate_tables(get_real())

    def corpus(self):
        e1 = OR(AND(A('succeeded'), OR(A('x'), A('y'))), A('failed'))
        e2 = OR(AND(AND(A('succeeded'), A('x')), A('y')), A('expired'))
        e3 = OR(AND(A('succeeded'), A('towel')), AND(A('failed'), A('bugblatter')))
        cu2 = [('x', None), ('y', None)]
        return [
            mk({}, cu2, user(e1)),
            mk({'succeeded': False}, [('x', False), ('y', False)], user(e1)),
            mk({'expired': False}, [('x', True), ('y', True)], user(e2)),
            mk({'succeeded': False}, [('towel', False), ('bugblatter', False)], user(e3), 'failed'),
            mk({'succeeded': False}, [('towel', False), ('bugblatter', False)], user(e3), None, ['failed']),
            mk({}, [('x', True)], user(AND(A('succeeded'), OR(A('x'), A('y'))))),       # required in graph, optional in expression
            mk({}, [('x', False)], user(AND(A('succeeded'), A('x')))),                    # optional in graph, required in expression
            mk({}, [('x', True)], user(A('succeeded'))),                                  # required in graph, unreferenced
            mk({'expired': False}, [], user(A('succeeded'))),                             # expired permitted, unreferenced
            mk({'succeeded': False}, [('x', None)], user(AND(A('x'), A('failed')))),      # failed implicitly optional
            mk({'failed': True}, []),                                                     # failed required: skip mode
            mk({}, [('x', True), ('y', False)], None, None, ['y']),
            mk({}, [('x', True), ('y', False)], None, None, ['succeeded', 'failed']),
        ]

    def gen(self, tier, rng):
        quick = tier == 'quick'
        names5 = ['succeeded', 'failed', 'x', 'y', 'expired']
        disables = [None, 'succeeded', 'failed', 'x', None]
        n = 0

        def box(names, leaves):
            nonlocal n
            for k in range(1, leaves + 1):
                for t in all_trees(names, k):
                    n += 1
                    cnames = [c for c in ('x', 'y') if c in names]
                    flags = consistent_flags(rng, t, cnames, noise=0.15)
                    yield mk({s: flags[s] for s in STD}, [(c, flags[c]) for c in cnames],
                             user(t, n % 4, rng), disables[n % 5],
                             [] if n % 3 else rng.choice([['failed'], ['x'], ['succeeded'], ['x', 'failed']]))
        yield from box(names5, 3 if quick else 4)
        if not quick:
            yield from box(['succeeded', 'x', 'expired'], 5)
        # every graph declaration for fixed expressions
        fixed = [A('succeeded'), AND(A('succeeded'), A('x')), OR(A('succeeded'), A('x')), OR(A('succeeded'), A('failed')),
                 OR(AND(A('succeeded'), A('x')), A('failed')), OR(A('succeeded'), A('expired')),
                 OR(A('succeeded'), A('submit_failed')), AND(A('succeeded'), A('expired')),
                 OR(OR(A('succeeded'), A('submit_failed')), A('expired')), A('x'), A('failed'), A('expired'),
                 OR(AND(A('succeeded'), A('x')), AND(A('failed'), A('x'))),
                 OR(OR(OR(A('succeeded'), A('failed')), A('submit_failed')), A('expired'))]
        for t in (fixed[:6] if quick else fixed):
            for fl in itertools.product([None, True, False], repeat=5):
                std = dict(zip(('succeeded', 'failed', 'expired', 'submit-failed'), fl))
                yield mk(std, [('x', fl[4])], user(t))
        # random larger expressions over random task definitions
        for _ in range(1200 if quick else 25000):
            cu = random_custom(rng, 3, special=0.15)
            cnames = [c[0] for c in cu]
            pool = ['succeeded', 'succeeded', 'failed', 'expired', 'submit_failed', 'started', 'submitted'] + \
                   [compvar(c) for c in cnames] * 2
            t = random_tree(rng, pool, rng.choice([1, 2, 3, 3, 4, 5, 6, 8]))
            flags = consistent_flags(rng, t, cnames, noise=0.12)
            dis = rng.choice([None, None, 'succeeded', 'failed'] + [compvar(c) for c in cnames[:1]])
            yield mk({s: flags[s] for s in STD}, [(c, flags[c]) for c in cnames], user(t, rng.randint(0, 3), rng),
                     dis, self.random_conf(rng, cnames))
        # default expressions
        for _ in range(800 if quick else 15000):
            cu = random_custom(rng, 3, special=0.15)
            yield mk(random_std(rng), cu, None, rng.choice([None, None, 'succeeded', 'failed']),
                     self.random_conf(rng, [c[0] for c in cu]))
        # invalid texts
        for text, tree in BAD_TEXTS:
            yield mk({}, [('x', None)], {'text': text, 'tree': tree})
            yield mk({'succeeded': False, 'expired': False}, [('x', False), ('x-y', None)], {'text': text, 'tree': tree})

    @staticmethod
    def random_conf(rng, cnames):
        u = rng.random()
        if u < 0.6:
            return []
        pool = list(cnames) + ['failed', 'succeeded', 'started', 'expired']
        k = rng.randint(1, 3)
        return list(dict.fromkeys(rng.choice(pool) for _ in range(k)))

    # -- adapter ---------------------------------------------------------------
    def impl(self, inp):
        real = get_real()
        to = real.to
        usr = inp['user']
        text = (usr['text'] if usr else None) or None
        tdef = real.tdef(inp['std'], inp['custom'], text)
        tdef.rtconfig['skip'] = {'outputs': list(inp['conf'])}
        outputs = to.TaskOutputs(tdef)
        out = {'expr': outputs._completion_expression}
        try:
            r = to.get_optional_outputs(out['expr'], tdef.outputs, inp['disable'])
            out['classify'] = sorted([k, v] for k, v in r.items())
        except Exception as exc:
            out['classify'] = err_name(exc, real)
        req = []
        for dis in (None, 'succeeded', 'failed'):
            try:
                req.append(sorted(outputs.iter_required_messages(disable=dis)))
            except Exception as exc:
                req.append(err_name(exc, real))
        out['required'] = req
        if text:
            r = real.check(tdef, text)
            out['check'] = 'accept' if r == 'accept' else 'reject'
            if r.startswith('crash'):
                out['detail'] = r
        else:
            out['check'] = None
        try:
            itask = SimpleNamespace(state=SimpleNamespace(outputs=outputs), tdef=tdef)
            out['skip'] = sorted(real.skip.process_outputs(itask, tdef.rtconfig))
        except Exception as exc:
            out['skip'] = err_name(exc, real)
        try:
            real.skip.check_task_skip_config(tdef)
            out['skipcfg'] = True
        except real.WCE:
            out['skipcfg'] = False
        return out

    def equal(self, model_out, obs):
        obs = {k: v for k, v in obs.items() if k != 'detail'}
        return model_out == obs

    def classify(self, inp, obs):
        usr = inp['user']
        tags = []
        if usr and usr['text']:
            t = usr['tree']
            if not tree_positive(t):
                tags.append('user-invalid')
            else:
                tags.append('user/%d' % min(len(tree_names(t)), 6))
            tags.append('chk:' + str(obs.get('check')) + (':crash' if 'detail' in obs else ''))
        else:
            tags.append('default')
        cl = obs.get('classify')
        if isinstance(cl, list):
            vals = [v for _, v in cl]
            tags.append('R%dO%d' % (min(vals.count(False), 3), min(vals.count(True), 3)))
        else:
            tags.append('cls:' + str(cl))
        if inp['disable']:
            tags.append('dis:' + (inp['disable'] if inp['disable'] in ('succeeded', 'failed') else 'other'))
        conf = inp['conf']
        if conf:
            tags.append('conf:' + ('both' if not obs.get('skipcfg') else 'failed' if 'failed' in conf else 'some'))
        cu = [c[0] for c in inp['custom']]
        cvs = [compvar(c) for c in cu]
        if len(set(cvs)) < len(cvs):
            tags.append('collision')
        if any(c in NONIDENT for c in cu):
            tags.append('nonident')
        if any(c in CLASH for c in cu):
            tags.append('kwclash')
        return '/'.join(tags)

    def neighbours(self, inp, rng):
        out = []
        for k in STD:
            for v in (None, True, False):
                if inp['std'].get(k) is not v:
                    out.append(dict(inp, std=dict(inp['std'], **{k: v})))
        for i in range(len(inp['custom'])):
            for v in (None, True, False):
                cu = [list(c) for c in inp['custom']]
                cu[i][2] = v
                out.append(dict(inp, custom=cu))
        for d in (None, 'succeeded', 'failed'):
            out.append(dict(inp, disable=d))
        out.append(dict(inp, conf=[]))
        out.append(dict(inp, conf=['failed']))
        return out


PROP = C12()
