"""C11S  Completion at scheduler level: a finished task stays in the pool exactly while it is incomplete.

(The expression-level half of C11 is harness/props/c11.py; the coordinator merges the two manifest entries.)"""
from __future__ import annotations

import sys
from pathlib import Path

sys.path.insert(0, str(Path(__file__).resolve().parents[1] / 'sched'))
from prop import SchedProp  # noqa: E402


class C11S(SchedProp):
    id = 'C11S'
    report_id = 'C11'
    drv = 'C11S'
    props_modules = ['CylcModel.Props.C11Sched']
    theorems = [
        'CylcModel.C11S.removeIfComplete_exact',
        'CylcModel.C11S.after_output_pooled_only_if_incomplete',
        'CylcModel.C11S.revived_only_if_incomplete',
        'CylcModel.C11S.no_finished_complete_modulo_implied',
        'CylcModel.C11S.no_finished_complete_partial',
    ]
    statement_note = (
        'partial proof over the Sched model v1 (all instance graphs, all op lists). Proved: remove_if_complete removes a '
        'finished proxy iff its completion expression is true over its completed outputs and otherwise leaves the state '
        'unchanged (removeIfComplete_exact); after spawn_on_output for ANY output of a live proxy that proxy is pooled only '
        'if unfinished or incomplete over its full output set (after_output_pooled_only_if_incomplete, needs the C26 '
        'no-duplicates invariant); spawn_task never revives a finished-and-complete instance from the DB history; run '
        'invariant at every operation boundary: no pooled proxy is finished and complete over its outputs other than the '
        'implied submitted/started (inductive, any message fuel), hence over its full output set for every task whose '
        'completion expression does not mention submitted/started (no_finished_complete_partial; 122 of 132 generated '
        'tasks). NOT proved: the unrestricted run invariant (def no_finished_complete_full) - a late "started"/"submitted" '
        'message for a finished proxy completes that output without a remove_if_complete call (process_message returns '
        'early to request a poll); the invariant then rests on failed/succeeded proxies already having both implied '
        'outputs, which holds only with sufficient fuel for the implied-output recursion and is not proved. The judge '
        'checks the unrestricted statement on every real trace. Not in Sched v1: manual set/trigger, flow merge, reload')
    technique = ('inductive invariant with a per-proxy exemption during message processing, over op lists of a Lean '
                 'scheduler model + trace correspondence with the real Scheduler')
    trusted = ['the completion expression string of the real TaskOutputs object parsed into an and/or tree by the runner '
               '(runner.parse_bool); its construction from the task definition is the expression-level half of C11']
    rule = ('generated integer-cycling workflows with optional/required success, failure and custom outputs, suicide '
            'triggers, retries; outcome policies incl. failures, missing custom outputs, submit failures and duplicate / '
            'stale / out-of-order messages ("any" kind); the pool after every operation and every TaskPool.remove call '
            '(status, completed outputs, reason) are judged; non-trivial = distinct (kind, ending, launch-count class, '
            'polls, incomplete-retained, suicide) class per distinct case')

    FLOW = '''[scheduler]
    allow implicit tasks = True
[scheduling]
    cycling mode = integer
    initial cycle point = 1
    final cycle point = 2
    runahead limit = P1
    [[graph]]
        P1 = """
            %s
        """
[runtime]
    [[root]]
        [[[simulation]]]
            default run length = PT0S
    [[a]]
        [[[outputs]]]
            x = xx
'''

    def corpus(self):
        def ops(*l):
            out = []
            for o in l:
                if o == 'L':
                    out.append({'op': 'loop'})
                elif o[0] == 'S':
                    out.append({'op': 'subres', 'task': o[1], 'ok': o[2], 'sn': o[3]})
                else:
                    out.append({'op': 'msg', 'task': o[1], 'msg': o[2], 'sn': o[3],
                                'sev': 'CRITICAL' if o[2] == 'failed' else 'INFO'})
            return out

        def case(cid, graph, ol):
            return {'id': cid, 'flow': self.FLOW % graph, 'seed': 0, 'opts': {}, 'policy': {}, 'ops': ops(*ol),
                    'kind': 'corpus'}
        return [
            # the final message overtakes the required custom output: retained as incomplete, removed when xx arrives
            case('c11s-late-output', 'a:x => b', [
                'L', ('S', '1/a', True, 1), ('M', '1/a', 'started', 1), ('M', '1/a', 'succeeded', 1), 'L', 'L',
                ('M', '1/a', 'xx', 1), 'L', 'L']),
            # optional failure: a failed task is complete and removed; required success: a failed task is retained
            case('c11s-optional-failure', 'a? => b', [
                'L', ('S', '1/a', True, 1), ('M', '1/a', 'started', 1), ('M', '1/a', 'xx', 1), ('M', '1/a', 'failed', 1),
                'L', 'L']),
            case('c11s-required-success', 'a => b', [
                'L', ('S', '1/a', True, 1), ('M', '1/a', 'started', 1), ('M', '1/a', 'failed', 1), 'L', 'L',
                ('M', '1/a', 'succeeded', 1), 'L', 'L']),
            # a late "started" for a finished-incomplete task whose expression mentions started
            case('c11s-late-started', 'a:start & a:x => b', [
                'L', ('S', '1/a', True, 1), ('M', '1/a', 'succeeded', 1), 'L', ('M', '1/a', 'started', 1), 'L',
                ('M', '1/a', 'xx', 1), 'L', 'L']),
        ]

    def gen(self, tier, rng):
        # more out-of-order deliveries than the shared default (a final message overtaking a custom output is
        # how a finished-incomplete proxy becomes complete later)
        for k, case in enumerate(super().gen(tier, rng)):
            if case.get('kind') == 'any' and k % 4 != 3:
                case['policy']['p_noise'] = 0.3
            yield case

    def classify(self, inp, obs):
        base = super().classify(inp, obs)
        if base == 'crash':
            return base
        tags = [base]
        final = ('succeeded', 'failed', 'submit-failed', 'expired')
        if any(t['st'] in final for o in obs for t in o['pool']):
            tags.append('retained')
        if any(r[4] for o in obs for r in o.get('removed', [])):
            tags.append('suicide')
        was_final = set()
        for o in obs:
            for r in o.get('removed', []):
                if r[4] is None and (r[0], r[1]) in was_final:
                    tags.append('late-complete')
                    break
            was_final = {(t['p'], t['n']) for t in o['pool'] if t['st'] in final}
        tags = list(dict.fromkeys(tags))
        return '/'.join(tags)


PROP = C11S()
