"""C03Q  No premature shutdown, no false stall, bounded response - on workflows WITH LIMITED INTERNAL QUEUES.

(The unlimited-queue half of C03 is harness/props/c03.py over the Sched v1 model; this sub-check runs the same
property over the Sched3QR model (= Sched3QT of C05S: limited queues + manual triggers, extended with retry delays that
are not over at once): a ready task may be left unsubmitted only while its queue is at its limit, counting exactly the
preparing / submitted / running members; a task that only waits for its retry delay is no reason for a stall.)"""
from __future__ import annotations

import sys
from pathlib import Path

sys.path.insert(0, str(Path(__file__).resolve().parents[1] / 'sched'))
from prop import SchedProp, run_workers  # noqa: E402
from core import Infra  # noqa: E402


# -- hand-written regression histories (run first on every check) ---------------------------------------------
def _flow(queues, graph='a', fcp=3, runahead=3, runtime=''):
    return f'''[scheduler]
    allow implicit tasks = True
[scheduling]
    cycling mode = integer
    initial cycle point = 1
    final cycle point = {fcp}
    runahead limit = P{runahead}
    [[queues]]
{queues}    [[graph]]
        P1 = """
            {graph}
        """
[runtime]
    [[root]]
        [[[simulation]]]
            default run length = PT0S
{runtime}'''


def _q(name, limit, members=None):
    s = f'        [[[{name}]]]\n            limit = {limit}\n'
    if members:
        s += f'            members = {", ".join(members)}\n'
    return s


def _msg(task, m, sn=1):
    return {'op': 'msg', 'task': task, 'msg': m, 'sn': sn, 'sev': 'CRITICAL' if m == 'failed' else 'INFO'}


def _job(task, msgs=('started', 'succeeded'), sn=1, ok=True):
    return [{'op': 'subres', 'task': task, 'ok': ok, 'sn': sn}] + [_msg(task, m, sn) for m in msgs]


_L = {'op': 'loop'}


def _CMD(name, **args):
    return {'op': 'cmd', 'name': name, 'args': args}


def _TRIG(*tasks):
    return {'op': 'cmd', 'name': 'force_trigger_tasks', 'args': {'tasks': list(tasks), 'flow': [], 'flow_wait': False}}


_FAIL = ('started', 'failed')

_CORPUS = {
    # THE witness: limit 1 over one task and three cycles; 1/a fails (success required: it stays in the pool,
    # finished but incomplete); it no longer occupies the slot, so 2/a and then 3/a must be released
    'failed-member-frees-slot': (
        _flow(_q('q', 1, ['a'])),
        [_L] + _job('1/a', _FAIL) + [_L, _L, _L] + _job('2/a') + [_L, _L, _L] + _job('3/a') + [_L, _L, _L]),
    # the same with a job that could not be submitted (submit-failed, no retries)
    'submit-failed-member-frees-slot': (
        _flow(_q('q', 1, ['a', 'b']), graph='a & b', fcp=2, runahead=2),
        [_L] + _job('1/a', (), ok=False) + [_L, _L] + _job('1/b') + [_L, _L] + _job('2/a') + [_L, _L] +
        _job('2/b') + [_L, _L, _L]),
    # succeeded without its required custom output: retained incomplete, frees the slot
    'incomplete-success-frees-slot': (
        _flow(_q('q', 1, ['a']), fcp=2, runahead=2, runtime='    [[a]]\n        [[[outputs]]]\n            x = xx\n',
              graph='a:x => b'),
        [_L] + _job('1/a') + [_L, _L, _L] + _job('2/a', ('started', 'xx', 'succeeded')) + [_L, _L] + _job('2/b') +
        [_L, _L, _L]),
    # limit 2: two members fail one after the other, the third and fourth are released as slots come free;
    # the last loops are a genuine stall (failed tasks, nothing can run)
    'limit-two-failures': (
        _flow(_q('q', 2, ['a', 'b', 'c', 'd']), graph='a & b & c & d', fcp=1, runahead=1),
        [_L, _L] + _job('1/a', _FAIL) + [_L, _L] + _job('1/b', _FAIL) + [_L, _L] + _job('1/c') + [_L] +
        _job('1/d') + [_L, _L, _L]),
    # a limited default queue next to a limited named queue; the failed default member does not block d
    'default-limited': (
        _flow(_q('default', 1) + _q('q', 1, ['a']), graph='a & c & d', fcp=2, runahead=2),
        [_L] + _job('1/a') + _job('1/c', _FAIL) + [_L, _L] + _job('1/d') + _job('2/a') + [_L, _L] +
        _job('2/c') + [_L, _L] + _job('2/d') + [_L, _L, _L]),
    # the head of a queue of limit 2 is held: it is skipped and takes no slot - the two tasks behind it are both
    # released by the next main loop
    'held-head-takes-no-slot': (
        _flow(_q('q', 2, ['a', 'b', 'c']), graph='a & b & c', fcp=1, runahead=1),
        [_CMD('pause'), _L, _CMD('hold', tasks=['1/a']), _CMD('resume'), _L] + _job('1/b') + _job('1/c') +
        [_L, _CMD('release', tasks=['1/a']), _L, _L] + _job('1/a') + [_L, _L, _L]),
    # a task waits for a non-zero retry delay while another task has finished incomplete and nothing is active: NOT a
    # stall (it runs again by itself); once the clock has moved on (tick) the retry is submitted
    'retry-delay-is-not-a-stall': (
        _flow(_q('q', 2, ['a', 'b']), graph='a & b', fcp=1, runahead=1,
              runtime='    [[b]]\n        execution retry delays = PT1H\n'),
        [_L] + _job('1/a', _FAIL) + _job('1/b', _FAIL) + [_L, _L, _L, {'op': 'tick', 'dt': 4000}, _L] +
        _job('1/b', sn=2) + [_L, _L, _L]),
    # a manually triggered task whose job fails with a retry lined up is submitted again (the manual-submit flag is
    # cleared when the first job is handed over); the second job runs behind the limit of its queue as any other
    'retry-of-a-triggered-task': (
        _flow(_q('q', 1, ['a', 'b']), graph='a & b', fcp=1, runahead=1,
              runtime='    [[a]]\n        execution retry delays = PT0S\n'),
        [_TRIG('1/a'), _L] + _job('1/a', _FAIL) + [_L, _L, _L] + _job('1/b') + [_L, _L] + _job('1/a', sn=2) +
        [_L, _L, _L]),
}
_POLICY = {'retry-delay-is-not-a-stall': {'vclock': True}, 'retry-of-a-triggered-task': {'live_submit': True}}


class C03Q(SchedProp):
    id = 'C03Q'
    report_id = 'C03'
    drv = 'C03Q'
    props_modules = ['CylcModel.Props.C03Q']
    theorems = [
        'CylcModel.C03Q.active_count_spec',
        'CylcModel.C03Q.finished_never_counts',
        'CylcModel.C03Q.no_slot_taken_without_job',
        'CylcModel.C03Q.queue_progress',
        'CylcModel.C03Q.release_progress',
        'CylcModel.C03Q.release_some_when_free_slot',
        'CylcModel.C03Q.released_is_launched',
        'CylcModel.C03Q.release_step_response',
        'CylcModel.C03Q.is_stalled_iff',
        'CylcModel.C03Q.stall_flag_only_if_stalled',
        'CylcModel.C03Q.no_stall_with_releasable',
        'CylcModel.C03Q.no_auto_shutdown_with_releasable',
        'CylcModel.C03Q.no_stall_while_retry_pending',
        'CylcModel.C03Q.tick_ends_every_delay',
        'CylcModel.C03Q.pending_timers_are_retries',
        'CylcModel.C03Q.manual_flag_cleared_at_submission',
        'CylcModel.C03Q.queue_if_ready_and_the_manual_flag',
        'CylcModel.C03Q.shutdown_sound',
        'CylcModel.C03Q.stall_sound',
        'CylcModel.C03Q.main_loop_response',
    ]
    statement_note = 'see evidence'      # filled in below
    technique = ('lemmas on the queue release functions and a frame pass over a Lean scheduler model with limited queues, '
                 'manual triggers and an explicit retry clock (Sched3QR over Sched3QT) + '
                 'trace correspondence with the real Scheduler + a monitor judge on the observed traces')
    trusted = ['the pool snapshot taken by the harness at the moment TaskPool.is_stalled returns True (runner '
               '_instrument_pool) and the prerequisite expressions of the extracted instance graph, which the judge '
               're-evaluates over the atom flags reported by the real proxies',
               'the queue table (name, limit, members after family expansion and _make_indep) is read off the real '
               'IndepQueueManager and is an input of the model and of the judge; its construction is the '
               'component-level half of C05']
    rule = ('generated integer-cycling workflows (2-6 tasks, 1-3 recurrences, AND/OR and inter-cycle triggers, stop '
            'points, runahead P1-P4 so that several cycles compete for a queue) with 1-3 internal queues and random '
            'overlapping memberships, driven through the real Scheduler by a seeded adaptive schedule; kinds: qf (limits '
            '1-2, no retries, mostly required success, every task fails / skips custom outputs with probability >= 0.3: '
            'finished-but-incomplete members stay in the pool while other members are queued), qa (limits 1-3, retries, '
            'failures, submit failures, duplicate / stale / out-of-order messages), qc (every job completes: automatic '
            'shutdown), cmdqf / cmdq (the same with hold / release, hold point, pause, stop point, stop + restart), qr '
            '(most tasks have execution / submission retries, about half of the retry delays are PT1H: the runner keeps a '
            'virtual clock for the retry timers that only the op tick advances, so tasks wait for a retry delay over '
            'several main loops while other tasks finish incomplete; observed per op: the tasks whose retry delay is not '
            'over, key rwait, predicted by the model), cmdqtr (the same with manual triggers of pooled tasks - `cylc '
            'trigger` of members of full / free queues, of queued tasks, of tasks that failed - holds and pause, and the '
            'prepared jobs handed over by the REAL submit_livelike_task_jobs: a triggered task whose job fails with a '
            'retry lined up must come back through its queue); eight hand-written histories run first (a failed / '
            'submit-failed / incomplete-succeeded member must free its slot; a held queue head takes no slot; a pending retry delay is not a stall; the '
            'retry of a triggered task is submitted); every automatic shutdown, every rise of the stall flag and every '
            'main loop of every run is judged; non-trivial = a limited queue held back a ready task over a main loop, or '
            'a task waited for a retry delay over a main loop, or a triggered task was retried; classes = (kind, ending, '
            'finished-task-in-pool-while-a-limited-queue-holds-tasks, retry-wait, retried-after-trigger, stall-event, '
            'launch count)')
    kinds = ('qf', 'qa', 'qr', 'qc', 'cmdqf', 'cmdqtr', 'cmdq', 'qr', 'qf', 'cmdqtr')
    n_quick = 48
    n_thorough = 600
    gen_opts = {'p_stop': 0.25}
    unmodelled = [
        'job submission / platforms / remote init (stub job runner: real prep_submit_task_jobs, launch recorded, '
        'outcome delivered by explicit ops; kind cmdqtr / qr: hand-over through the real submit_livelike_task_jobs '
        'with nothing reaching the process pool); with the stub a released task is prepared in the same main loop, so '
        'waiting_on_job_prep is observed at an operation boundary only after a manual trigger',
        'the static instance graph and the queue definitions are read off the real TaskDef / TaskProxy / '
        'IndepQueueManager objects and are inputs of the model (C13-C16, component-level C05)',
        'the wall clock: retry delays are either PT0S (over at the next sweep) or longer than any run (over after '
        'the next tick of the virtual clock); group triggers beyond pooled, pairwise unconnected tasks; reload, several '
        'flows, xtriggers other than retry timers, clock-expiry, datetime cycling, stop task; retry timers across a '
        'restart (the kinds with long delays do not restart)',
    ]

    def corpus(self):
        return [{'id': 'c03q-' + k, 'flow': flow, 'seed': 0, 'opts': {}, 'policy': dict(_POLICY.get(k, {})), 'ops': ops,
                 'kind': 'corpus'} for k, (flow, ops) in _CORPUS.items()]

    def translate(self):
        # the model builds on Sched3QT, whose probed behaviour flags (Generated/Sched3QTCfg.lean) are produced by the
        # C05S module: the same file, the same content, whichever check runs first
        import core
        return core.load_prop('C05S').translate()

    def impl_batch(self, inputs):
        # a start-up time-out of the scheduler's server thread (overloaded machine) says nothing about the
        # case: such cases are run again, on their own
        res = run_workers(inputs, self.workers)
        for _attempt in range(2):
            again = [k for k, r in enumerate(res) if 'error' in r and 'BrokenBarrierError' in r['error']]
            if not again:
                break
            for k, r in zip(again, run_workers([inputs[k] for k in again], 2)):
                res[k] = r
        return res

    def skip_case(self, inp, raw):
        if 'error' in raw and 'BrokenBarrierError' in raw['error']:
            raise Infra('scheduler server thread did not start within its time-out (overloaded machine?) '
                        f'in case {inp.get("id")}')
        return super().skip_case(inp, raw)

    def neighbours(self, inp, rng):
        # the same workflow under other schedules (the op list is regenerated by the adaptive policy)
        if inp.get('policy') is None or not inp.get('policy'):
            return []
        out = []
        for k in range(3):
            d = dict(inp)
            d['ops'] = None
            d['seed'] = rng.randrange(1 << 30)
            d['id'] = f'{inp.get("id")}-n{k}'
            out.append(d)
        return out

    def classify(self, inp, obs):
        if isinstance(obs, dict):
            return 'crash'
        ops = inp.get('ops') or []
        final = ('failed', 'submit-failed', 'succeeded', 'expired')
        bound = fin = False
        for k in range(1, len(obs)):
            b, a = obs[k - 1], obs[k]
            op = ops[k - 1] if k - 1 < len(ops) else {}
            if op.get('op') != 'loop':
                continue
            held = {(t['p'], t['n']) for t in b['pool'] if t['held']}
            for qb, qa in zip(b.get('qs', []), a.get('qs', [])):
                stay = [x for x in qa[2] if x in qb[2] and tuple(x) not in held]
                if qb[1] > 0 and stay:
                    bound = True          # a ready, not held task stayed queued over a main loop
        # a finished task sat in the pool while a limited queue held queued tasks
        for o in obs:
            fin_names = {t['n'] for t in o['pool'] if t['st'] in final}
            for q in o.get('qs', []):
                if q[1] > 0 and q[2] and fin_names:
                    fin = True
        # a task waited for a retry delay over a main loop; a manually triggered task was launched a second time
        rw = any(b.get('rwait') and op.get('op') == 'loop' for b, op in zip(obs, ops))
        trig = set()
        retrig = False
        for op, o in zip(ops, obs[1:]):
            if op.get('op') == 'cmd' and op.get('name') == 'force_trigger_tasks':
                trig |= {tuple(x) for x in o.get('man', [])}
            for p_, n_, sn_ in o['launch']:
                if sn_ > 1 and (p_, n_) in trig:
                    retrig = True
        if not (bound or rw or retrig):
            return None
        tags = [inp.get('kind', '?')]
        last = obs[-1]
        tags.append('stop' if last['stop'] else ('stalled' if last['stalled'] else 'cut'))
        if fin:
            tags.append('finished-while-queued')
        if rw:
            tags.append('retry-wait')
        if retrig:
            tags.append('retried-after-trigger')
        if any(o.get('stall_at') for o in obs):
            tags.append('stall-event')
        n = sum(len(o['launch']) for o in obs)
        tags.append('launch<5' if n < 5 else 'launch<15' if n < 15 else 'launch>=15')
        return '/'.join(tags)


C03Q.statement_note = (
    'proof over the Sched3QR model = Sched3QT (the model of C05S: scheduler core + holds / stop modes / stop point / stop '
    'task / pause / clean restart + limited internal queues + manual triggers of pooled tasks) with retry delays that '
    'are not over at once (explicit clock: the set of pending future retry timers, op tick), for every instance graph, '
    'every queue table, every state (reachable or not), every set of pending timers and every operation: (a) '
    'shutdown_sound - a scheduler that was not asked to stop (no stop mode, no stop task) raises the stop flag only in a '
    'main loop, with reason AUTOMATIC, in the pool the decision was taken on (after compute_runahead / '
    'release_runahead_tasks), and that pool has no preparing / submitted / running proxy, no released waiting proxy (so '
    'none waiting for a retry delay), no finished-incomplete proxy and no proxy within the stop point waiting on an '
    'output within the stop point - in particular no queue holds a ready task (no_auto_shutdown_with_releasable for '
    'check_auto_shutdown itself); (b) stall_sound - the stall flag is raised only by a main loop of a scheduler that is '
    'not paused, and only when TaskPool.is_stalled holds of the pool at the decision point or of the pool the loop ends '
    'in; is_stalled_iff - that is exactly: nothing preparing / submitted / running (so every queue has all its slots '
    'free), no released waiting proxy with satisfied prerequisites (so no queue holds a ready task: '
    'no_stall_with_releasable; and no task only waits for its retry delay: no_stall_while_retry_pending - whatever the '
    'retry xtrigger and the clock say), and some proxy incomplete or partially satisfied within the stop point; '
    'stall_flag_only_if_stalled for check_workflow_stalled; (c) bounded response with queue limits: active_count_spec - '
    'the number count_active_tasks / release_queued_tasks charge to a queue is exactly the number of pooled members that '
    'are preparing, submitted, running or released-awaiting-job-preparation; finished_never_counts / '
    'no_slot_taken_without_job - a waiting or finished (failed, submit-failed, succeeded, expired) proxy is never '
    'counted, the count equals the count in the pool without its finished proxies: finished-but-incomplete members '
    'retained in the pool never block their queue; queue_progress - the release loop of one queue leaves a task that is '
    'not held in the deque only if limit > 0 and counter + released >= limit; release_progress - the same for '
    'release_queued_tasks over all (independent) queues of a state satisfying the run invariants of C05S; '
    'release_some_when_free_slot - a queue with a free slot and a queued task that is not held releases at least one '
    'task; released_is_launched - every released waiting proxy is launched under its next submit number by the same '
    'release step; release_step_response - together; main_loop_response - over a WHOLE main loop (any pending timers) '
    'of a scheduler that is neither paused nor stopping: every proxy that sits in a queue after this loop\'s runahead '
    'release and clock-aware ready-sweep, is waiting and not held is in the launch log of this very loop under its next '
    'submit number, or its queue is at its limit counting the members preparing / submitted / running / awaiting '
    'preparation plus what this loop released from it; the clock: tick_ends_every_delay - a tick leaves no timer '
    'pending and with no timer pending the main loop is the zero-delay main loop of Sched3QT (its sweep satisfies '
    'every retry xtrigger), pending_timers_are_retries; the manual-submit flag: manual_flag_cleared_at_submission - '
    'the hand-over of a job clears it, queue_if_ready_and_the_manual_flag - queue_if_ready skips a proxy with the flag '
    'and queues a ready proxy without it (so the retry of a triggered task comes back through its queue). PARTIAL with '
    'respect to the property text: main_loop_response starts from "sits in a queue after the sweep"; that a task which '
    'is ready at the START of the loop sits in its queue after the sweep is not proved (it needs the invariant "queued '
    'flag = member of the deque of its queue", which an unsolicited job message breaks: finding '
    'unsolicited-message-activation of C05S) - the judge checks the start-of-loop statement on every real trace, '
    'retries and manual triggers included; independence of the queues is a hypothesis (component-level C05, checked on '
    'every run by the C05S judge); retry delays are PT0S or longer than the run, other xtriggers are not in the model; '
    'as in C03, a freshly spawned runahead-flagged ready task is ignored by is_stalled (finding stall-runahead-pending, '
    'witness theorem in Props/C03.lean)')

PROP = C03Q()
