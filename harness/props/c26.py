"""C26  Task pool bookkeeping is internally consistent."""
from __future__ import annotations

import sys
from pathlib import Path

sys.path.insert(0, str(Path(__file__).resolve().parents[1] / 'sched'))
from prop import SchedProp  # noqa: E402


class C26(SchedProp):
    id = 'C26'
    also = ['C26S']
    props_modules = ['CylcModel.Props.C26']
    theorems = [
        'CylcModel.C26.pool_no_duplicates',
        'CylcModel.C26.db_pool_exact',
        'CylcModel.C26.cache_inv',
        'CylcModel.C26.getTasks_exact',
    ]
    statement_note = (
        'proof over the Sched model (stage 1: intervention-free runs): no two proxies share (point, name) in any state of any '
        'run (inductive invariant over all op lists and instance graphs); the task_pool table equals the pool after '
        'every main loop that does not shut down; cycle buckets are never empty and the cached task list equals the '
        'contents whenever the changed-flag is down (PoolCache model, all add/remove/swap/get sequences). Partial: '
        'commands, reload and restart are not yet in the Sched model; that every mutation site of active_tasks raises '
        'the flag is tied by observation of the real dictionaries, not proved about the Python call sites')
    technique = 'inductive invariants over op lists of a Lean scheduler model + trace correspondence with the real Scheduler'
    trusted = ['SQLite (task_pool rows are read back with a second connection after each main loop)']
    rule = ('generated integer-cycling workflows (2-6 tasks, 1-3 recurrences, AND/OR triggers, inter-cycle offsets, optional and '
            'custom outputs, runahead P0-P3) driven through the real Scheduler by a seeded adaptive schedule of main loops, '
            'submit results and job messages (with failures, submit failures, duplicate/stale/out-of-order messages in the '
            '"any" kind); non-trivial = distinct (kind, ending, launch-count class, polls) class per distinct case')


PROP = C26()
