"""C46  Warm starts and start tasks run only what follows the start."""
from __future__ import annotations

import sys
from pathlib import Path

sys.path.insert(0, str(Path(__file__).resolve().parents[1] / 'sched'))
from prop import SchedProp  # noqa: E402
import gen as sgen  # noqa: E402


def _flow(graph, icp, fcp, rh):
    return f'''[scheduler]
    allow implicit tasks = True
[scheduling]
    cycling mode = integer
    initial cycle point = {icp}
    final cycle point = {fcp}
    runahead limit = P{rh}
    [[graph]]
{graph}
[runtime]
    [[root]]
        [[[simulation]]]
            default run length = PT0S
'''


def _case(cid, graph, startcp, icp=1, fcp=4, rh=2, seed=0, kind='complete', sequential=None):
    flow = _flow(graph, icp, fcp, rh)
    if sequential:
        flow = flow.replace('    [[graph]]', f'    [[special tasks]]\n        sequential = {sequential}\n    [[graph]]')
    return {'id': cid, 'flow': flow, 'seed': seed, 'opts': {'startcp': str(startcp)}, 'kind': kind,
            'policy': {'max_steps': 200, 'p_msg': 0.6, 'p_noise': 0.0, 'outcomes': {}}, 'ops': None}


def _start_case(cid, graph, ids, icp=1, fcp=4, rh=2, seed=0, kind='complete'):
    c = _case(cid, graph, 0, icp=icp, fcp=fcp, rh=rh, seed=seed, kind=kind)
    c['opts'] = {'starttask': list(ids)}
    return c


# minimal history of the recorded defect (also the witness in findings/C46.json)
WITNESS_SEQ = _case('c46-seq-parent', '        P1 = """\n b[-P1] => a\n b\n"""', 2, sequential='a')


class C46(SchedProp):
    id = 'C46'
    props_modules = ['CylcModel.Props.C46']
    theorems = [
        'CylcModel.C46.prestart_not_run',
        'CylcModel.C46.prestart_satisfied',
        'CylcModel.C46.prestart_only_ready',
        'CylcModel.C46.start_tasks_closure',
        'CylcModel.C46.start_tasks_loaded',
        'CylcModel.C46.start_tasks_prestart_not_run',
        'CylcModel.C46.start_tasks_prestart_satisfied',
    ]
    statement_note = (
        'proof over the Sched model v1 (intervention-free runs), for all instance graphs and all lists of main loops, '
        'submit results and job messages: prestart_not_run - every job launch, every pooled proxy and every DB-history '
        'row is at or after the start cycle point (no hypothesis); prestart_satisfied - if the instance graph follows '
        'the rule of Dependency.get_prerequisite (hypothesis preStartSatB: atoms pointing before the start point are '
        'initially satisfied on instances at or after it; the driver checks it on every extracted graph), every such '
        'atom of every pooled proxy is satisfied in every state; prestart_only_ready - a proxy whose conjunctive '
        'prerequisites only name pre-start instances never waits. Start-task starts are modelled as another start-up '
        'state of the same model (SchedStart.lean: initTasks = spawn_task + force-satisfy + add per start task; the real '
        'scheduler and the model agree on the generated start-task runs): start_tasks_closure - for all graphs, start '
        'tasks and op lists every launch and every pooled proxy is a start task, a graph child of one it leads to, or a '
        'next parentless instance of one; start_tasks_loaded - every start task spawn_task accepts is in the start-up '
        'pool; start_tasks_prestart_not_run / _satisfied - the two warm-start theorems for start-task runs. '
        'NOT proved, judged on the real scheduler only: (a) the start point itself (WorkflowConfig.process_start_cycle_point: '
        '--startcp, or the earliest start-task cycle) - configuration loading is an input of the model; the judge compares '
        'it with the command line; (b) liveness - a warm-started workflow that finishes (or stalls) has run every instance '
        'whose dependencies are all on pre-start instances, a start-task run has run its start tasks; this is FALSE for '
        'the current code for sequential tasks with graph parents (finding sequential-first-instance-never-spawned, repair '
        'findings/C46-fix-1.diff). Missing in Sched v1: manual triggering of pre-start instances '
        '(pre_start_tasks_to_trigger, "unless manually triggered"); restart of a warm-started workflow')
    technique = ('inductive invariant (generic Frame over the Sched primitives) lifted over op lists + trace correspondence '
                 'with the real Scheduler + judge on launches, pool statuses and prerequisite atoms')
    trusted = ['the instance graph (prerequisite atoms with their initial satisfied flags) is read off real TaskProxy objects '
               'built for every valid point; the judge checks the pre-start rule on it']
    rule = ('generated integer-cycling workflows (2-6 tasks, 1-3 recurrences, AND/OR triggers, -P1/-P2 inter-cycle offsets, '
            'absolute triggers ^ / ^+P1 / literal point, sequential tasks, suicide triggers, retries; inter-cycle offsets '
            '-P1..-P3; initial points 1, 3, 8, 98 so that cycle points cross 9->10 and 99->100), 70% started with '
            '--startcp after the initial point, every fourth case started with 1-3 --start-task ids in random cycles, '
            'driven through the real Scheduler by a seeded adaptive schedule; plus a fixed '
            'corpus of warm-start and start-task graphs; non-trivial = distinct (kind, warm/cold, ending, launch-count) class per distinct case')
    gen_opts = {'p_startcp': 0.7, 'p_abs': 0.25, 'abs_forms': ['^', '^+P1', 'icp+1'], 'p_intercycle': 0.5,
                'p_sequential': 0.2, 'max_span': 5,
                # initial points 8 and 98: the cycle points cross 9 -> 10 / 99 -> 100; offsets longer than one step
                'icp_choices': [1, 3, 3, 8, 8, 98], 'offsets': ['-P1', '-P2', '-P2', '-P3']}
    n_quick = 128
    n_thorough = 1500

    def corpus(self):
        return [
            _case('c46-chain', '        P1 = """\n a[-P1] => a => b\n"""', 3),
            _case('c46-or', '        P1 = """\n a[-P1] | b[-P2] => c\n a\n b\n"""', 3, icp=1, fcp=5),
            _case('c46-abs', '        P1 = """\n a[^] & b[-P1] => c\n a\n b\n"""', 2),
            _case('c46-abs1', '        P1 = """\n a[^+P1] => c\n a\n"""', 3),
            _case('c46-abs2', '        P1 = """\n a[^+P2] => c\n a\n"""', 2, rh=3),
            _case('c46-abs3', '        P1 = """\n a[3]:start | b[-P1] => c\n a\n b\n"""', 2, rh=3),
            WITNESS_SEQ,
            _case('c46-long-offset', '        P1 = """\n a\n a[-P2] => b\n b => c\n"""', 5, fcp=8, rh=2),
            _case('c46-long-offset-or', '        P1 = """\n a\n a[-P3] | d[-P2]:start => b\n d\n"""', 5, fcp=9, rh=1),
            _start_case('c46-start-tasks', '        P1 = """\n a => b => c\n"""', ['9/b', '10/c'], fcp=12),
            _start_case('c46-start-tasks-3', '        P1 = """\n a => b\n b[-P1] => c\n"""', ['100/a', '99/b', '101/c'],
                        icp=97, fcp=102),
            _case('c46-seq', '        P1 = """\n a => b\n"""', 2, sequential='a'),
            _case('c46-r1', '        R1 = """\n a\n"""\n        P1 = """\n a[^] => b\n b[-P1] => b\n"""', 2),
        ]

    # every fourth case is a start-task start (--start-task=ID ..., 1-3 ids in different cycles) of the same kind of
    # workflow; the model starts from `initTasks` (SchedStart.lean) instead of `load_from_point`
    def gen(self, tier, rng):
        import random
        import re
        # (start-task cases: '^' is the only absolute form - a future prerequisite offset such as foo[^+P1] makes
        # add_to_pool recompute the runahead limit at load time, which is outside Sched v1)
        st_opts = {k: v for k, v in self.gen_opts.items() if k != 'abs_forms'}
        for k, case in enumerate(super().gen(tier, rng)):
            if k % 4 == 3:
                case = sgen.gen_case(case['seed'], case['kind'], st_opts)
                r = random.Random(case['seed'] * 31 + 7)
                icp = int(re.search(r'initial cycle point = (\d+)', case['flow']).group(1))
                fcp = int(re.search(r'final cycle point = (\d+)', case['flow']).group(1))
                names = sorted((case['policy'].get('outcomes') or {}).keys())
                ids = []
                for _ in range(r.randint(1, 3)):
                    tid = f'{r.randint(icp, fcp)}/{r.choice(names)}'
                    if tid not in ids:
                        ids.append(tid)
                case = dict(case, id=case['id'] + 'st', opts={'starttask': ids})
            yield case

    @staticmethod
    def expected_start(inp):
        """the start point the command line asks for (None: the initial point)"""
        opts = inp.get('opts') or {}
        if opts.get('starttask'):
            return min(int(t.split('/')[0]) for t in opts['starttask'])
        if opts.get('startcp'):
            return int(opts['startcp'])
        return None

    def driver_input(self, inp, raw):
        d = super().driver_input(inp, raw)
        if 'crash' in d:
            return d
        want = self.expected_start(inp)
        if want is not None:
            d['expect_start'] = want
        st = (inp.get('opts') or {}).get('starttask')
        if st:
            d['start_tasks'] = [[int(t.split('/')[0]), t.split('/')[1]] for t in st]
        return d

    def classify(self, inp, obs):
        base = super().classify(inp, obs)
        if isinstance(obs, dict):
            return base
        o = inp.get('opts') or {}
        warm = 'start-tasks' if o.get('starttask') else 'warm' if o.get('startcp') else 'cold'
        return f'{warm}/{base}'


PROP = C46()
