"""C29  Manually set outputs behave like naturally completed outputs (`cylc set`)."""
from __future__ import annotations

import sys
from pathlib import Path

sys.path.insert(0, str(Path(__file__).resolve().parents[1] / 'sched'))
sys.path.insert(0, str(Path(__file__).resolve().parent))
import prop as sprop  # noqa: E402
from prop import SchedProp  # noqa: E402
import _s3set  # noqa: E402


class C29(SchedProp):
    id = 'C29'
    props_modules = ['CylcModel.Props.C29']
    theorems = [
    ]
    statement_note = 'TODO'
    technique = ('line-by-line Lean port of `cylc set` + flows into the scheduler model (Sched3Set), trace correspondence with '
                 'the real Scheduler (pool, flows, flow-wait, committed task_states/task_outputs rows after every operation), '
                 'a monitor judge on the observed traces, lemmas per primitive')
    trusted = [
        'SQLite (the committed rows of task_states / task_outputs are read back after every operation; INSERT OR REPLACE, '
        'primary-key index order of SELECT)',
        'behaviour flags probed from the live code by translate(): setSubmitFailedWorks, dbRowPerFlowSet '
        '(harness/props/_s3set.py)',
        'the runner instrumentation of process_message / TaskPool.remove (observation keys msgs, removed)',
    ]
    unmodelled = SchedProp.unmodelled[:2] + [
        'datetime cycling, xtriggers (`--pre=xtrigger/...`), `--out=skip`, clock-expiry, queue limits, task globs / several '
        'task ids in one `cylc set` command, `cylc set` with the default flow while no pooled task has a flow (falls back '
        'to time stamps in the DB), cylc trigger / remove / reload',
    ]
    rule = ('generated integer-cycling workflows (2-6 tasks, 1-3 recurrences, AND/OR triggers, inter-cycle offsets, retries, '
            'optional/custom outputs, suicide and absolute triggers, sequential tasks, runahead P0-P3) driven through the real '
            'Scheduler by a seeded adaptive schedule of main loops, submit results and job messages mixed (p = 0.1-0.25 per '
            'step) with `cylc set` commands: outputs (none given / 1-3 standard or custom outputs / unknown names) or '
            'prerequisites (all / 1-2 of the task\'s / not of the task) on one pooled or not-yet-spawned instance in any state, '
            'with --flow default / new / none / numbers and --wait, plus hold, release, hold point, pause, stop + restart '
            '(kind set: jobs complete their required outputs; kind setany: failures, submit failures, missing outputs, '
            'duplicate / stale / out-of-order messages); 17 hand-written histories (no-flow tasks, flow wait, re-run in a new '
            'flow, transient parents, joins); non-trivial = distinct class (kind, ending, which set variants occurred on '
            'pooled / inactive targets, merges, flow-wait, restart with several flows) per distinct case')
    kinds = ('set', 'setany')
    n_quick = 64
    n_thorough = 720

    def translate(self):
        return _s3set.translate_flags()

    def corpus(self):
        return _s3set.corpus_cases()

    def impl_batch(self, inputs):
        return _s3set.retry_flakes(sprop.run_workers, inputs, sprop.run_workers(inputs, self.workers))

    def classify(self, inp, obs):
        if isinstance(obs, dict):
            return 'crash'
        ops = inp.get('ops') or []
        tags = [inp.get('kind', '?')]
        last = obs[-1]
        tags.append('stop' if last['stop'] else ('stalled' if last['stalled'] else 'cut'))
        seen = set()
        for k, op in enumerate(ops):
            if op.get('op') == 'cmd' and op.get('name') == 'set_prereqs_and_outputs' and k < len(obs):
                a = op['args']
                p, n = a['tasks'][0].split('/')
                pooled = any((t['p'], t['n']) == (int(p), n) for t in obs[k]['pool'])
                fl = a.get('flow') or []
                seen.add(('pre' if a.get('prerequisites') else 'out') + ('P' if pooled else 'I')
                         + ('' if not fl else '+' + (fl[0] if fl[0] in ('new', 'none') else 'n'))
                         + ('w' if a.get('flow_wait') else ''))
            if op.get('op') == 'restart' and k < len(obs) and any(t['fl'] != [1] for t in obs[k]['pool']):
                seen.add('restart-flows')
        if any(o.get('fw') for o in obs):
            seen.add('fw')
        if any(len(t['fl']) > 1 for o in obs for t in o['pool']):
            seen.add('merged')
        if any(t['fl'] == [] for o in obs for t in o['pool']):
            seen.add('noflow')
        tags.append(','.join(sorted(seen)) or 'no-set')
        return '/'.join(tags)


PROP = C29()
