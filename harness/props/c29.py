"""C29  Manually set outputs behave like naturally completed outputs (`cylc set`)."""
from __future__ import annotations

import sys
from pathlib import Path

sys.path.insert(0, str(Path(__file__).resolve().parents[1] / 'sched'))
sys.path.insert(0, str(Path(__file__).resolve().parent))
import prop as sprop  # noqa: E402
from prop import SchedProp  # noqa: E402
import _s3set  # noqa: E402


_XFLOW = '''[scheduler]
    allow implicit tasks = True
[scheduling]
    cycling mode = integer
    initial cycle point = 1
    final cycle point = 1
    runahead limit = P1
    [[graph]]
        P1 = """
%s
        """
[runtime]
    [[root]]
        [[[simulation]]]
            default run length = PT0S
    [[a]]
%s
'''


def xtrig_cases():
    """hand-written histories of a task that waits behind a retry xtrigger (`_cylc_retry_<point>_<name>` after a failed
    job, `_cylc_submit_retry_<point>_<name>` after a failed submission, retry delays of one hour) and a `cylc set
    --pre=xtrigger/...` command"""
    from _s3set import S, L, RESTART, sub, msg, run_ok

    def xcase(cid, ops, exe='PT1H', subm=None, graph='a => b'):
        g = '\n'.join('            ' + ln.strip() for ln in graph.split(';'))
        cfg = ''
        if exe:
            cfg += f'        execution retry delays = {exe}\n'
        if subm:
            cfg += f'        submission retry delays = {subm}\n'
        return {'id': cid, 'flow': _XFLOW % (g, cfg), 'seed': 0, 'opts': {}, 'policy': {}, 'ops': ops, 'kind': 'corpus'}

    fail1 = [L, sub('1/a'), msg('1/a', 'started'), msg('1/a', 'failed'), L, L]
    subfail1 = [L, sub('1/a', ok=False), L, L]
    EX, SB = 'xtrigger/_cylc_retry_1_a', 'xtrigger/_cylc_submit_retry_1_a'
    return [
        # the carried label, `xtrigger/all`: the retry is submitted by the next main loop
        xcase('s3x-exec-named', [*fail1, S('1/a', pre=[EX]), L, *run_ok('1/a', 2), L, L]),
        xcase('s3x-exec-named-suffix', [*fail1, S('1/a', pre=[EX + ':succeeded']), L, *run_ok('1/a', 2), L, L]),
        xcase('s3x-exec-all', [*fail1, S('1/a', pre=['xtrigger/all']), L, *run_ok('1/a', 2), L, L]),
        xcase('s3x-sub-named', [*subfail1, S('1/a', pre=[SB]), L, *run_ok('1/a', 2), L, L], exe=None, subm='PT1H'),
        xcase('s3x-sub-all', [*subfail1, S('1/a', pre=['xtrigger/all']), L, *run_ok('1/a', 2), L, L], exe=None, subm='PT1H'),
        # `--pre=all` means the task prerequisites; labels the task does not carry; then the carried one among others
        xcase('s3x-not-carried', [*fail1, S('1/a', pre=['all']), L, S('1/a', pre=[SB]), L, S('1/a', pre=['xtrigger/nope']), L,
                                  S('1/a', pre=['xtrigger/nope', EX, '1/a:succeeded']), L, *run_ok('1/a', 2), L, L]),
        # both retry xtriggers on one proxy: the submission retry first, the execution retry next
        xcase('s3x-both', [*subfail1, S('1/a', pre=[SB]), L, sub('1/a', 2), msg('1/a', 'started', 2), msg('1/a', 'failed', 2),
                           L, L, S('1/a', pre=[SB]), L, S('1/a', pre=[EX]), L, *run_ok('1/a', 3), L, L], subm='PT1H'),
        # two retries: the xtrigger is reset by the second failure
        xcase('s3x-twice', [*fail1, S('1/a', pre=[EX]), L, sub('1/a', 2), msg('1/a', 'started', 2), msg('1/a', 'failed', 2),
                            L, L, S('1/a', pre=['xtrigger/all']), L, *run_ok('1/a', 3), L, L], exe='2*PT1H'),
        # a task with a prerequisite and a retry xtrigger in flow 2; outputs set on a waiting retry; zero delays
        xcase('s3x-flow', [*fail1, S('1/a', pre=[EX], flow=['2']), L, *run_ok('1/a', 2), L, L]),
        xcase('s3x-set-out', [*fail1, S('1/a', out=['succeeded']), L, L]),
        xcase('s3x-zero-delay', [*fail1, *run_ok('1/a', 2), L, L], exe='PT0S'),
        xcase('s3x-restart', [*fail1, *RESTART, L, L]),
        # not in the pool: `xtrigger/all` spawns it, a label does not
        xcase('s3x-inactive', [S('1/b', pre=[EX]), L, S('1/b', pre=['xtrigger/all']), L, L]),
    ]


def suicide_cases():
    """hand-written histories of `cylc set --pre` on a task that has a suicide trigger (`a:fail? => !b`): the suicide
    prerequisite is not a prerequisite of the task - `--pre=all` leaves it unsatisfied, and the task survives the
    success of `a`"""
    from _s3set import S, L, sub, msg, run_ok, case
    return [
        # not in the pool yet: spawned by the command; 1/a succeeds later, 1/b runs, 1/c follows
        case('s3s-all-inactive', 'a? => b => c; a:fail? => !b',
             [L, sub('1/a'), msg('1/a', 'started'), L, S('1/b', pre=['all']), L, msg('1/a', 'succeeded'), L, L,
              *run_ok('1/b'), L, L, L]),
        # in the pool, waiting for 1/a
        case('s3s-all-pooled', 'a? & d => b => c; a:fail? => !b',
             [L, *run_ok('1/d'), L, sub('1/a'), msg('1/a', 'started'), L, S('1/b', pre=['all']), L,
              msg('1/a', 'succeeded'), L, L, *run_ok('1/b'), L, L]),
        # the suicide atom named: not a prerequisite of 1/b; one real prerequisite named
        case('s3s-named', 'a? & d => b => c; a:fail? => !b',
             [L, *run_ok('1/d'), L, S('1/b', pre=['1/a:failed']), L, S('1/b', pre=['1/a:succeeded']), L,
              sub('1/a'), msg('1/a', 'started'), msg('1/a', 'succeeded'), L, L, L]),
        # the natural course: 1/a fails, the suicide trigger removes 1/b although its prerequisites were set
        case('s3s-fail', 'a? & d => b => c; a:fail? => !b',
             [L, *run_ok('1/d'), L, S('1/b', pre=['all']), sub('1/a'), msg('1/a', 'started'), msg('1/a', 'failed'), L, L, L]),
        # `cylc set --out` on the parent: the suicide prerequisite is satisfied naturally by the forced output
        case('s3s-out-failed', 'a? & d => b => c; a:fail? => !b',
             [L, *run_ok('1/d'), L, S('1/a', out=['failed']), L, L]),
    ]


def noflow_cases():
    """outputs completed in no flow (`--flow=none`) on a task that is not in the pool do not count as complete in a real
    flow: the same command in flow 1 (explicit / default) completes them there and spawns the children"""
    from _s3set import S, L, run_ok, case
    return [
        case('s3n-none-then-1', 'a => b => c', [S('1/b', out=['succeeded'], flow=['none']), L,
                                                 S('1/b', out=['succeeded'], flow=['1']), L, L, L]),
        case('s3n-none-then-default', 'a => b => c; b:start => d', [L, S('1/b', out=['started'], flow=['none']), L,
                                                                     S('1/b', out=['started']), L, S('1/b'), L, L]),
        case('s3n-none-then-new', 'a => b => c', [S('1/b', flow=['none']), L, S('1/b', flow=['new']), L, L]),
    ]


class C29(SchedProp):
    id = 'C29'
    props_modules = ['CylcModel.Props.C29']
    theorems = [
        'CylcModel.C29.set_prereqs_keeps_atoms',
        'CylcModel.C29.set_prereqs_only_requested',
        'CylcModel.C29.set_pre_pooled',
        'CylcModel.C29.set_pre_keeps_suicide',
        'CylcModel.C29.set_pre_pooled_keeps_suicide',
        'CylcModel.C29.valid_xtrigs_are_carried',
        'CylcModel.C29.carried_xtrigs_are_valid',
        'CylcModel.C29.set_xtrigs_keeps_labels',
        'CylcModel.C29.set_xtrigs_pooled',
        'CylcModel.C29.set_xtrigs_all',
        'CylcModel.C29.set_xtrig_named_exec',
        'CylcModel.C29.set_xtrig_named_sub',
        'CylcModel.C29.long_retry_waits',
        'CylcModel.C29.valid_prereqs_are_own',
        'CylcModel.C29.set_no_valid_prereq_noop',
        'CylcModel.C29.all_prereqs_set_satisfied',
        'CylcModel.C29.ready_is_queued',
        'CylcModel.C29.ready_task_is_launched',
        'CylcModel.C29.child_prereq_satisfied',
        'CylcModel.C29.pooled_child_prereq_satisfied',
        'CylcModel.C29.set_launches_nothing',
        'CylcModel.C29.set_frame',
        'CylcModel.C29.set_creates_no_active_status',
        'CylcModel.C29.set_never_makes_active',
        'CylcModel.C29.set_active_cover',
        'CylcModel.C29.forced_started_keeps_status',
        'CylcModel.C29.forced_submitted_keeps_status',
        'CylcModel.C29.forced_succeeded_status',
        'CylcModel.C29.forced_expired_status',
        'CylcModel.C29.reset_status',
        'CylcModel.C29.set_submit_failed',
    ]
    statement_note = (
        'partial: proofs over the Sched3X model (Sched3Set - scheduler core + flows + `cylc set`, a line-by-line port - plus '
        'the retry xtriggers a proxy carries) for all instance graphs and all states. PROVED - xtrigger prerequisites '
        '(`--pre=xtrigger/<label>`): the requested labels that count are exactly `all` and the labels the live proxy carries, '
        'the dynamic retry xtriggers included - none is rejected, none is invented (valid_xtrigs_are_carried, '
        'carried_xtrigs_are_valid, set_xtrigs_keeps_labels); on a pooled task, through the flow merge, each carried retry '
        'xtrigger is satisfied afterwards iff it was before, or was named, or xtrigger/all was given (set_xtrigs_pooled); '
        'with xtrigger/all, or with the one unsatisfied label named, the proxy waits for no retry any more '
        '(set_xtrigs_all, set_xtrig_named_exec, set_xtrig_named_sub) and is then launched by the next sweep + submit step '
        '(ready_task_is_launched, whose readiness hypothesis now includes the xtriggers); an unsatisfied retry xtrigger of '
        'non-zero delay is not satisfied by the clock check (long_retry_waits). NOT PROVED for xtriggers: graph-declared '
        '(clock / custom function) xtriggers are not modelled at all - only the two retry xtriggers per proxy, with delays '
        'abstracted to zero / never-over-within-the-run; that force_satisfy_all runs when the task begins submission and '
        'that a restart drops the retry xtriggers are modelled and tied by the correspondence, not stated as theorems. '
        'PROVED - suicide prerequisites: what `cylc set --pre` does to a proxy (any prerequisites, --pre=all included, any '
        'xtriggers) leaves its suicide prerequisites exactly as they were, also through the flow merge of a pooled task '
        '(set_pre_keeps_suicide, set_pre_pooled_keeps_suicide; the valid prerequisites of an instance exclude them: '
        'valid_prereqs_are_own over TaskDef.get_prereqs; for a task spawned by the command the judge checks it on every trace). '
        'PROVED - prerequisites: force_satisfy keeps every prerequisite\'s atoms and expression and '
        'satisfies exactly the requested atoms (all with --pre=all), nothing else (set_prereqs_keeps_atoms, '
        'set_prereqs_only_requested); the requested atoms that count are those among the instance\'s graph prerequisites '
        '(valid_prereqs_are_own); `cylc set --pre` on a pooled task leaves it pooled with exactly these prerequisites changed, '
        'through the flow merge (set_pre_pooled); a command naming no prerequisite of the task changes neither pool, transient '
        'objects, database rows / queue nor hold record (set_no_valid_prereq_noop); with --pre=all every well-formed '
        'prerequisite is satisfied; a waiting, released, unheld proxy with satisfied prerequisites is queued by the '
        'queue-if-ready sweep and launched under its next submit number by the release/submit step '
        '(all_prereqs_set_satisfied, ready_is_queued, ready_task_is_launched). PROVED - children: when spawn_on_output (natural or forced, pooled or transient parent) has the child of an output in hand (found in the pool or spawned) the child is pooled afterwards only with every occurrence of that prerequisite atom satisfied (child_prereq_satisfied, pooled_child_prereq_satisfied; that it carries the parent\'s flows is C08S). PROVED - never submitted/running: `cylc set` (any options, any state) '
        'launches no job, requests no poll and leaves the message queue, stop / pause / stall state, runahead limit, hold '
        'point, stop point and stop task alone (set_launches_nothing, set_frame: frame lemma through every primitive incl. '
        'process_message(forced), spawn_on_output, merge_flows, spawn_task, remove); and it creates NO submitted / running '
        'status: a proxy that is submitted or running in the pool after the command was so before, as the proxy / transient '
        'object of that instance or in a committed or queued row of its database history, from which spawn_task re-creates '
        'proxies with the recorded status (set_creates_no_active_status, set_never_makes_active, set_active_cover: an '
        'invariant proved primitive by primitive over pool, transient objects, rows and the DB queue); the forced branches '
        'of process_message store the proxy with its status unchanged (started, submitted) or reset to exactly succeeded / '
        'expired (forced_*_status, reset_status). FINDING set-submit-failed-ignored as a theorem per value of the probed flag '
        '(set_submit_failed: on the unrepaired code `cylc set --out=submit-failed` changes nothing; repaired: output complete, '
        'child spawned). NOT PROVED (checked by the judge on every real trace, and tied by the correspondence): that the '
        'requested outputs and their implied outputs are complete on the proxy / in the DB after the command, that exactly '
        'the children of the newly completed outputs are spawned with those prerequisite atoms satisfied (the flow half - '
        'children carry the parent\'s flows - is proved in C08S), the default output set, and the steps of _main_loop around '
        'sweep + submit (ready_task_is_launched proves that the queue-if-ready sweep followed by the release/submit step '
        'launches a ready task under its next submit number; that the runahead / shutdown prelude of the same loop keeps '
        'the task ready is not proved).')
    technique = ('line-by-line Lean port of `cylc set` + flows + retry xtriggers into the scheduler model (Sched3X, a copy of '
                 'Sched3Set grown by the xtriggers a proxy carries), trace correspondence with '
                 'the real Scheduler (pool, flows, flow-wait, xtriggers of every pooled task, committed task_states/task_outputs rows after every operation), '
                 'a monitor judge on the observed traces, lemmas per primitive')
    trusted = [
        'SQLite (the committed rows of task_states / task_outputs are read back after every operation; INSERT OR REPLACE, '
        'primary-key index order of SELECT)',
        'behaviour flags probed from the live code by translate(): setSubmitFailedWorks, dbRowPerFlowSet '
        '(harness/props/_s3set.py)',
        'the runner instrumentation of process_message / TaskPool.remove (observation keys msgs, removed)',
    ]
    unmodelled = SchedProp.unmodelled[:2] + [
        'datetime cycling, graph-declared xtriggers (the dynamic retry xtriggers are modelled; `--pre=xtrigger/...` is '
        'generated on them), retry delays other than PT0S / PT1H (a non-zero delay is never over within a run), `--out=skip`, clock-expiry, queue limits, task globs / several '
        'task ids in one `cylc set` command, `cylc set` with the default flow while no pooled task has a flow (falls back '
        'to time stamps in the DB), cylc trigger / remove / reload',
    ]
    rule = ('generated integer-cycling workflows (2-6 tasks, 1-3 recurrences, AND/OR triggers, inter-cycle offsets, retries, '
            'optional/custom outputs, suicide and absolute triggers, sequential tasks, runahead P0-P3) driven through the real '
            'Scheduler by a seeded adaptive schedule of main loops, submit results and job messages mixed (p = 0.1-0.25 per '
            'step) with `cylc set` commands: outputs (none given / 1-3 standard or custom outputs / unknown names) or '
            'prerequisites (all / 1-2 of the task\'s / not of the task / xtrigger prerequisites: the retry xtrigger the target '
            'carries, xtrigger/all, a retry label it does not carry, an unknown label - alone or mixed with task '
            'prerequisites; retry delays are PT1H with p = 0.6 per line so that failed tasks wait behind their retry '
            'xtrigger, and such tasks are preferred targets; suicide triggers `x:fail? => !t` next to the triggers of t with '
            'p = 0.6, and with p = 0.4 a --pre command is aimed at an instance that has suicide prerequisites, mostly with '
            '--pre=all) on one pooled or not-yet-spawned instance in any state, '
            'with --flow default / new / none / numbers and --wait, plus hold, release, hold point, pause, stop + restart '
            '(kind set: jobs complete their required outputs; kind setany: failures, submit failures, missing outputs, '
            'duplicate / stale / out-of-order messages; option nf2: 30% of the --out commands are a --flow=none set of an instance that is not in the pool, repeated with p = 0.7 by the next --out command on the same instance in a real flow); 38 hand-written histories (3 of a no-flow set followed by the same set in a real flow; no-flow tasks, flow wait, re-run in a new '
            'flow, transient parents, joins; 5 of `cylc set --pre` on a task with a suicide trigger; 13 of a task waiting behind an execution / submission retry xtrigger and '
            '`cylc set --pre=xtrigger/<label>`, xtrigger/all, all, labels not carried, both xtriggers, restart); non-trivial = distinct class (kind, ending, which set variants occurred on '
            'pooled / inactive targets, merges, flow-wait, restart with several flows) per distinct case')
    kinds = ('set', 'setany')
    gen_opts = {'xtrig': True, 'suic': True, 'nf2': True}
    n_quick = 48
    n_thorough = 720

    def translate(self):
        return _s3set.translate_flags()

    def corpus(self):
        return _s3set.corpus_cases() + xtrig_cases() + suicide_cases() + noflow_cases()

    def impl_batch(self, inputs):
        return _s3set.retry_flakes(sprop.run_workers, inputs, _s3set.run_robust(sprop.run_workers, inputs, self.workers))

    def equal(self, model_out, obs):
        # a run in which the real scheduler raised the exception of a recorded finding (datastore-graph-depth) has no
        # model counterpart: it is judged (KNOWN-FINDING), not compared; any other exception is a disagreement
        if isinstance(obs, dict) and 'crash' in obs:
            return 'graph_depth' in obs['crash']
        return super().equal(model_out, obs)

    def classify(self, inp, obs):
        if isinstance(obs, dict):
            return 'crash'
        ops = inp.get('ops') or []
        tags = [inp.get('kind', '?')]
        last = obs[-1]
        tags.append('stop' if last['stop'] else ('stalled' if last['stalled'] else 'cut'))
        seen = set()
        for k, op in enumerate(ops):
            if op.get('op') == 'cmd' and op.get('name') == 'set_prereqs_and_outputs' and k < len(obs):
                a = op['args']
                p, n = a['tasks'][0].split('/')
                pooled = any((t['p'], t['n']) == (int(p), n) for t in obs[k]['pool'])
                fl = a.get('flow') or []
                pres = a.get('prerequisites') or []
                if pres and any((x[0], x[1]) == (int(p), n) for x in obs[k + 1].get('suip', [])) if k + 1 < len(obs) else False:
                    seen.add('presui' + ('-all' if pres == ['all'] else ''))
                if any(q.startswith('xtrigger/') for q in pres):
                    unsat = [x[2] for x in obs[k].get('xtr', []) if (x[0], x[1]) == (int(p), n) and not x[3]]
                    named = [q.split('/', 1)[1].split(':')[0] for q in pres if q.startswith('xtrigger/')]
                    seen.add('xpre' + ('-hit' if any(q in unsat or (q == 'all' and named == ['all']) for q in named) and unsat
                                       else '-wait' if unsat else ''))
                seen.add(('pre' if a.get('prerequisites') else 'out') + ('P' if pooled else 'I')
                         + ('' if not fl else '+' + (fl[0] if fl[0] in ('new', 'none') else 'n'))
                         + ('w' if a.get('flow_wait') else ''))
            if op.get('op') == 'restart' and k < len(obs) and any(t['fl'] != [1] for t in obs[k]['pool']):
                seen.add('restart-flows')
        if any(o.get('fw') for o in obs):
            seen.add('fw')
        if any(len(t['fl']) > 1 for o in obs for t in o['pool']):
            seen.add('merged')
        if any(t['fl'] == [] for o in obs for t in o['pool']):
            seen.add('noflow')
        tags.append(','.join(sorted(seen)) or 'no-set')
        return '/'.join(tags)


PROP = C29()
