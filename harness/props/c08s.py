"""C08S  Flow numbers at scheduler level: children inherit, merges give the union, no re-run in a flow.

(The flow-manager half of C08 - fresh numbers across restarts - is harness/props/c08.py; the coordinator merges the
two manifest entries.)"""
from __future__ import annotations

import sys
from pathlib import Path

sys.path.insert(0, str(Path(__file__).resolve().parents[1] / 'sched'))
sys.path.insert(0, str(Path(__file__).resolve().parent))
import prop as sprop  # noqa: E402
from prop import SchedProp  # noqa: E402
import _s3set  # noqa: E402
from c29 import C29  # noqa: E402


class C08S(SchedProp):
    id = 'C08S'
    drv = 'C08S'
    props_modules = ['CylcModel.Props.C08Sched']
    theorems = [
    ]
    statement_note = 'TODO'
    technique = C29.technique
    trusted = C29.trusted
    unmodelled = C29.unmodelled
    rule = C29.rule
    kinds = ('set', 'setany')
    n_quick = 64
    n_thorough = 720

    def translate(self):
        return _s3set.translate_flags()

    def corpus(self):
        return _s3set.corpus_cases()

    def impl_batch(self, inputs):
        return _s3set.retry_flakes(sprop.run_workers, inputs, sprop.run_workers(inputs, self.workers))

    classify = C29.classify


PROP = C08S()
