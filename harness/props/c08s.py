"""C08S  Flow numbers at scheduler level: children inherit, merges give the union, no re-run in a flow.

(The flow-manager half of C08 - fresh numbers across restarts - is harness/props/c08.py; the coordinator merges the
two manifest entries.)"""
from __future__ import annotations

import sys
from pathlib import Path

sys.path.insert(0, str(Path(__file__).resolve().parents[1] / 'sched'))
sys.path.insert(0, str(Path(__file__).resolve().parent))
import prop as sprop  # noqa: E402
from prop import SchedProp  # noqa: E402
import _s3set  # noqa: E402
from c29 import C29  # noqa: E402


class C08S(SchedProp):
    id = 'C08S'
    report_id = 'C08'
    drv = 'C08S'
    props_modules = ['CylcModel.Props.C08Sched']
    theorems = [
        'CylcModel.C08S.child_inherits',
        'CylcModel.C08S.children_inherit',
        'CylcModel.C08S.children_inherit_pooled',
        'CylcModel.C08S.child_loop_flows_grow',
        'CylcModel.C08S.merge_union',
        'CylcModel.C08S.fUnion_is_union',
        'CylcModel.C08S.merge_same_noop',
        'CylcModel.C08S.spawn_in_given_flows',
        'CylcModel.C08S.no_rerun_in_flow',
        'CylcModel.C08S.flow_invariant_all_runs',
        'CylcModel.C08S.new_flow_is_fresh',
        'CylcModel.C08S.command_flows_registered',
    ]
    statement_note = (
        'partial: proofs over the Sched3Set model (scheduler core + flows + `cylc set`) for all instance graphs and all '
        'states. PROVED: child_inherits - in the child loop of spawn_on_output (parent = pooled proxy or transient object of '
        '`cylc set`) a child that is in the pool after its turn carries every flow number of the parent; a child that was '
        'not in the pool carries exactly the parent\'s flows; an existing instance keeps its own flows too (union); later '
        'children of the loop only add flow numbers and pooled instances stay pooled (children_inherit, '
        'children_inherit_pooled, child_loop_flows_grow). merge_union - merge_flows(x, f) leaves at x\'s key a proxy with '
        'exactly x.flows U f and every other pooled proxy untouched; merging nothing / the same flows is a no-op. '
        'spawn_in_given_flows - spawn_task (incl. the recursive spawning for finished tasks whose flow wait ends) leaves the '
        'pooled proxies alone, and every proxy it adds or returns has exactly the flows given. no_rerun_in_flow - spawn_task '
        'returns no proxy when the DB history of the instance in the given flows ends in a final status and the outputs '
        'recorded for these flows satisfy the completion condition. RUN INVARIANT, proved primitive by primitive and lifted '
        'over all op lists (flow_invariant_all_runs): in every state of every run (any graph; main loops, submit results, '
        'messages, hold / stop / pause commands, `cylc set` with any --flow option, restarts) every flow number carried by a '
        'pooled proxy or transient object is in the workflow_flows table, known flows are in the table, every number of the '
        'table is <= the counter or a known flow; hence (new_flow_is_fresh) the number --flow=new gets is carried by no '
        'proxy and is not in the table - the scheduler-level half of C08\'s last sentence, restarts included. NOT PROVED '
        'as theorems: that every output completion reaches spawn_on_output in a whole run, and that suicide removal / '
        'remove_if_complete after the child loop keep the children\'s flows (removal only); that database ROWS carry only '
        'registered numbers (the invariant covers proxies, not rows); these are checked by the judge on every real trace (child-lacks-parent-flow, flows-shrank, '
        'flow-from-nowhere, rerun-in-flow, flow-number-reused) and tied by the correspondence.')
    technique = C29.technique
    trusted = C29.trusted
    unmodelled = C29.unmodelled
    rule = C29.rule
    kinds = ('set', 'setany')
    n_quick = 48
    n_thorough = 720

    def translate(self):
        return _s3set.translate_flags()

    def corpus(self):
        return _s3set.corpus_cases()

    def impl_batch(self, inputs):
        return _s3set.retry_flakes(sprop.run_workers, inputs, _s3set.run_robust(sprop.run_workers, inputs, self.workers))

    def equal(self, model_out, obs):
        # a run in which the real scheduler raised the exception of a recorded finding (datastore-graph-depth) has no
        # model counterpart: it is judged (KNOWN-FINDING), not compared; any other exception is a disagreement
        if isinstance(obs, dict) and 'crash' in obs:
            return 'graph_depth' in obs['crash']
        return super().equal(model_out, obs)

    classify = C29.classify


PROP = C08S()
