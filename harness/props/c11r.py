"""C11R  Stop + restart keeps what the completion decision (C11) and the continued run read, on runs with `cylc set`,
`cylc trigger --flow=N --wait`, several flows and merges (Sched3Set model).

(The component half of C11 is harness/props/c11.py, the Sched v1 half harness/props/c11s.py; the coordinator merges
the manifest entries / adds `also`.)"""
from __future__ import annotations

import sys
from pathlib import Path

sys.path.insert(0, str(Path(__file__).resolve().parents[1] / 'sched'))
sys.path.insert(0, str(Path(__file__).resolve().parent))
import prop as sprop  # noqa: E402
from prop import SchedProp  # noqa: E402
import gen as sgen  # noqa: E402
import _s3set  # noqa: E402
from _s3set import S, L, RESTART, run_ok, sub, msg, case  # noqa: E402
from c29 import C29  # noqa: E402

STOP_NOW = [{'op': 'cmd', 'name': 'stop', 'args': {'mode': 'REQUEST(NOW)'}}, L, {'op': 'restart'}]


def T(tasks, flow=(), wait=False):
    return {'op': 'cmd', 'name': 'force_trigger_tasks',
            'args': {'tasks': list(tasks), 'flow': list(flow), 'flow_wait': wait}}


def corpus_cases():
    c = []
    # flow wait over a restart: the task triggered / set with --wait keeps waiting for the merge after the restart
    c.append(case('c11r-wait-restart', 'a => b => c', [
        S('1/b', pre=['all'], wait=True, flow=['2']), L, *RESTART, L, *run_ok('1/b'), L, L, *RESTART, L,
        *run_ok('1/a'), L, L, L, L]))
    c.append(case('c11r-wait-running-restart', 'a => b => c', [
        S('1/b', pre=['all'], wait=True, flow=['2']), L, sub('1/b'), msg('1/b', 'started'), L, *RESTART, L,
        msg('1/b', 'succeeded'), L, L, *run_ok('1/a'), L, L, L]))
    # outputs completed by `cylc set` on a pooled task survive the restart (incomplete task kept, then completed)
    k = case('c11r-forced-outputs', 'a:x & a => b', [
        L, sub('1/a'), msg('1/a', 'started'), msg('1/a', 'failed'), L, S('1/a', out=['x']), L, *RESTART, L,
        S('1/a', out=['succeeded']), L, L, L])
    c.append(k)
    c.append(case('c11r-forced-running', 'a => b; a:x => c', [
        L, sub('1/a'), msg('1/a', 'started'), L, S('1/a', out=['x']), L, *STOP_NOW, L, msg('1/a', 'succeeded'), L, L,
        L]))
    # two restarts, several flows in the pool, a merge in between
    c.append(case('c11r-two-restarts', 'a => b => c', [
        L, S('1/c', pre=['all'], flow=['new']), L, *RESTART, L, *run_ok('1/a'), L, S('1/b', pre=['all'], flow=['2']),
        L, *STOP_NOW, L, L, *run_ok('1/b'), L, L, L]))
    # a task that ran to completion in flow 1 is re-run in a LATER flow (database rows of the instance under several
    # flow numbers) and is running / failed / succeeded-incomplete in that flow at the stop: the restart must
    # restore the outputs of the pooled flow's run, not those of the earlier flow
    rerun = [L, sub('1/a'), msg('1/a', 'started'), msg('1/a', 'xx'), msg('1/a', 'succeeded'), L, L]
    c.append(case('c11r-rerun-new-running', 'a:x => b', [
        *rerun, S('1/a', pre=['all'], flow=['new']), L, sub('1/a', 2), msg('1/a', 'started', 2), L, *RESTART, L,
        msg('1/a', 'xx', 2), L, msg('1/a', 'succeeded', 2), L, L]))
    c.append(case('c11r-rerun-flow3-failed', 'a:x => b', [
        *rerun, S('1/a', pre=['all'], flow=['3']), L, sub('1/a', 2), msg('1/a', 'started', 2),
        msg('1/a', 'failed', 2), L, *STOP_NOW, L, S('1/a', out=['x']), L, L]))
    c.append(case('c11r-rerun-twice', 'a:x => b', [
        *rerun, S('1/a', pre=['all'], flow=['new']), L, sub('1/a', 2), msg('1/a', 'started', 2),
        msg('1/a', 'succeeded', 2), L, S('1/a', pre=['all'], flow=['new']), L, sub('1/a', 3), L, *RESTART, L,
        msg('1/a', 'started', 3), L, *RESTART, L, L]))
    k = case('c11r-rerun-trigger-new', 'a:x => b', [
        *rerun, T(['1/a'], flow=['new']), L, sub('1/a', 2), msg('1/a', 'started', 2), L, *RESTART, L,
        msg('1/a', 'xx', 2), L, msg('1/a', 'succeeded', 2), L, L])
    k['kind'] = 'trigw'
    c.append(k)
    # out-of-order arrival: a required custom output is reported AFTER the final status message; once everything
    # the completion expression needs has been delivered the task leaves the pool and the children are spawned
    c.append(case('c11r-late-custom', 'a:x & a => b', [
        L, sub('1/a'), msg('1/a', 'started'), msg('1/a', 'succeeded'), L, msg('1/a', 'xx'), L, L, L]))
    c.append(case('c11r-late-custom-failed', 'a:x & a:fail? => b', [
        L, sub('1/a'), msg('1/a', 'started'), msg('1/a', 'failed'), msg('1/a', 'xx'), L, L, L]))
    c.append(case('c11r-late-custom-restart', 'a:x & a => b', [
        L, sub('1/a'), msg('1/a', 'started'), msg('1/a', 'succeeded'), L, *RESTART, L, msg('1/a', 'xx'), L, L, L]))
    # `cylc trigger --flow=2 --wait` (judged on the real trace only: kind trigw)
    k = case('c11r-trigger-wait', 'a => b => c', [
        T(['1/b'], flow=['2'], wait=True), L, *RESTART, L, *run_ok('1/b'), L, L, *RESTART, L, *run_ok('1/a'), L, L,
        L, L])
    k['kind'] = 'trigw'
    c.append(k)
    return c


class C11R(SchedProp):
    id = 'C11R'
    report_id = 'C11'
    drv = 'C11R'
    props_modules = ['CylcModel.Props.C11R']
    theorems = [
        'CylcModel.C11R.rows_invariant',
        'CylcModel.C11R.restart_keeps_instances',
        'CylcModel.C11R.restart_restores',
        'CylcModel.C11R.restart_restores_when_row_agrees',
        'CylcModel.C11R.restart_restores_or_drops',
        'CylcModel.C11R.restart_invents_nothing',
        'CylcModel.C11R.restart_keeps_history',
        'CylcModel.C11R.restart_flowwait_counterexample',
        'CylcModel.C11R.restart_outputs_counterexample',
        'CylcModel.C11R.restart_instances_live',
        'CylcModel.C11R.restart_instances_counterexample',
        'CylcModel.C11R.restart_instances_repaired',
        'CylcModel.C11R.final_mem_run',
        'CylcModel.C11R.message_output_recorded',
        'CylcModel.C11R.message_keeps_outputs',
    ]
    statement_note = (
        'partial: proofs over the Sched3Set model (scheduler core + flows + flow wait + `cylc set` + the task_states / '
        'task_outputs rows with their write queue + restart, a line-by-line port) for all instance graphs and all op lists. '
        'PROVED: rows_invariant - in every state of every run no instance is pooled twice and every pooled proxy has the '
        'database rows of exactly its flow numbers (committed or queued), given the repaired _load_historical_outputs (flag '
        'dbRowPerFlowSet probed from the live code: the three theorems below take `dbRowPerFlowSet = true` as a hypothesis; '
        'restart_instances_live / _counterexample / _repaired state per flag value that on the unrepaired code - finding '
        'set-db-row-missing - a restart DROPS a pooled task whose flows overlap an older row, kernel-checked witness; proved '
        'primitive by primitive as an instance of the generic pool-shape invariant shared with C26S). restart_keeps_instances - stop + restart at ANY point of ANY run (main loops, '
        'messages, holds, `cylc set` with any --flow / --wait, earlier restarts) yields a pool with exactly the same task '
        'instances: nothing pending is lost, nothing invented. restart_restores - for every pooled proxy x of every '
        'reachable state the restarted pool has y at x\'s key with x\'s flow numbers, prerequisite and suicide-prerequisite '
        'satisfaction, status (preparing -> waiting), held state (a task that is held without having been is beyond the '
        'hold point: finding hold-point-reapplied); flow wait, submit number (preparing: minus one) and completed outputs '
        '(running / failed / succeeded only: finding outputs-not-restored) of y are those of the committed row of x\'s flows; '
        'restart_restores_when_row_agrees - hence restored whenever that row agrees with x. WITHOUT any assumption on the live '
        'code: restart_restores_or_drops - every pooled proxy of every reachable state is either restored exactly like that '
        'from the committed row of its flows, or (no such row) dropped; restart_invents_nothing - from ANY state the '
        'restarted pool\'s instances are a sub-list of those pooled before the stop. restart_keeps_history - the '
        'restart leaves the committed task_states / task_outputs rows (the history spawn_task consults: no re-run of '
        'completed tasks, C08S no_rerun_in_flow) untouched. FULL STATEMENT FALSE on the current code, with kernel-checked '
        'witnesses: restart_flowwait_counterexample (finding flow-wait-resurrected: a merge ends the flow wait in memory '
        'only) and restart_outputs_counterexample (finding new-row-drops-outputs: the fresh task_outputs row of a merge is '
        'empty). NOT PROVED: that the committed row agrees with the proxy on flow wait / submit number / outputs in the '
        'states where no merge and no respawn-from-history happened since the last output (checked by the judge on every '
        'real trace and tied by the correspondence, which compares the committed rows after every operation); '
        '`cylc trigger` (not an op of Sched3Set: the trigw runs are judged on the real trace only). DELIVERY (out-of-order job '
        'messages): message_output_recorded / message_keeps_outputs - the first step of process_message (set_message_complete) '
        'records an output message of the task among its completed outputs whatever its status and whatever arrived before, '
        'and forgets none; NOT PROVED that the rest of process_message keeps it and that the completed task then leaves the '
        'pool with its children spawned - the delivery judge (output-dropped, retained-delivered) checks that on every '
        'message the real scheduler receives, the correspondence ties model and code on the same runs.')
    technique = ('line-by-line Lean port of restart / flows / `cylc set` (Sched3Set), trace correspondence with the real '
                 'Scheduler, judges on the observed traces (retention after every operation, snapshot before the stop '
                 'vs. after the restart), invariant lemmas per primitive')
    trusted = C29.trusted
    unmodelled = C29.unmodelled + [
        '`cylc trigger` (group trigger): runs of kind trigw have no model prediction, they are judged on the real trace only',
        'the try timers of an instance that is re-run in a later flow, over a restart: load_db_task_action_timers keys them by '
        'cycle / name only, so after a restart the re-run proxy inherits the (possibly exhausted) retry count of the earlier '
        'flow\'s run and fails for good where the uninterrupted run retries (seen as a model disagreement while building; '
        'the setF runs use workflows without retry delays)',
    ]
    rule = ('generated integer-cycling workflows (2-6 tasks, 1-3 recurrences, AND/OR triggers, inter-cycle offsets, retries, '
            'optional/custom outputs, suicide and absolute triggers, runahead P0-P3) driven through the real Scheduler by a '
            'seeded adaptive schedule of main loops, submit results and job messages mixed (p = 0.16-0.25 per step) with '
            'commands, with 1-2 stop + restart cycles per run at random points in all three stop modes. Kinds setR / setanyR '
            '(half of the runs; model correspondence): `cylc set` of outputs / prerequisites on pooled and inactive instances '
            'with --flow default / new / none / N and --wait (40%), holds, hold point, pause (setanyR: failures, submit '
            'failures, missing outputs, duplicate / stale / out-of-order messages). Kind trigw (1/4; judged on the real '
            'trace only): `cylc trigger` of groups with --flow=N / new / none and --wait (50%), holds, pause. 6 hand-written '
            'histories + the witnesses of the findings (flow wait over one and two restarts, forced outputs on failed / '
            'running tasks over a restart, merges between restarts) + 7 histories of the two families below. Kind setF (1/4 of '
            'the runs, workflows without retry delays): instances that already ran and left the pool are re-run in LATER flows '
            '(`cylc set --pre=all --flow=new / N`, 70% of the commands), so that one instance has task_states / task_outputs '
            'rows under several flow numbers, and the scheduler is stopped while such a re-run is running / failed / '
            'succeeded (policy p_stop_rerun). In every set kind 35% of the custom output messages of a job arrive AFTER its '
            'final status message (out-of-order delivery). Judged: retention after every operation, every output message '
            'received from the current job of a pooled task is recorded (any arrival order), and for '
            'every restart the observation before the stop against the one after start-up (pool, status, submit number, '
            'flows, flow wait, manual-submit, held, outputs, prerequisites, hold / stop state); non-trivial = distinct class '
            '(kind, number of restarts, what the pool held at a restart: flow-wait / several flows / merged / preparing / '
            'finished-incomplete / manually triggered tasks / tasks with rows under other - lower sorting - flow numbers, forced '
            'outputs, late custom outputs in the run) per distinct case')
    kinds = ('setR', 'setanyR', 'setF', 'trigw')
    n_quick = 48
    n_thorough = 640

    def translate(self):
        return _s3set.translate_flags()

    def corpus(self):
        return corpus_cases() + [c for c in _s3set.corpus_cases() if 'restart' in c['id']]

    def gen(self, tier, rng):
        n = self.n_quick if tier == 'quick' else self.n_thorough
        base = rng.randrange(1 << 30)
        for k in range(n):
            yield gen_case(base + k, self.kinds[k % len(self.kinds)])

    def impl_batch(self, inputs):
        return _s3set.retry_flakes(sprop.run_workers, inputs, _s3set.run_robust(sprop.run_workers, inputs, self.workers))

    def equal(self, model_out, obs):
        if isinstance(obs, dict) and 'crash' in obs:
            return 'graph_depth' in obs['crash']
        return super().equal(model_out, obs)

    def classify(self, inp, obs):
        if isinstance(obs, dict):
            return 'crash'
        ops = inp.get('ops') or []
        tags = [inp.get('kind', '?')]
        seen = set()
        nres = 0
        for k, op in enumerate(ops):
            if op.get('op') == 'restart' and k < len(obs):
                nres += 1
                b = obs[k]
                if b.get('fw'):
                    seen.add('fw')
                if any(t['fl'] != [1] for t in b['pool']):
                    seen.add('flows')
                if any(len(t['fl']) > 1 for t in b['pool']):
                    seen.add('merged')
                if any(t['st'] == 'preparing' for t in b['pool']):
                    seen.add('prep')
                if any(t['st'] in ('failed', 'succeeded', 'submit-failed', 'expired') for t in b['pool']):
                    seen.add('incomplete')
                if any(x['man'] for x in (b.get('xt') or {}).get('pool', [])):
                    seen.add('man')
                rows = next((o['ts'] for o in reversed(obs[:k + 1]) if o.get('ts')), [])
                for t in b['pool']:
                    if t['st'] in ('running', 'failed', 'succeeded') and any(
                            r[0] == t['p'] and r[1] == t['n'] and r[2] != t['fl'] and r[6] for r in rows):
                        # the instance has an outputs record under other flow numbers too
                        seen.add('multirow' + ('<' if any(
                            r[0] == t['p'] and r[1] == t['n'] and r[6] and str(r[2]) < str(t['fl']) for r in rows) else ''))
        final = set()
        for op in ops:
            if op.get('op') == 'msg':
                key = (op['task'], op['sn'])
                if op['msg'] in ('succeeded', 'failed'):
                    final.add(key)
                elif key in final and op['msg'] not in ('started', 'submitted'):
                    seen.add('late-custom')
        forced = any(m.get('forced') for o in obs for m in o.get('msgs', []))
        tags.append(f'restarts={nres}')
        tags.append(','.join(sorted(seen)) or '-')
        tags.append('forced' if forced else 'nat')
        return '/'.join(tags)


def gen_case(seed, kind):
    """setF: see below; setR / setanyR: the C29 generator (`cylc set` with --flow / --wait on pooled and inactive instances) with stop +
    restart at random points (1-2 restarts, all three stop modes) and more --wait;
    trigw: `cylc trigger` (groups, --flow=N, --wait) with stop + restart (judged on the real trace only)"""
    if kind in ('setR', 'setanyR'):
        c = sgen.gen_case(seed, kind[:-1])
        c['id'] = f'{kind}{seed}'
        pol = c['policy']
        pol['cmds'] = ['set_out', 'set_out', 'set_pre', 'set_pre', 'set_out', 'set_pre', 'hold', 'release',
                       'set_hold_point', 'release_hold_point', 'stop_clean', 'stop_now', 'stop_now_now', 'stop_now',
                       'pause', 'resume']
        pol.update(p_wait=0.4, restarts=1 + seed % 2, p_cmd=max(pol.get('p_cmd', 0.1), 0.18), p_custom_late=0.35)
        return c
    if kind == 'setF':
        # instances that already ran and left the pool are re-run in LATER flows (`cylc set --pre=all --flow=new / N`):
        # rows of one instance under several flow numbers, the instance active in the later flow at a stop
        # (workflows without retry delays: after a restart the real scheduler reloads the try timers by cycle / name
        # only, so a re-run inherits the retry count of the earlier flow's run - not part of the Sched3Set model)
        c = sgen.gen_case(seed, 'setany' if seed % 3 == 0 else 'set', {'retries': False})
        c['id'] = f'setF{seed}'
        pol = c['policy']
        # (the stops come while such a re-run is running / failed / succeeded: policy p_stop_rerun; one generic stop)
        pol['cmds'] = ['set_pre', 'set_out', 'set_pre', 'set_pre', 'set_pre', 'hold', 'release', 'set_pre', 'set_out',
                       'stop_now_now', 'set_pre', 'set_pre']
        pol.update(p_set_finished=0.7, p_stop_rerun=0.35, p_wait=0.2, restarts=2, p_cmd=0.22, p_custom_late=0.35)
        return c
    if kind == 'trigw':
        c = sgen.gen_case(seed, 'cmdtrig' if seed % 2 else 'cmdtrigc')
        c['id'] = f'trigw{seed}'
        c['kind'] = 'trigw'
        pol = c['policy']
        pol['cmds'] = ['trigger', 'trigger', 'trigger', 'hold', 'release', 'stop_clean', 'stop_now', 'stop_now_now',
                       'trigger', 'pause', 'resume', 'trigger']
        pol.update(p_wait=0.5, restarts=1 + seed % 2, p_cmd=0.16, obs_db=False)
        return c
    return sgen.gen_case(seed, kind)


PROP = C11R()
