"""C20  Crash-restart neither loses nor duplicates work."""
from __future__ import annotations

import copy
import sys
from pathlib import Path

sys.path.insert(0, str(Path(__file__).resolve().parents[1] / 'sched'))
from prop import SchedProp, run_workers  # noqa: E402
import gen as sgen  # noqa: E402

FLAKY = ('BrokenBarrierError', 'Address already in use', 'TimeoutError', 'database is locked')


def run_retry(cases, workers):
    """run_workers; cases in which the scheduler could not start / stop its server threads on an overloaded machine
    are run again with fewer parallel workers (an infrastructure hiccup, never a behaviour of the code under test)."""
    from core import Infra
    import time

    def batch(cs, w):
        for attempt in range(3):
            try:
                return run_workers(cs, w)
            except Infra:
                if attempt == 2:
                    raise
                time.sleep(5)

    res = batch(cases, workers)
    for w in (max(1, workers // 2), max(1, workers // 4), 2, 1):
        again = [k for k, r in enumerate(res) if 'error' in r and any(f in r['error'] for f in FLAKY)]
        if not again:
            break
        time.sleep(3)
        for k, r in zip(again, batch([cases[k] for k in again], w)):
            res[k] = r
    # what still fails to start / stop its server threads is an infrastructure casualty: skipped (SchedProp.skip_case
    # counts them and turns more than 25 into an infrastructure failure), never a verdict
    for k, r in enumerate(res):
        if 'error' in r and any(f in r['error'] for f in FLAKY):
            res[k] = dict(r, stage='infra')
    return res


def _flow(graph, final=1, extra=''):
    return ('[scheduler]\n    allow implicit tasks = True\n[scheduling]\n    cycling mode = integer\n'
            f'    initial cycle point = 1\n    final cycle point = {final}\n    runahead limit = P3\n    [[graph]]\n{graph}'
            '[runtime]\n    [[root]]\n        [[[simulation]]]\n            default run length = PT0S\n' + extra)


def _case(cid, flow, ops, policy=None):
    return {'id': cid, 'flow': flow, 'seed': 0, 'opts': {}, 'policy': dict(policy or {}, max_steps=200), 'ops': ops,
            'kind': 'corpus'}


_L = {'op': 'loop'}


def _job(tid, msgs=('started', 'succeeded'), sn=1):
    return [{'op': 'subres', 'task': tid, 'ok': True, 'sn': sn}] + [
        {'op': 'msg', 'task': tid, 'msg': m, 'sn': sn, 'sev': 'CRITICAL' if m == 'failed' else 'INFO'} for m in msgs]


def _poll(tid, state, sn=1):
    return {'op': 'pollres', 'task': tid, 'state': state, 'sn': sn}


def _kill(k, j=None):
    return {'op': 'loop', 'crash_at': k, 'crash_stmt': j}


_AB = _flow('        R1 = """\n            a => b\n        """\n')
# a[^] is an absolute trigger of every c; a => b gives `remove` something to commit after the absolute output
_ABS = _flow('        R1 = """\n            a\n        """\n        P1 = """\n            a[^] => c\n        """\n', final=2)
_SUI = _flow('        R1 = """\n            a:fail? => !b\n            c => b\n            a? & c => d\n        """\n')

# the witnesses of the findings, and the probes of the behaviour flags (see translate)
# stale pool table: `a` succeeds, its removal commits the new task_states row of `b`; the process dies before the
# end-of-loop commit writes `b` into the task_pool table; the restart poll finds `a` succeeded; `b` is never run
_LOST = [_L] + _job('1/a', ('started',)) + [_L, {'op': 'msg', 'task': '1/a', 'msg': 'succeeded', 'sn': 1},
                                              _kill(1), _poll('1/a', 'succeeded'), _L, _L, _L]
# the same window, seen from a task that went from preparing to succeeded within one main loop: it is run again
_RERUN = [_L] + _job('1/a') + [_kill(1), _L] + _job('1/a') + [_L, _L] + _job('1/b') + [_L, _L]
# by design: killed while `a` is in job preparation: it is prepared again under the same submit number
_SAME_SN = [_L, {'op': 'crash'}, _L] + _job('1/a') + [_L, _L] + _job('1/b') + [_L, _L]

_CORPUS = {
    'lost-child': (_AB, _LOST),
    'rerun': (_AB, _RERUN),
    'same-sn': (_AB, _SAME_SN),
    # dying inside the transaction of the first commit = dying before it
    'mid-txn': (_AB, [_L] + _job('1/a', ('started',)) + [_L, {'op': 'msg', 'task': '1/a', 'msg': 'succeeded', 'sn': 1},
                                                       _kill(0, 3), _poll('1/a', 'succeeded'), _L] + _job('1/b') + [_L, _L]),
    'abs': (_ABS, [_L] + _job('1/a', ('started',)) + [_L, {'op': 'msg', 'task': '1/a', 'msg': 'succeeded', 'sn': 1},
                                                     _kill(1), _poll('1/a', 'succeeded'), _L] + _job('1/c') + [_L, _L]),
}


# a kill INSIDE the end-of-loop batch (which deletes and re-inserts the task_pool / task_prerequisites tables and updates
# task_states) after j statements, for a run of j: whatever the statement order, some j falls between the DELETE and
# the INSERT of task_pool; `a` is running, its `started` report is what the batch records
_MID = [_L] + _job('1/a', ('started',))
for _j in (1, 2, 3, 4, 5, 6, 7, 8, 10):
    _CORPUS[f'mid-batch-{_j}'] = (_AB, _MID + [_kill(0, _j), _poll('1/a', 'started'), _L,
                                                {'op': 'msg', 'task': '1/a', 'msg': 'succeeded', 'sn': 1}, _L, _L]
                                   + _job('1/b') + [_L, _L])


def n_loops(raw):
    return sum(1 for op in raw.get('ops') or [] if op['op'] == 'loop')


def project_base(raw):
    """What the differential judge reads of the uninterrupted run: launches and removals of every observation, and
    the final pool."""
    obs = raw['obs']
    return {
        'obs': [{'launch': o['launch'], 'removed': o.get('removed', [])} for o in obs],
        'last': {'pool': obs[-1]['pool'], 'stop': obs[-1]['stop'], 'stalled': obs[-1]['stalled']},
        'cut': len(raw['ops']) >= (raw.get('max_steps') or 10 ** 9),
    }


def kill_points(raw, stmts=False):
    """Every kill point of an uninterrupted run: (n, -1, None) = between ops right before the n-th main loop;
    (n, k, None) = at the k-th commit boundary of the n-th main loop; with `stmts` also (n, k, j) = inside that
    transaction after j statements (j = number of statements: right before COMMIT)."""
    pts, n = [], 0
    for op, ob in zip(raw['ops'], raw['obs'][1:]):
        if op['op'] != 'loop':
            continue
        n += 1
        pts.append((n, -1, None))
        for k in range(ob.get('ncommit', 0)):
            pts.append((n, k, None))
            if stmts:
                ns = (ob.get('nstmts') or [])
                for j in range((ns[k] if k < len(ns) else 0) + 1):
                    pts.append((n, k, j))
    return pts


class C20(SchedProp):
    id = 'C20'
    props_modules = ['CylcModel.Props.C20']
    theorems = [
        'CylcModel.C20.commit_all_or_nothing',
        'CylcModel.C20.kill_at_boundary',
        'CylcModel.C20.batch_atomic_live',
        'CylcModel.C20.dead_commits_nothing',
        'CylcModel.C20.crash_reads_only_database',
        'CylcModel.C20.between_ops_live',
        'CylcModel.C20.restart_pool_from_table',
        'CylcModel.C20.restart_submit_num',
        'CylcModel.C20.no_dup_launch_partial',
        'CylcModel.C20.stranded_is_lost',
        'CylcModel.C20.finished_not_respawned',
        'CylcModel.C20.no_loss_counterexample',
        'CylcModel.C20.lost_before_first_loop',
        'CylcModel.C20.no_rerun_counterexample',
        'CylcModel.C20.no_dup_launch_counterexample',
        'CylcModel.C20.no_loss_repaired_bounded',
        'CylcModel.C20.loss_found_bounded',
        'CylcModel.C20.lost_child_live',
        'CylcModel.C20.lost_at_start_live',
        'CylcModel.Sched3Crash.live_run',
        'CylcModel.Sched3Crash.dead_dstep',
        'CylcModel.Sched3Crash.dstep_mainLoop',
        'CylcModel.Sched3Crash.dstep_processMessage',
    ]
    statement_note = (
        'partial. Model: Sched3Crash = Sched2 + the private database AS COMMITTED kept apart from process memory (task_states / '
        'task_outputs rows with the queue of INSERTs / UPDATEs, the task_pool + task_prerequisites + try-timer snapshot of '
        'put_task_pool, abs_outputs, tasks_to_hold, the holdcp / stopcp / is_paused / stop_task parameters), commit boundaries '
        'exactly where the code calls process_queued_ops, spawn_task reading only committed rows, kill points (between ops; at '
        'the k-th commit boundary of a main loop, or inside that transaction) and restart from the committed database alone; it '
        'agrees with the real Scheduler (killed by fault injection) on every generated run, committed tables included. PROVED for '
        'all instance graphs and op lists: a commit is all-or-nothing and a kill at a boundary / inside the transaction leaves '
        'the database as at the boundary (kill_at_boundary; statement-level kill points reduce to commit boundaries, sqlite '
        'atomicity assumed, C21 - and its use through the DAO PROBED on every check: translate() kills the real scheduler after 1..8 '
        'statements of an end-of-loop batch, reads the database file the dead process left (observation key dead_db) and writes '
        'CrashFlags.batchAtomic, batch_atomic_live; the judge rule judgeAtomic demands the same of every generated kill at a '
        'first commit boundary, and the model predicts dead_db at every kill point); a dead process commits nothing (dead_commits_nothing, through a one-lemma-per-primitive frame '
        'DStep of how every primitive touches the database part); a restart reads nothing but the committed database '
        '(crash_reads_only_database); between ops the scheduler is alive and no task-pool write is pending (between_ops_live, '
        'inductive over all runs); the restored pool is the pool table JOIN task_states, with status / submit number as recorded, '
        'preparing -> waiting under the previous number (restart_pool_from_table, restart_submit_num). THE THREE CLAIMS OF THE '
        'PROPERTY TEXT, stated over the model closed with a deterministic job environment (every job succeeds, reports before '
        'the next main loop, restart poll; def no_loss_full / no_rerun_full / no_dup_launch_full per value of the behaviour '
        'flags): no_loss and no_rerun are FALSE ON THE CODE AS FOUND (no_loss_counterexample, lost_before_first_loop, '
        'no_rerun_counterexample, kernel-checked and replayed on the real scheduler: finding stale-pool-table with repair '
        'C20-fix-1.diff); the mechanism is proved in general (stranded_is_lost: a committed row without outputs that the pool '
        'table does not list is never run after a restart; finished_not_respawned). WITH THE REPAIR (flags up, probed from the '
        'live code into Generated/CrashFlags.lean; lost_child_live / lost_at_start_live tie the witnesses to the live flags) '
        'no_loss and no_rerun are proved only BOUNDED: for two witness workflows and every single kill point of their runs '
        '(no_loss_repaired_bounded); the general statement for the repaired code is NOT proved (it needs the invariant that at '
        'every commit every pooled task has a row equal to its memory state, over ~35 primitives) - on real runs it is decided by '
        'the differential judge (every kill point of generated base runs in the thorough tier). no_dup_launch is FALSE BY DESIGN '
        'before and after the repair (no_dup_launch_counterexample; finding relaunch-same-submit-number); what holds is '
        'no_dup_launch_partial (unless the pool table lists the task as preparing the restart continues from the recorded '
        'submit number) - stated for the restart step, not lifted to whole runs (no launch-log invariant). "To the same final '
        'outputs" inherits the C19 finding outputs-not-restored. NOT MODELLED: several flows, broadcasts, xtriggers, task_jobs '
        'rows (platforms), event timers; suicide prerequisites are not stored in the database (the model resets them on restart; '
        'the generator only produces single-atom suicide triggers, so this is not exercised by the correspondence).')
    technique = ('Lean scheduler model with the committed database kept apart from process memory + kill-point ops; '
                 'trace correspondence with fault injection at every commit boundary / inside transactions of the real '
                 'Scheduler; differential (killed vs uninterrupted) and trace judges on the real runs')
    trusted = [
        'fault injection: the scheduler is killed by a BaseException raised from WorkflowDatabaseManager.process_queued_ops '
        '(before the transaction) or from the private sqlite connection (after j statements / right before COMMIT; the '
        'connection is closed without commit), the scheduler object is abandoned, its contact file removed, its DB '
        'connections closed, and a new Scheduler is started on the same run directory in the same process; SQLite '
        'rolls back an uncommitted transaction (assumed; C21)',
        'the restart poll (Scheduler.run_scheduler polls every non-waiting pooled task; poll_tasks is a no-op in '
        'simulation mode) is answered by the harness from its job table through the real jobs-poll callback chain: per '
        'polled job the custom messages of its job status file, then its status',
        'differential runs: the stub job outcomes are a function of (case seed, point, name, submit number) only',
    ]
    unmodelled = SchedProp.unmodelled + [
        'database tables a restart reads but the generated runs never populate: broadcasts, xtriggers, task_jobs '
        '(platform / job times), late flags, timeout timers, workflow_flows beyond flow 1, template variables',
        'the job-submit subprocess: a launch is the hand-over of a prepared task to the (stub) job runner',
    ]
    rule = ('(1) random kill plans: generated integer-cycling workflows (2-6 tasks, 1-3 recurrences, AND/OR triggers, offsets, '
            'absolute and suicide triggers, optional / custom outputs, retries, runahead P0-P3) run through the real Scheduler with '
            '1-4 kill points each (between ops, or at commit boundary 0-3 of a main loop, before the transaction or after 0-5 of its '
            'statements / right before COMMIT), complete and failing / noisy job outcomes, with and without hold / stop / pause '
            'commands and clean restarts; the noise-free ones are paired with their uninterrupted run. (2) base workflows whose '
            'EVERY kill point is run separately (thorough: every main loop x {between ops, every commit boundary}, for the first '
            'bases also every statement position of every transaction; quick: 8 points spread over each run), each compared with '
            'the uninterrupted run by the differential judge. Job outcomes are a function of (seed, point, name, submit number); '
            'jobs launched before a kill keep reporting, messages queued at the kill are lost, the restart poll is answered from '
            'the job table. Non-trivial = distinct (kind, ending, launch-count class, number of kills) class per distinct case')
    kinds = ('crash', 'crashany', 'cmdcrash', 'cmdcrashany')
    gen_opts: dict = {}
    pair_opts = {'noise': 0.0, 'p_suicide': 0.0}
    # (random kill-plan cases, base workflows, kill points per base workflow [None = all], bases with statement-level kill points)
    sizes = {'quick': (16, 4, 8, 2), 'thorough': (200, 8, None, 2)}

    def setup(self):
        pass

    # -- behaviour flags -----------------------------------------------------------------------------------------
    def translate(self):
        from core import Infra
        probes = [
            # `remove`: is b (spawned by the message that removes a) in the pool table at the commit boundary after?
            _case('c20-probe-remove', _AB, _LOST[:6]),
            # absolute output: is the pool table written along (a already succeeded in it)?
            _case('c20-probe-abs', _ABS, _CORPUS['abs'][1][:6]),
            # suicide: after `remove(b)` + the suicide commit: is b gone from the pool table?
            _case('c20-probe-sui', _SUI, [_L] + _job('1/c') + _job('1/a', ('started',)) + [_L, _L, {
                'op': 'msg', 'task': '1/a', 'msg': 'failed', 'sn': 1, 'sev': 'CRITICAL'}, _kill(2)]),
            # start-up: killed before the first main loop: is the pool in the pool table?
            _case('c20-probe-start', _AB, [{'op': 'crash'}]),
        ] + [
            # is a batch of queued operations one transaction?  killed after j statements of the end-of-loop batch
            _case(f'c20-probe-batch-{j}', _AB, _MID + [_kill(0, j)]) for j in (1, 2, 3, 4, 6, 8)
        ]
        raws = run_retry(probes, 4)
        # (a probe in which the real scheduler raises - start-up hiccups are retried by run_retry - is not an
        # infrastructure failure: the flag stays down and the generated runs expose the exception as a violation)
        broken = [raw for raw in raws if 'error' in raw]
        for raw in raws:
            if 'error' not in raw and not raw['obs'][-1].get('crashed') and raw['id'] != 'c20-probe-start':
                raise Infra(f'C20 probe {raw["id"]}: the kill point was not reached')
        db = [[] if 'error' in raw else (raw['obs'][-1]['db'] or []) for raw in raws]
        at_remove = any(r[:2] == [1, 'b'] for r in db[0])
        at_abs = any(r[:2] == [1, 'a'] and r[3] == 'succeeded' for r in db[1])
        at_sui = at_remove or ('error' not in raws[2] and not any(r[:2] == [1, 'b'] for r in db[2]))
        at_start = 'error' not in raws[3] and bool(raws[3]['obs'][-1]['pool'])
        if broken:
            at_remove = at_abs = at_sui = at_start = False
        # the database file after a death inside the batch (observation key dead_db) against the rows / pool table
        # observed before that main loop
        atomic = True
        for raw in raws[4:]:
            if 'error' in raw:
                continue
            dd, before = raw['obs'][-1].get('dead_db') or {}, raw['obs'][-2]
            last_db = [o['db'] for o in raw['obs'][:-1] if o.get('db') is not None][-1]
            if dd.get('ts') != before['ts'] or dd.get('pool') != last_db:
                atomic = False
        self.flags = {'remove': at_remove, 'abs': at_abs, 'suicide': at_sui, 'start': at_start, 'atomic': atomic}
        lb = {True: 'true', False: 'false'}
        return {'CrashFlags.lean': (
            '/- GENERATED by harness/props/c20.py translate() from the live source. Do not edit. -/\n'
            'namespace CylcModel.CrashFlags\n'
            '/-- `TaskPool.remove` writes the task pool table along with its early commit (true: repaired; false: code as found) -/\n'
            f'def poolAtRemove : Bool := {lb[at_remove]}\n'
            '/-- ... so does the commit that follows the recording of an absolute output -/\n'
            f'def poolAtAbs : Bool := {lb[at_abs]}\n'
            '/-- ... and the commit that follows event-driven suicides (unobservable, hence equal, when `remove` does) -/\n'
            f'def poolAtSuicide : Bool := {lb[at_sui]}\n'
            '/-- ... and the commit at the end of start-up (`Scheduler.configure`) -/\n'
            f'def poolAtStart : Bool := {lb[at_start]}\n'
            '/-- a scheduler killed inside a batch of queued operations (after 1..8 statements) leaves the database file as it was\n'
            'before the batch: the batch is one transaction (read off the real file after injected deaths) -/\n'
            f'def batchAtomic : Bool := {lb[atomic]}\n'
            'end CylcModel.CrashFlags\n')}

    def corpus(self):
        import core
        more = [w for e in core.known_findings(self.id) for w in e.get('witnesses_more', [])]
        return [_case('c20-' + k, v[0], v[1]) for k, v in _CORPUS.items()] + more

    # -- generation ------------------------------------------------------------------------------------------------
    def gen(self, tier, rng):
        n_rand, n_base, n_var, n_stmt = self.sizes.get(tier, self.sizes['thorough'])
        if tier == 'search' or getattr(self, '_generated', False):
            # the failing-input search after a broken tie (a second batch in the same check): a medium batch
            n_rand, n_base, n_var, n_stmt = 80, 6, 24, 0
        self._generated = True
        base = rng.randrange(1 << 30)
        # (1) random kill plans (1-4 kill points per run), all four kinds; the complete / noise-free ones are paired
        # with their uninterrupted run
        for k in range(n_rand):
            kind = self.kinds[k % len(self.kinds)]
            c = sgen.gen_case(base + k, kind, self.gen_opts)
            c['policy']['outcome_by_key'] = True
            # (suicide triggers race with the jobs they remove: outcomes depend on the interleaving, which a kill changes)
            if '=> !' not in c['flow'] and (
                    kind == 'crash' or (kind == 'crashany' and c['policy'].get('p_noise', 0.0) == 0.0)):
                b = copy.deepcopy(c)
                b['id'] = f'ubase{base + k}'
                b['policy'].pop('crash_plan', None)
                b['policy']['max_steps'] = 700
                c['policy']['max_steps'] = 1000
                c['base'] = b
            yield c
        # (2) base workflows with every kill point (or a spread of them) as a separate run
        for b in range(n_base):
            seed = base + 100000 + b
            a = sgen.gen_case(seed, 'crash' if b % 3 else 'crashany', self.pair_opts)
            a['id'] = f'base{seed}'
            a['kind'] = 'base'
            a['policy'].pop('crash_plan', None)
            a['policy']['outcome_by_key'] = True
            a['policy']['max_steps'] = 700
            yield a
            # one case per kill point: slot i of the list of kill points of the base run (resolved once that run is
            # known; slots beyond the list are skipped), or - with n_var - i-th of n_var points spread over the list
            stmts = b < n_stmt
            slots = n_var if n_var is not None else (520 if stmts else 140)
            for i in range(slots):
                v = copy.deepcopy(a)
                v['id'] = f'kp{seed}x{i}'
                v['kind'] = 'kill'
                v['policy']['max_steps'] = 1000
                v['kp'] = {'slot': i, 'of': n_var, 'stmts': stmts}
                v['base'] = a
                yield v

    # -- paired runs -----------------------------------------------------------------------------------------------
    def resolve(self, inp, ra):
        """The kill plan of a `kill` case once its base run is known (None: no such kill point)."""
        kp = inp['kp']
        if kp.get('point') is not None:
            return [list(kp['point'])]          # a replay
        pts = kill_points(ra, kp.get('stmts'))
        if not pts:
            return None
        if kp.get('of') is None:
            return [list(pts[kp['slot']])] if kp['slot'] < len(pts) else None
        return [list(pts[(kp['slot'] * len(pts)) // kp['of']])]

    def impl_batch(self, inputs):
        first, seen = [], set()
        for inp in inputs:
            c = inp['base'] if 'base' in inp else inp
            if c['id'] not in seen:
                seen.add(c['id'])
                first.append({k: v for k, v in c.items() if k != 'base'})
        raw1 = {c['id']: r for c, r in zip(first, run_retry(first, self.workers))}
        second, skipped = [], set()
        for inp in inputs:
            if 'base' not in inp:
                continue
            ra = raw1[inp['base']['id']]
            if 'error' in ra:
                continue
            v = {k: val for k, val in inp.items() if k != 'base'}
            if 'kp' in inp:
                plan = self.resolve(inp, ra)
                if plan is None:
                    skipped.add(inp['id'])
                    continue
                v['policy'] = dict(v['policy'], crash_plan=plan)
            second.append(v)
        raw2 = {v['id']: r for v, r in zip(second, run_retry(second, self.workers))}
        pol2 = {v['id']: v['policy'] for v in second}
        out = []
        for inp in inputs:
            if 'base' not in inp:
                out.append(raw1[inp['id']])
                continue
            ra = raw1[inp['base']['id']]
            if 'error' in ra:
                out.append({'id': inp['id'], 'error': ra['error'], 'stage': ra.get('stage')})
                continue
            if inp['id'] in skipped:
                out.append({'id': inp['id'], 'skip': True})
                continue
            rb = dict(raw2[inp['id']])
            if 'error' not in rb:
                ra = dict(ra, max_steps=inp['base']['policy'].get('max_steps'))
                rb['base'] = project_base(ra)
                rb['cut'] = len(rb['ops']) >= pol2[inp['id']]['max_steps'] and inp.get('ops') is None
                rb['plan'] = pol2[inp['id']].get('crash_plan')
            out.append(rb)
        return out

    def skip_case(self, inp, raw):
        if raw.get('skip'):
            return True
        return super().skip_case(inp, raw)

    def driver_input(self, inp, raw):
        d = super().driver_input(inp, raw)
        if 'base' in raw and 'crash' not in d:
            d['base'] = raw['base']
            d['cut'] = bool(raw.get('cut'))
            d['plan'] = raw.get('plan')
        return d

    def _replay_input(self, inp, driver_inp):
        d = dict(inp)
        if 'kp' in inp and driver_inp.get('plan'):
            d['kp'] = dict(inp['kp'], point=driver_inp['plan'][0])
        if 'base' in inp:
            # a pair of runs is replayed by running both seeded adaptive schedules again (deterministic on the same
            # tree, and a fair schedule on another tree: a recorded op list carries no job messages for what another
            # tree launches)
            return d
        d['ops'] = driver_inp['ops']
        return d

    def classify(self, inp, obs):
        base = super().classify(inp, obs)
        if isinstance(obs, dict):
            return base
        n = sum(1 for o in obs if o.get('crashed'))
        tags = [base, f'kills={n}']
        return '/'.join(tags)


PROP = C20()
