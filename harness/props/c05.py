"""C05  Internal queue limits are never exceeded (component level: IndepQueueManager / LimitedTaskQueue)."""
from __future__ import annotations

import os
import random
import shutil
import tempfile
from types import SimpleNamespace

from core import Prop, Infra


# ---------------------------------------------------------------------------
# namespace trees

def build_tree(rng, n_fam, n_leaf, p_second=0.2, p_nograph=0.2):
    """-> (parents: {ns: [parent...]}, tasks (in graph), order of definition)"""
    fams = ['F%d' % i for i in range(n_fam)]
    parents = {}
    for i, f in enumerate(fams):
        parents[f] = [rng.choice(['root'] + fams[:i])]
    leaves = ['t%d' % i for i in range(n_leaf)]
    tops = [f for f in fams if parents[f] == ['root']]
    for lf in leaves:
        p = rng.choice(['root'] + fams) if fams else 'root'
        ps = [p]
        if p != 'root' and rng.random() < p_second:
            anc = ancestors_of(p, parents)
            cand = [t for t in tops if t not in anc and p not in ancestors_of(t, parents)]
            if cand:
                ps.append(rng.choice(cand))
        parents[lf] = ps
    tasks = [lf for lf in leaves if rng.random() >= p_nograph]
    if not tasks:
        tasks = [leaves[0]]
    return parents, tasks


def ancestors_of(ns, parents):
    out, todo = [], [ns]
    while todo:
        x = todo.pop()
        if x not in out:
            out.append(x)
            todo += [p for p in parents.get(x, []) if p != 'root']
    return out      # includes ns itself, excludes root


def desc_of(parents):
    """runtime['descendants'] as cylc computes it: family -> everything below it (root included)."""
    desc = {}
    for ns in parents:
        for a in ancestors_of(ns, parents)[1:] + ['root']:
            desc.setdefault(a, [])
            if ns not in desc[a]:
                desc[a].append(ns)
    return [[k, sorted(v)] for k, v in sorted(desc.items())]


def flow_text(inp):
    """flow.cylc whose queues / runtime / graph sections are the case (parsec mode)."""
    out = ['[scheduler]', '    allow implicit tasks = False', '[scheduling]', '    [[queues]]']
    for name, limit, members in inp['cfg']:
        out.append(f'        [[[{name}]]]')
        if limit is not None:
            out.append(f'            limit = {limit}')
        if members or name != 'default':
            out.append('            members = ' + ', '.join(members))
    out += ['    [[graph]]', '        R1 = ' + ' & '.join(inp['tasks']), '[runtime]']
    for ns, ps in inp['tree']:
        out.append(f'    [[{ns}]]')
        ps = [p for p in ps if p != 'root']
        if ps:
            out.append('        inherit = ' + ', '.join(ps))
    return '\n'.join(out) + '\n'


class Stub:
    """light task proxy: identity equality, like TaskProxy (which defines no __eq__)"""
    __slots__ = ('tdef', 'state')

    def __init__(self, name):
        self.tdef = SimpleNamespace(name=name)
        self.state = SimpleNamespace(is_held=False)


def stub(name):
    return Stub(name)


class C05(Prop):
    id = 'C05'
    also = ['C05S']   # scheduler-level half: queue limits in the running scheduler (Sched3Q)
    props_modules = ['CylcModel.Props.C05']
    theorems = [
        'CylcModel.C05.membership_partition',
        'CylcModel.C05.members_are_tasks',
        'CylcModel.C05.default_not_first_counterexample',
        'CylcModel.C05.release_limit',
        'CylcModel.C05.release_order',
        'CylcModel.C05.release_unlimited',
        'CylcModel.C05.limit_and_order_keep',
        'CylcModel.C05.limit_and_order_partial',
        'CylcModel.C05.order_rotate_counterexample',
        'CylcModel.C05.code_as_probed',
    ]
    statement_note = (
        'component level (IndepQueueManager / LimitedTaskQueue). Proved for ALL configurations, task tables and '
        'operation histories (no bound on sizes or lengths): membership_partition (each task name in exactly one '
        'queue: the last non-default queue listing it directly or via a family, else default; precondition: '
        '"default" iterated first, which parsec guarantees - default_not_first_counterexample shows it is needed); '
        'release_limit / release_order / release_unlimited for a single release call in any state; and the refinement '
        'theorems: the property judge (limit per queue given the counter, FIFO prefix of the non-held queued tasks, '
        'nothing released twice / after removal / while held) accepts every run of the model - FULL for the policy '
        '"held tasks keep their place" (limit_and_order_keep), PARTIAL for the unpatched code (policy "rotate": '
        'limit_and_order_partial needs hold-free histories; order_rotate_counterexample refutes the full form on the '
        'witness of finding held-requeue-order; findings/C05-fix-1.diff switches the probed policy to "keep", after '
        'which code_as_probed is the full statement). NOT covered here: TaskPool.count_active_tasks / '
        'release_queued_tasks / manual trigger (which tasks count as active; "only manual triggering may exceed a '
        'limit") - scheduler level, lifted through Sched')
    technique = 'refinement of a FIFO/limit judge by the queue model over all operation histories + correspondence'
    trusted = [
        'parsec/WorkflowConfig hand "default" first to IndepQueueManager (limit 100 when not written): modelled by '
        'parsecOrder in the driver, tied by the correspondence cases that go through the real WorkflowConfig',
        'task proxies are light stubs (tdef.name, state.is_held); TaskProxy has no __eq__, so identity = id',
    ]
    unmodelled = [
        'TaskPool.count_active_tasks / release_queued_tasks / queue_task (who calls the queue manager with which '
        'counter): scheduler level, lifted later through Sched',
        'negative limits, duplicate queueing of one proxy (TaskPool guards with is_queued)',
    ]
    rule = ('random namespace trees (nested families, second parents, runtime-only namespaces), 0-4 extra queues with '
            'overlapping members (task, family, unknown names), limits 0-3/5/100, default written first (direct) or '
            'first/middle/last/omitted (through the real WorkflowConfig); histories of push / push-if-limited / release '
            'with arbitrary counters / remove / hold / unhold / adopt ending in a drain; class = set of branch tags '
            'observed in the run (overlap, family, limit hit, held skipped, requeue, pil+, rm+, adopt)')
    workers = 16

    # ------------------------------------------------------------------
    def setup(self):
        from cylc.flow.task_queues.independent import IndepQueueManager, LimitedTaskQueue
        self.Mgr, self.LQ = IndepQueueManager, LimitedTaskQueue
        # imported before the worker pool forks
        from cylc.flow.config import WorkflowConfig
        from cylc.flow.option_parsers import Options
        from cylc.flow.scripts.validate import get_option_parser
        self.WorkflowConfig = WorkflowConfig
        self._opts = Options(get_option_parser())()

    def translate(self):
        from collections import Counter
        q = self.LQ(1, {'x'})
        h, a, b = stub('x'), stub('x'), stub('x')
        h.state.is_held = True
        for t in (h, a, b):
            q.push_task(t)
        r1 = q.release(Counter())
        h.state.is_held = False
        r2 = q.release(Counter())
        if r1 == [a] and r2 == [b]:
            rot = 'true'
        elif r1 == [a] and r2 == [h]:
            rot = 'false'
        else:
            raise ValueError('LimitedTaskQueue.release: the held-task probe gave neither known behaviour')
        qd = self.Mgr.Q_DEFAULT
        if not isinstance(qd, str) or '"' in qd or '\\' in qd:
            raise ValueError('Q_DEFAULT is not a plain string')
        return {'QueueConsts.lean': (
            '/- GENERATED by harness/props/c05.py translate() from the live source. Do not edit. -/\n'
            'namespace CylcModel.Queue\n'
            '/-- `IndepQueueManager.Q_DEFAULT` -/\n'
            f'def qDefault : String := "{qd}"\n'
            '/-- `LimitedTaskQueue.release` puts held tasks it skipped back at the newest end of the deque\n'
            '(probe: limit 1, queued h(held) a b; release, unhold h, release) -/\n'
            f'def heldRotates : Bool := {rot}\n'
            'end CylcModel.Queue\n')}

    # ------------------------------------------------------------------
    def corpus(self):
        unit = {   # tests/unit/test_indep_task_queues.py
            'cfg': [['default', 6, []], ['big', 2, ['BIG', 'foo']], ['sml', 3, ['SML', 'foo']]],
            'parsec': False,
            'tasks': ['o1', 'o2', 'o3', 'o4', 'o5', 'o6', 'o7', 's1', 's2', 's3', 's4', 's5',
                      'b1', 'b2', 'b3', 'b4', 'b5', 'foo'],
            'desc': [['BIG', ['b1', 'b2', 'b3', 'b4', 'b5']],
                     ['OTH', ['o1', 'o2', 'o3', 'o4', 'o5', 'o6', 'o7']],
                     ['SML', ['s1', 's2', 's3', 's4', 's5']],
                     ['root', ['BIG', 'OTH', 'SML', 'b1', 'b2', 'b3', 'b4', 'b5', 'foo', 'o1', 'o2', 'o3', 'o4',
                               'o5', 'o6', 'o7', 's1', 's2', 's3', 's4', 's5']]],
            'items': ['b3', 's4', 'o2', 's3', 'b4', 'o3', 'o4', 'o5', 'o6', 'o7'],
            'ops': [['push', i] for i in range(10)]
            + [['rel', [['b1', 1], ['b2', 1], ['s1', 1], ['o1', 1]]], ['adopt', ['orphan1', 'orphan2']],
               ['rel', []], ['rel', []]],
        }
        simple = lambda cfg, items, ops: {   # noqa: E731
            'cfg': cfg, 'parsec': False, 'tasks': ['a', 'b', 'c'], 'desc': [['root', ['a', 'b', 'c']]],
            'items': items, 'ops': ops}
        return [
            unit,
            # held task keeps / loses its place
            simple([['default', 1, []]], ['a', 'b', 'c'],
                   [['push', 0], ['push', 1], ['push', 2], ['hold', 0], ['rel', []], ['unhold', 0], ['rel', []], ['rel', []]]),
            # limit reached through the counter, then freed
            simple([['default', 0, []], ['q', 2, ['a', 'b']]], ['a', 'a', 'b', 'c'],
                   [['push', 0], ['push', 1], ['push', 2], ['push', 3], ['rel', [['a', 1], ['b', 1]]],
                    ['rel', [['a', 1]]], ['rel', []], ['rel', []]]),
            # manual trigger: queue only if limited; remove a queued one
            simple([['default', 2, []]], ['a', 'b', 'c', 'a'],
                   [['pil', 0, [['a', 1]]], ['pil', 1, [['a', 1], ['c', 1]]], ['push', 2], ['rm', 1], ['rm', 1],
                    ['rel', [['a', 2]]], ['rel', [['a', 1]]], ['rel', []]]),
            # no default entry: KeyError
            simple([['q', 1, ['a']]], ['a'], [['push', 0]]),
        ]

    # ------------------------------------------------------------------
    def gen(self, tier, rng):
        n = {'quick': 6000, 'thorough': 120000, 'search': 200000}[tier]
        n_parsec = {'quick': 160, 'thorough': 3000, 'search': 400}[tier]
        every = max(1, n // n_parsec)     # parsec cases (slow) are spread over the batch
        for k in range(n):
            yield self.random_case(rng, parsec=False, big=(tier != 'quick' and k % 5 == 0))
            if k % every == 0 and k // every < n_parsec:
                yield self.random_case(rng, parsec=True)

    def random_case(self, rng, parsec, big=False):
        n_fam = rng.choice([0, 1, 2, 2, 3, 4])
        n_leaf = rng.randint(1, 9 if big else 6)
        parents, tasks = build_tree(rng, n_fam, n_leaf)
        desc = desc_of(parents)
        fams = [f for f in parents if f.startswith('F')]
        leaves = [x for x in parents if x.startswith('t')]
        nq = rng.choice([0, 1, 1, 2, 2, 3, 4])
        limits = [0, 1, 1, 2, 2, 3, 3, 5] if not big else [0, 1, 2, 3, 4, 6]
        cfg = []
        pool = tasks * 3 + leaves + fams * 2 + ['zz', 'root']
        for i in range(nq):
            ms = [rng.choice(pool) for _ in range(rng.choice([0, 1, 1, 2, 2, 3, 4]))]
            cfg.append(['q%d' % i, rng.choice(limits), ms])
        dflt = ['default', rng.choice(limits + [100]), []]
        if parsec:
            pos = rng.choice(['first', 'mid', 'last', 'omit'])
            if pos == 'first':
                cfg.insert(0, dflt)
            elif pos == 'last':
                cfg.append(dflt)
            elif pos == 'mid':
                cfg.insert(rng.randint(0, len(cfg)), dflt)
        else:
            cfg.insert(0, dflt)
        # task proxies
        n_items = rng.randint(1, 14 if big else 9)
        name_pool = tasks * 6 + ['orph', 'orph2']
        items = [rng.choice(name_pool) for _ in range(n_items)]
        ops = self.random_ops(rng, items, tasks, rng.randint(3, 40 if big else 24))
        inp = {'cfg': cfg, 'parsec': parsec, 'tasks': tasks, 'desc': desc, 'items': items, 'ops': ops}
        if parsec:
            inp['tree'] = [[ns, ps] for ns, ps in parents.items()]
        return inp

    def random_active(self, rng, tasks):
        style = rng.random()
        if style < 0.3:
            return []
        names = [t for t in tasks if rng.random() < (0.5 if style < 0.8 else 0.9)]
        if rng.random() < 0.2:
            names.append('orph')
        rng.shuffle(names)
        return [[nm, rng.choice([0, 1, 1, 1, 2, 3])] for nm in names]

    def random_ops(self, rng, items, tasks, length):
        """well-formed histories: an id is queued only when it is certainly not queued, and only
        proxies of task names or of already adopted orphans are queued"""
        ops, mq, held, adopted = [], set(), set(), set()
        ids = list(range(len(items)))
        for _ in range(length):
            r = rng.random()
            free = [t for t in ids if t not in mq and (items[t] in tasks or items[t] in adopted)]
            if r < 0.34 and free:
                t = rng.choice(free)
                mq.add(t)
                ops.append(['push', t])
            elif r < 0.42 and free:
                t = rng.choice(free)
                mq.add(t)
                ops.append(['pil', t, self.random_active(rng, tasks)])
            elif r < 0.62:
                ops.append(['rel', self.random_active(rng, tasks)])
            elif r < 0.70:
                t = rng.choice(list(mq) if mq and rng.random() < 0.8 else ids)
                mq.discard(t)
                ops.append(['rm', t])
            elif r < 0.84:
                t = rng.choice(list(mq) if mq and rng.random() < 0.8 else ids)
                held.add(t)
                ops.append(['hold', t])
            elif r < 0.94:
                t = rng.choice(list(held) if held and rng.random() < 0.8 else ids)
                held.discard(t)
                ops.append(['unhold', t])
            else:
                os_ = [rng.choice(['orph', 'orph2', 'orph3']) for _ in range(rng.randint(0, 2))]
                adopted |= set(os_)
                ops.append(['adopt', os_])
        if rng.random() < 0.85:      # drain: the final order becomes visible through the API
            ops += [['unhold', t] for t in sorted(held)]
            ops += [['rel', []] for _ in range(min(len(items), rng.randint(1, 6)))]
        return ops

    # ------------------------------------------------------------------
    def _real_config(self, inp):
        """Queue config, task names and descendants as the real WorkflowConfig produces them."""
        WorkflowConfig = self.WorkflowConfig
        d = tempfile.mkdtemp(prefix='c05-', dir='/dev/shm' if os.path.isdir('/dev/shm') else None)
        try:
            p = os.path.join(d, 'flow.cylc')
            with open(p, 'w') as fh:
                fh.write(flow_text(inp))
            cfg = WorkflowConfig('c05', p, self._opts)
            qconfig = {k: {'limit': v['limit'], 'members': list(v['members'])}
                       for k, v in cfg.cfg['scheduling']['queues'].items()}
            names = cfg.get_task_name_list()
            desc = {k: list(v) for k, v in cfg.runtime['descendants'].items()}
        finally:
            shutil.rmtree(d, ignore_errors=True)
        return qconfig, names, desc

    def impl(self, inp):
        from collections import Counter
        tags = set()
        env_ok = True
        if inp.get('parsec'):
            qconfig, names, desc = self._real_config(inp)
            env_ok = (sorted(names) == sorted(inp['tasks'])
                      and sorted([k, sorted(v)] for k, v in desc.items()) == sorted([k, sorted(v)] for k, v in inp['desc']))
        else:
            qconfig = {n: {'limit': lim, 'members': list(ms)} for n, lim, ms in inp['cfg']}
            names = list(inp['tasks'])
            desc = {k: list(v) for k, v in inp['desc']}
        try:
            mgr = self.Mgr(qconfig, names, desc)
        except KeyError:
            return {'queues': None, 'env_ok': env_ok, 'outs': [], 'tags': ['keyerror']}
        queues = [[n, q.limit, sorted(q.members)] for n, q in mgr.queues.items()]
        items = [stub(nm) for nm in inp['items']]
        index = {id(t): i for i, t in enumerate(items)}
        outs = []
        for op in inp['ops']:
            k = op[0]
            if k == 'push':
                outs.append(mgr.push_task(items[op[1]]))
            elif k == 'pil':
                r = mgr.push_task_if_limited(items[op[1]], Counter(dict(op[2])))
                tags.add('pil+' if r else 'pil-')
                outs.append(bool(r))
            elif k == 'rel':
                rel = mgr.release_tasks(Counter(dict(op[1])))
                outs.append([index[id(t)] for t in rel])
                left = [t for q in mgr.queues.values() for t in q.deque]
                if rel:
                    tags.add('rel')
                if any(not t.state.is_held for t in left):
                    tags.add('limit-hit')
                if any(t.state.is_held for t in left):
                    tags.add('held-skip')
            elif k == 'rm':
                r = mgr.remove_task(items[op[1]])
                tags.add('rm+' if r else 'rm-')
                outs.append(bool(r))
            elif k == 'hold':
                items[op[1]].state.is_held = True
                outs.append(None)
            elif k == 'unhold':
                items[op[1]].state.is_held = False
                outs.append(None)
            elif k == 'adopt':
                if op[1]:
                    tags.add('adopt')
                outs.append(mgr.adopt_tasks(list(op[1])))
            else:
                raise Infra(f'unknown op {op}')
        return {'queues': queues, 'env_ok': env_ok, 'outs': outs, 'tags': sorted(tags)}

    def equal(self, model_out, obs):
        o = dict(obs)
        o.pop('tags', None)
        return model_out == o

    # ------------------------------------------------------------------
    def classify(self, inp, obs):
        t = set(obs.get('tags', []))
        if 'keyerror' in t:
            return 'no-default/KeyError'
        if inp.get('parsec'):
            names = [c[0] for c in inp['cfg']]
            src = 'parsec:default-' + ('omitted' if 'default' not in names else
                                       'first' if names[0] == 'default' else 'not-first')
        else:
            src = 'direct'
        fams = {k for k, _ in inp['desc']}
        listed, fam = {}, False
        for n, _, ms in inp['cfg']:
            if n == 'default':
                continue
            exp = set()
            for m in ms:
                if m in fams:
                    exp |= {x for k, v in inp['desc'] if k == m for x in v if x in inp['tasks'] and x not in fams}
                    fam = True
                elif m in inp['tasks']:
                    exp.add(m)
            for x in exp:
                listed[x] = listed.get(x, 0) + 1
        memb = ('overlap' if any(v > 1 for v in listed.values()) else 'disjoint' if listed else 'default-only') \
            + ('+family' if fam else '')
        hist = ('held-skipped+limit-hit' if {'held-skip', 'limit-hit'} <= t else 'held-skipped' if 'held-skip' in t
                else 'limit-hit' if 'limit-hit' in t else 'released' if 'rel' in t else 'no-release')
        return '/'.join([src, memb, hist])

    def neighbours(self, inp, rng):
        out = []
        ops = inp['ops']
        for i in range(len(ops)):
            j = dict(inp)
            j['ops'] = ops[:i] + ops[i + 1:]
            if self._wf(j):
                out.append(j)
        for qi in range(len(inp['cfg'])):
            for d in (-1, 1):
                j = dict(inp)
                cfg = [list(c) for c in inp['cfg']]
                if cfg[qi][1] + d >= 0:
                    cfg[qi][1] += d
                    j['cfg'] = cfg
                    out.append(j)
        return out[:200]

    @staticmethod
    def _wf(inp):
        mq, adopted = set(), set()
        for op in inp['ops']:
            if op[0] in ('push', 'pil'):
                nm = inp['items'][op[1]]
                if op[1] in mq or not (nm in inp['tasks'] or nm in adopted):
                    return False
                mq.add(op[1])
            elif op[0] == 'rm':
                mq.discard(op[1])
            elif op[0] == 'adopt':
                adopted |= set(op[1])
        return True


PROP = C05()
