"""C44  Private workflow files are created owner-only, whatever the umask.

One case = one scheduler start-up of the file-creating functions in a forked child process:
umask set, optional pre-existing files, then the real key_housekeeping(id, create=True) and the real
WorkflowDatabaseManager.on_workflow_start(is_restart); the permission bits of every file are read back.
"""
from __future__ import annotations

import json
import os
import shutil
import stat
import tempfile

from core import Prop, Infra

FILES = {
    'priDb': '.service/db',
    'pubDb': 'log/db',
    'srvPub': '.service/server.key',
    'srvPriv': '.service/server.key_secret',
    'cliPriv': '.service/client.key_secret',
    'cliPubCopy': '.service/client_public_keys/client.key',
}


def _in_child(fn):
    """Run fn() in a forked child, return its JSON-able result."""
    r, w = os.pipe()
    pid = os.fork()
    if pid == 0:
        code = 0
        try:
            os.close(r)
            try:
                out = fn()
            except BaseException as exc:  # noqa
                out = {'err': type(exc).__name__, 'msg': str(exc)[:200]}
            os.write(w, json.dumps(out).encode())
        except BaseException:  # noqa
            code = 3
        finally:
            os._exit(code)
    os.close(w)
    data = b''
    while True:
        chunk = os.read(r, 65536)
        if not chunk:
            break
        data += chunk
    os.close(r)
    _, status = os.waitpid(pid, 0)
    if not data:
        return {'err': 'ChildDied', 'msg': str(status)}
    return json.loads(data)


class C44(Prop):
    id = 'C44'
    props_modules = ['CylcModel.Props.C44']
    theorems = [
        'CylcModel.C44.modes_private',
        'CylcModel.C44.modes_private_all_umasks',
        'CylcModel.C44.umask_restored',
        'CylcModel.C44.create_respects_umask',
    ]
    statement_note = (
        'full: for every umask (any natural number, not only the 512 meaningful ones), every set of pre-existing files with '
        'arbitrary modes and both fresh start and restart, after key_housekeeping + on_workflow_start the private DB, the server '
        'private key and the client private key exist with no group/other permission bit, and the process umask is what it was')
    technique = 'symbolic evaluation of the start-up file operations over an abstract file table; exhaustive correspondence over all 512 umasks'
    trusted = [
        'POSIX semantics of open(O_CREAT) (new file mode = requested & ~umask, existing mode untouched), chmod, rename, unlink; '
        'requested modes 0o666 (open), 0o644 (sqlite3), 0o600 (mkstemp) - validated exhaustively over the umask by the correspondence',
        'the translator records the os.umask / os.chmod calls made by the real key_housekeeping / on_workflow_start (literal of '
        'the key umask, mode given to the private DB) in a forked child',
        'runs are made as the current user (root in this sandbox: creation under umasks that mask the owner bits still succeeds)',
    ]
    unmodelled = ['transient files (sqlite journals, the mkstemp copy of the public DB) between operations; files of other components '
                  '(contact file, job logs); remote/client-side keys (cylc.flow.task_remote_mgr)']
    rule = ('exhaustive over the umask: every umask 0o000..0o777 x scenarios (fresh start; restart over pre-existing private/public '
            'files with lax modes; fresh start over pre-existing lax files; thorough tier: 7 pre-existing modes x restart flag); '
            'distinct = distinct (umask, restart, pre-existing modes); non-trivial = the umask leaves at least one group/other '
            'permission bit open or files pre-exist, class = (scenario, which bit groups the umask masks)')
    exhaustive = True
    workers = 16

    def setup(self):
        base = '/dev/shm' if os.path.isdir('/dev/shm') and os.access('/dev/shm', os.W_OK) else '/tmp'
        self.home = tempfile.mkdtemp(prefix='verif-C44-', dir=base)
        import atexit
        atexit.register(shutil.rmtree, self.home, True)
        os.environ['HOME'] = self.home
        from cylc.flow.network.authentication import key_housekeeping
        from cylc.flow.workflow_db_mgr import WorkflowDatabaseManager
        from cylc.flow.pathutil import get_workflow_run_dir
        from cylc.flow.workflow_files import get_workflow_srv_dir
        import zmq.auth  # noqa (import before forking)
        self.kh, self.DBM = key_housekeeping, WorkflowDatabaseManager
        self.run_dir, self.srv_dir = get_workflow_run_dir, get_workflow_srv_dir
        self.n = 0

    # ------------------------------------------------------------------
    def _prepare(self, wid, pre):
        rd = self.run_dir(wid)
        os.makedirs(os.path.join(rd, 'log'))
        os.makedirs(self.srv_dir(wid))
        for k, m in (pre or {}).items():
            if m is None:
                continue
            p = os.path.join(rd, FILES[k])
            os.makedirs(os.path.dirname(p), exist_ok=True)
            open(p, 'w').close()
            os.chmod(p, m)
        return rd

    def _start(self, wid, rd, restart):
        self.kh(wid, create=True)
        mgr = self.DBM(self.srv_dir(wid), os.path.join(rd, 'log'))
        mgr.on_workflow_start(restart)
        mgr.on_workflow_shutdown()

    def translate(self):
        wid = f'translate-{os.getpid()}'

        def probe():
            rd = self._prepare(wid, None)
            calls = []
            real_umask, real_chmod = os.umask, os.chmod

            def umask(m):
                old = real_umask(m)
                calls.append(['umask', m, old])
                return old

            def chmod(p, m, *a, **k):
                calls.append(['chmod', os.path.relpath(str(p), rd), m])
                return real_chmod(p, m, *a, **k)
            os.umask, os.chmod = umask, chmod
            try:
                real_umask(0o022)
                self._start(wid, rd, False)
            finally:
                os.umask, os.chmod = real_umask, real_chmod
            return calls
        try:
            calls = _in_child(probe)
        finally:
            shutil.rmtree(self.run_dir(wid), ignore_errors=True)
        if isinstance(calls, dict):
            raise ValueError(f'start-up probe failed: {calls}')
        um = [c for c in calls if c[0] == 'umask']
        key_umask = None
        if um:
            # expected: set the key umask, later restore the previous one
            if len(um) != 2 or um[0][2] != 0o022 or um[1][1] != 0o022 or um[1][2] != um[0][1]:
                raise ValueError(f'unexpected os.umask call pattern {um}')
            key_umask = um[0][1]
        ch = [c for c in calls if c[0] == 'chmod' and c[1] == FILES['priDb']]
        if len(ch) > 1:
            raise ValueError(f'private DB chmod-ed more than once: {ch}')
        db_chmod = ch[0][2] if ch else None

        def opt(v):
            return 'none' if v is None else f'some 0o{v:o}'
        body = [
            '/- GENERATED by harness/props/c44.py translate(): os.umask / os.chmod calls recorded from the real',
            '   key_housekeeping(create=True) and WorkflowDatabaseManager.on_workflow_start. Do not edit. -/',
            'namespace CylcModel.Generated.PermCfg',
            '',
            f'-- recorded calls: {json.dumps([c for c in calls if c[0] == "umask" or c[1] in FILES.values()])}',
            '/-- umask set by create_server_keys while the keys are written (none = no os.umask call) -/',
            f'def keyUmask : Option Nat := {opt(key_umask)}',
            '/-- mode given to os.chmod for the private database (none = no chmod) -/',
            f'def dbChmod : Option Nat := {opt(db_chmod)}',
            '',
            'end CylcModel.Generated.PermCfg',
            '',
        ]
        return {'PermCfg.lean': '\n'.join(body)}

    # ------------------------------------------------------------------
    def mk(self, umask, restart, pre):
        return {'umask': umask, 'restart': restart, 'pre': {k: pre.get(k) for k in FILES}}

    def corpus(self):
        lax = {k: 0o666 for k in FILES}
        return [self.mk(0, False, {}), self.mk(0o022, False, {}), self.mk(0o002, True, lax), self.mk(0o777, False, {}),
                self.mk(0, True, {'priDb': 0o644, 'pubDb': 0o644}), self.mk(0o027, False, lax)]

    def gen(self, tier, rng):
        lax = {k: 0o666 for k in FILES}
        for u in range(0o1000):
            yield self.mk(u, False, {})
            yield self.mk(u, True, {'priDb': 0o666, 'pubDb': 0o664, 'srvPriv': 0o644, 'cliPriv': 0o666, 'srvPub': 0o644})
            yield self.mk(u, False, lax)
        if tier != 'quick':
            for u in range(0o1000):
                for m in (0o600, 0o640, 0o644, 0o660, 0o777, 0o000, 0o604):
                    for restart in (False, True):
                        pre = {k: m for k in FILES}
                        if rng.random() < 0.5:
                            pre.pop(rng.choice(list(FILES)))
                        yield self.mk(u, restart, pre)

    # ------------------------------------------------------------------
    def impl_batch(self, inputs):
        """Always in forked worker processes: a case changes the process umask, which must never be the
        harness's own.  Each worker runs its cases one after the other; every case sets the umask itself."""
        if not inputs:
            return []
        import multiprocessing as mp
        ctx = mp.get_context('fork')
        n = max(1, min(self.workers, len(inputs)))
        with ctx.Pool(n) as pool:
            return pool.map(self.impl, inputs, chunksize=max(1, len(inputs) // (n * 8)))

    def impl(self, inp):
        """Runs inside a forked worker (see impl_batch)."""
        self.n += 1
        wid = f'w-{os.getpid()}-{self.n}'
        rd = self.run_dir(wid)
        try:
            os.umask(0o022)
            self._prepare(wid, inp['pre'])
            os.umask(inp['umask'])
            try:
                self._start(wid, rd, inp['restart'])
            except BaseException as exc:  # noqa
                os.umask(0o022)
                return {'err': type(exc).__name__, 'msg': str(exc)[:200]}
            after = os.umask(0o022)
            out = {}
            for k, rel in FILES.items():
                p = os.path.join(rd, rel)
                out[k] = stat.S_IMODE(os.lstat(p).st_mode) if os.path.lexists(p) else None
            known = {os.path.join(rd, rel) for rel in FILES.values()}
            extra = []
            for root, _ds, fs in os.walk(rd):
                for f in fs:
                    if os.path.join(root, f) not in known:
                        extra.append(os.path.relpath(os.path.join(root, f), rd))
            out['extra'] = sorted(extra)
            out['umask'] = after
            return out
        finally:
            os.umask(0o022)
            shutil.rmtree(rd, ignore_errors=True)

    def classify(self, inp, obs):
        u = inp['umask']
        pre = any(v is not None for v in inp['pre'].values())
        if (u & 0o077) == 0o077 and not pre:
            return None          # the umask already denies everything to group and others
        scen = ('restart' if inp['restart'] else 'fresh') + ('+preexisting' if pre else '')
        masks = []
        for name, bits in (('owner', 0o700), ('group', 0o070), ('other', 0o007)):
            b = u & bits
            masks.append(f'{name}:' + ('all' if b == bits else 'none' if b == 0 else 'some'))
        return scen + '/' + ','.join(masks)

    def neighbours(self, inp, rng):
        out = []
        for bit in range(9):
            j = dict(inp)
            j['umask'] = inp['umask'] ^ (1 << bit)
            out.append(j)
        j = dict(inp)
        j['restart'] = not inp['restart']
        out.append(j)
        return out


PROP = C44()
