"""C42  The subprocess pool runs every command once, within its bounds (SubProcPool)."""
from __future__ import annotations

import logging
import os
import random

from core import Prop, Infra


KINDS = ('quick', 'slow', 'hang', 'bad')


class _Clock:
    """virtual `time()` of cylc.flow.subprocpool (decides timeouts)"""

    def __init__(self):
        self.now = 0

    def __call__(self):
        return self.now


class _ProcRec:
    """Popen proxy: records which children `poll()` found exited (the environment input of the model)"""

    def __init__(self, proc, cid, log):
        self.__dict__['_p'] = proc
        self.__dict__['_cid'] = cid
        self.__dict__['_log'] = log

    def poll(self):
        r = self._p.poll()
        if r is not None:
            self._log.append(self._cid)
        return r

    def __getattr__(self, k):
        return getattr(self._p, k)


_BIN = None


def fake_remote_bin():
    """A directory with fake `ssh` and `rsync` executables, first on $PATH (no network needed):
    `ssh go N id` exits N at once, `ssh wait N id` exits N when its stdin is closed."""
    global _BIN
    if _BIN is None:
        import atexit
        import shutil
        import stat
        import tempfile
        os.makedirs('/tmp/C42', exist_ok=True)
        _BIN = tempfile.mkdtemp(prefix='bin-', dir='/tmp/C42')
        for name in ('ssh', 'rsync'):
            f = os.path.join(_BIN, name)
            with open(f, 'w') as fh:
                fh.write('#!/bin/sh\nif [ "$1" = wait ]; then read x; fi\nexit $2\n')
            os.chmod(f, os.stat(f).st_mode | stat.S_IEXEC | stat.S_IXGRP | stat.S_IXOTH)
        os.environ['PATH'] = _BIN + os.pathsep + os.environ['PATH']
        pid = os.getpid()
        atexit.register(lambda: os.getpid() == pid and shutil.rmtree(_BIN, ignore_errors=True))
    return _BIN


def run_case(inp, drain=True):
    """Drive a real SubProcPool with real child processes.

    quick: `sh -c 'exit N'`; slow / hang: `sh -c 'read x; exit N'` reading from a pipe whose write end
    the harness holds (closed by the op `rel`, never for hang); bad: a non-existent executable.
    After every operation the harness waits (waitid WNOWAIT: without reaping) until the children that
    must have finished by themselves have really exited, so that what `poll()` sees is reproducible;
    what poll() saw is recorded anyway and handed to the model.
    """
    import cylc.flow.subprocpool as sp
    from cylc.flow.subprocctx import SubProcContext
    SubProcPool = sp.SubProcPool

    real_procopen, real_time = sp.procopen, sp.time
    clock = _Clock()
    events, polled = [], []
    launched = {}                   # cid -> Popen
    cmds = {c['id']: c for c in inp['cmds']}
    wends, rfiles = {}, []
    called, waited, released = set(), set(), set()

    def my_procopen(cmd, **kw):
        p = real_procopen(cmd, **kw)
        cid = int(cmd[-1])
        launched[cid] = p
        events.append(['start', cid])
        return _ProcRec(p, cid, polled)

    def cb255(ctx, *a):
        called.add(ctx.cid)
        events.append(['cb', ctx.cid, 'host255'])

    def cb(ctx, *a):
        cid = ctx.cid
        called.add(cid)
        if ctx.ret_code == SubProcPool.RET_CODE_WORKFLOW_STOPPING and ctx.err == SubProcPool.ERR_WORKFLOW_STOPPING:
            o = 'stopping'
        elif ctx.err and 'killed on timeout' in ctx.err:
            o = 'timeout'
        elif ctx.ret_code == -9:
            o = 'killed'
        elif cid not in launched:
            o = 'oserr'
        else:
            o = 'exit:%d' % ctx.ret_code
        events.append(['cb', cid, o])

    def settle():
        for cid, p in launched.items():
            if cid in called or cid in waited:
                continue
            c = cmds[cid]
            if c['kind'] == 'quick' or (c['kind'] == 'slow' and cid in released):
                try:
                    os.waitid(os.P_PID, p.pid, os.WEXITED | os.WNOWAIT)
                except ChildProcessError:
                    pass
                waited.add(cid)

    sp.procopen, sp.time = my_procopen, clock
    out, ops_out = [], []
    terminated = False
    try:
        pool = SubProcPool()
        pool.size = inp['size']
        pool.proc_pool_timeout = inp['timeout']

        def do(op):
            nonlocal terminated
            del events[:]
            del polled[:]
            k = op[0]
            if k == 'put':
                c = cmds[op[1]]
                key = SubProcPool.JOBS_SUBMIT if c['submit'] else 'other-cmd'
                kw = {}
                remote = c.get('remote', False)
                prog = ('ssh', 'rsync')[c['id'] % 2]       # both count as "remote" for the 255 handling
                if c['kind'] == 'quick':
                    cmd = ([prog, 'go', str(c['code']), str(c['id'])] if remote
                           else ['sh', '-c', 'exit %d' % c['code'], str(c['id'])])
                elif c['kind'] == 'bad':
                    cmd = ['/nonexistent/c42-no-such-command', str(c['id'])]
                else:
                    r, w = os.pipe()
                    rf = os.fdopen(r, 'rb')
                    rfiles.append(rf)
                    if c['kind'] == 'slow' and c['id'] in released:
                        os.close(w)
                    else:
                        wends.setdefault(c['id'], []).append(w)
                    cmd = ([prog, 'wait', str(c['code']), str(c['id'])] if remote
                           else ['sh', '-c', 'read x; exit %d' % c['code'], str(c['id'])])
                    kw['stdin_files'] = [rf]
                ctx = SubProcContext(key, cmd, **kw)
                ctx.cid = c['id']
                pool.put_command(ctx, bad_hosts=set(), callback=cb,
                                 callback_255=cb255 if c.get('cb255') else None)
                ops_out.append(list(op))
            elif k == 'proc':
                pool.process()
                ops_out.append(['proc', list(polled)])
            elif k == 'adv':
                clock.now += op[1]
                ops_out.append(list(op))
            elif k == 'rel':
                released.add(op[1])
                if cmds.get(op[1], {}).get('kind') == 'slow':
                    for w in wends.pop(op[1], []):
                        os.close(w)
                ops_out.append(list(op))
            elif k == 'stop':
                pool.set_stopping()
                ops_out.append(list(op))
            elif k == 'close':
                pool.close()
                ops_out.append(list(op))
            elif k == 'term':
                pool.terminate()
                terminated = True
                ops_out.append(['term', list(polled)])
            else:
                raise Infra(f'unknown op {op}')
            settle()
            out.append([[list(e) for e in events], len(pool.queuings), len(pool.runnings)])

        for op in inp['ops']:
            if terminated and op[0] != 'put':
                continue            # the pool is gone: only put_command is still meaningful
            do(op)
        # drive the pool to quiescence: release what can finish, time out what cannot
        if drain and not terminated:
            for c in inp['cmds']:
                if c['kind'] == 'slow' and c['id'] not in released:
                    do(['rel', c['id']])
            n = 0
            while pool.is_not_done() and n < 4 * len(inp['cmds']) + 4:
                do(['proc'])
                if pool.is_not_done():
                    do(['adv', inp['timeout'] + 1])
                n += 1
        return {'ops': ops_out, 'out': out, 'left': [len(pool.queuings), len(pool.runnings)]}
    finally:
        sp.procopen, sp.time = real_procopen, real_time
        for ws in wends.values():
            for w in ws:
                try:
                    os.close(w)
                except OSError:
                    pass
        for cid, p in launched.items():
            if cid not in called:
                try:
                    os.killpg(p.pid, 9)
                except Exception:
                    pass
            try:
                p.wait(timeout=10)
            except Exception:
                pass
            for f in (p.stdout, p.stderr):
                try:
                    if f:
                        f.close()
                except Exception:
                    pass
        for rf in rfiles:
            try:
                rf.close()
            except Exception:
                pass


def _impl_one(inp):
    return run_case(inp)


def C(i, kind='quick', submit=False, code=0, remote=False, cb255=False):
    return {'id': i, 'submit': submit, 'kind': kind, 'code': code, 'remote': remote, 'cb255': cb255}


class C42(Prop):
    id = 'C42'
    props_modules = ['CylcModel.Props.C42']
    theorems = [
        'CylcModel.C42.bounded',
        'CylcModel.C42.no_submit_when_stopping',
        'CylcModel.C42.stopping_forever',
        'CylcModel.C42.at_most_one_callback',
        'CylcModel.C42.conservation',
        'CylcModel.C42.one_callback_sound',
        'CylcModel.C42.one_callback_partial',
        'CylcModel.C42.drop_stop_counterexample',
        'CylcModel.C42.drop_term_counterexample',
        'CylcModel.C42.terminate_quiescent',
        'CylcModel.C42.code_as_probed',
        'CylcModel.C42.callback_255_instead',
        'CylcModel.C42.monitor_accepts',
        'CylcModel.C42.judge_accepts_sound',
    ]
    statement_note = (
        'partial (process timing is environment). Proved for ALL command tables, pool sizes, timeouts and operation '
        'histories of any length (put / process with any set of children found exited / clock advance / release / '
        'set_stopping / close / terminate): bounded (never more than `size` entries in runnings, after every '
        'operation); no_submit_when_stopping + stopping_forever (once stopping, no job-submit command is ever '
        'started); at_most_one_callback and conservation (for every command id: callbacks + queued + running = '
        'times put - with equality when no callback is dropped, <= for either behaviour flag), hence '
        'one_callback_sound: at quiescence every command put once has exactly one callback - FULL for the behaviour '
        '"no callback dropped" (Flags.sound, i.e. after findings/C42-fix-1.diff); for the code as probed '
        '(Generated/SubProcFlags: dropStop / dropTerm) one_callback_partial needs: no terminate with a non-empty '
        'queue and no job-submit command queued when the pool is set stopping; drop_stop_counterexample / '
        'drop_term_counterexample refute the full statement for the unpatched flags; code_as_probed is the statement '
        'for whichever flags translate() found. callback_255_instead: the 255 callback is the single callback event of a '
        'running ssh/rsync command that has one and exited 255 (never in addition to the ordinary callback - it is '
        'counted by the same conservation law). Refinement: monitor_accepts - the judge\'s monitor (own bookkeeping of '
        'commands put / started / called back; rejects a second callback, an unknown command, more children alive '
        'than the pool size, a restart, a job-submit start once stopping) never rejects the model\'s events, for '
        'either flag setting and every history with distinct command ids; judge_accepts_sound - with no callback '
        'dropped the whole judge (monitor + "at quiescence every command put was called back") accepts every '
        'quiescent run. Quiescence is a hypothesis: whether children have exited when polled '
        '(in particular right after the SIGKILL of terminate()) is environment, see finding terminate-no-wait')
    technique = 'inductive invariants (conservation law over events/queue/runnings) + refinement of the judge monitor over op lists + correspondence on real child processes'
    trusted = [
        'the harness scripts when children exit (pipes closed by the harness, waitid(WNOWAIT) before the next pool '
        'call); what proc.poll() reports during process()/terminate() is recorded through a Popen proxy and is an '
        'INPUT of the model (environment)',
        'time() of cylc.flow.subprocpool is a virtual clock (timeouts are decided by it)',
        'callbacks are passive recorders (no re-entrant put_command from a callback)',
    ]
    unmodelled = [
        'bad_hosts bookkeeping and the rsync "test ssh connectivity" branch (non-255 rsync failure on a remote host) of '
        'the 255 handling, callback arguments (callback_args / callback_255_args), stdin feeding, output capture (_poll_proc_pipes), '
        'SubProcPool.run_command (the synchronous class method), thread safety of set_stopping',
    ]
    rule = ('random command tables (quick / slow-until-released / hanging / unstartable; job-submit or not; exit codes), '
            'pool size 1-3, histories of put / process / clock advance past or short of the timeout / release / '
            'set_stopping / close / terminate, then driven to quiescence (release all, process + advance until not '
            'is_not_done); class = set of branches met (timeout, oserr, stopping refusal at put / in the queue, '
            'terminate with queued / running commands, pool full); 40% of the commands are "remote" (cmd[0] = a fake ssh / '
            'rsync on $PATH) with exit status 255 / 0 / 1, with or without a callback_255: class tags host255 (the 255 '
            'callback fired) and 255-no-cb255 (255 reported through the ordinary callback)')
    workers = 16

    # ------------------------------------------------------------------
    def setup(self):
        import cylc.flow.subprocpool as sp
        sp.LOG.setLevel(logging.CRITICAL + 10)
        self.sp = sp
        fake_remote_bin()       # before the worker pool forks

    def translate(self):
        # probe 1: job-submit command queued, pool set stopping, process()
        r1 = run_case({'size': 1, 'timeout': 10, 'cmds': [C(0, submit=True)],
                       'ops': [['put', 0], ['stop'], ['proc']]}, drain=False)
        ev = [e for row in r1['out'] for e in row[0]]
        if ev == [] and r1['left'] == [0, 0]:
            drop_stop = 'true'
        elif ev == [['cb', 0, 'stopping']] and r1['left'] == [0, 0]:
            drop_stop = 'false'
        else:
            raise ValueError(f'SubProcPool.process: stopping probe gave neither known behaviour: {r1}')
        # probe 2: command queued at terminate()
        r2 = run_case({'size': 1, 'timeout': 10, 'cmds': [C(0)], 'ops': [['put', 0], ['term']]}, drain=False)
        ev = [e for row in r2['out'] for e in row[0]]
        if ev == [] and r2['left'] == [0, 0]:
            drop_term = 'true'
        elif ev == [['cb', 0, 'stopping']] and r2['left'] == [0, 0]:
            drop_term = 'false'
        else:
            raise ValueError(f'SubProcPool.terminate: drain probe gave neither known behaviour: {r2}')
        return {'SubProcFlags.lean': (
            '/- GENERATED by harness/props/c42.py translate() from the live source. Do not edit. -/\n'
            'namespace CylcModel.SubProc\n'
            '/-- `SubProcPool.process()` drops the callback of a queued job-submit command it refuses because the\n'
            'pool is stopping (probe: put job-submit, set_stopping, process) -/\n'
            f'def codeDropStop : Bool := {drop_stop}\n'
            '/-- `SubProcPool.terminate()` drops the callbacks of the queued commands it drains\n'
            '(probe: put, terminate) -/\n'
            f'def codeDropTerm : Bool := {drop_term}\n'
            'end CylcModel.SubProc\n')}

    # ------------------------------------------------------------------
    def corpus(self):
        P = lambda *ids: [['put', i] for i in ids]   # noqa: E731
        return [
            # pool full, then emptied in order
            {'size': 2, 'timeout': 100, 'cmds': [C(0), C(1, code=3), C(2, 'slow', code=2), C(3, 'bad'), C(4)],
             'ops': P(0, 1, 2, 3, 4) + [['proc'], ['proc'], ['rel', 2], ['proc'], ['proc']]},
            # timeout of a hanging command; the slot is reused
            {'size': 1, 'timeout': 50, 'cmds': [C(0, 'hang'), C(1)],
             'ops': P(0, 1) + [['proc'], ['adv', 50], ['proc'], ['adv', 1], ['proc'], ['proc']]},
            # stopping: job-submit refused at put, other commands still run
            {'size': 2, 'timeout': 100, 'cmds': [C(0, submit=True), C(1), C(2, submit=True)],
             'ops': P(0) + [['proc'], ['stop']] + P(1, 2) + [['proc'], ['proc']]},
            # closed: everything refused at put
            {'size': 2, 'timeout': 100, 'cmds': [C(0), C(1, submit=True)], 'ops': [['close']] + P(0, 1) + [['proc']]},
            # remote commands: 255 with / without a 255 callback, other exit status, 255 of a local command,
            # a 255 met by terminate() and one refused while stopping
            {'size': 2, 'timeout': 100,
             'cmds': [C(0, code=255, remote=True, cb255=True), C(1, code=255, remote=True), C(2, code=1, remote=True, cb255=True),
                      C(3, code=255, cb255=True), C(4, 'slow', code=255, remote=True, cb255=True),
                      C(5, 'hang', code=255, remote=True, cb255=True), C(6, submit=True, code=255, remote=True, cb255=True)],
             'ops': P(0, 1, 2, 3, 4, 5) + [['proc'], ['proc'], ['proc'], ['rel', 4], ['proc'], ['stop']] + P(6)
             + [['adv', 101], ['proc']]},
            # terminate with running commands only
            {'size': 3, 'timeout': 100, 'cmds': [C(0, 'hang'), C(1, 'slow', code=4), C(2), C(3, submit=True)],
             'ops': P(0, 1, 2) + [['proc'], ['rel', 1], ['term']] + P(3)},
        ]

    # ------------------------------------------------------------------
    def gen(self, tier, rng):
        n = {'quick': 100, 'thorough': 1200, 'search': 400}[tier]
        for k in range(n):
            yield self.random_case(rng, big=(tier != 'quick' and k % 4 == 0))

    def random_case(self, rng, big=False):
        ncmd = rng.randint(1, 9 if big else 6)
        size = rng.choice([1, 1, 2, 2, 3])
        timeout = rng.choice([10, 50])
        cmds = []
        for i in range(ncmd):
            kind = rng.choice(['quick', 'quick', 'quick', 'slow', 'slow', 'hang', 'bad'])
            remote = rng.random() < 0.4
            code = rng.choice([255, 255, 0, 1]) if remote else rng.choice([0, 0, 1, 2, 7, 255])
            cmds.append(C(i, kind, submit=rng.random() < 0.45, code=code, remote=remote,
                          cb255=rng.random() < (0.55 if remote else 0.3)))
        style = rng.choice(['plain', 'stop', 'stop', 'close', 'term', 'term'])
        ops, toput = [], list(range(ncmd))
        rng.shuffle(toput)
        nops = rng.randint(ncmd + 2, 2 * ncmd + (10 if big else 6))
        special_at = rng.randint(1, nops - 1)
        done_special = False
        for j in range(nops):
            if j == special_at and style != 'plain' and not done_special:
                done_special = True
                if style == 'stop':
                    ops.append(['stop'])
                elif style == 'close':
                    ops.append(['close'])
                else:
                    if rng.random() < 0.5:
                        ops.append(rng.choice([['stop'], ['close']]))
                    ops.append(['term'])
                continue
            r = rng.random()
            if toput and r < 0.45:
                ops.append(['put', toput.pop()])
            elif r < 0.75:
                ops.append(['proc'])
            elif r < 0.87:
                ops.append(['adv', rng.choice([1, timeout // 2, timeout, timeout + 1])])
            else:
                slow = [c['id'] for c in cmds if c['kind'] == 'slow']
                if slow:
                    ops.append(['rel', rng.choice(slow)])
                else:
                    ops.append(['proc'])
        if rng.random() < 0.3:
            ops += [['put', i] for i in toput]
        return {'size': size, 'timeout': timeout, 'cmds': cmds, 'ops': ops}

    # ------------------------------------------------------------------
    def impl(self, inp):
        return run_case(inp)

    def impl_batch(self, inputs):
        if len(inputs) < 8:
            return [run_case(i) for i in inputs]
        import multiprocessing as mp
        ctx = mp.get_context('fork')
        with ctx.Pool(self.workers) as pool:
            return pool.map(_impl_one, inputs, chunksize=1)

    def driver_input(self, inp, raw):
        d = dict(inp)
        d['ops'] = raw['ops']
        return d

    def driver_obs(self, inp, raw):
        return {'out': raw['out']}

    # ------------------------------------------------------------------
    def classify(self, inp, obs):
        ev = [e for row in obs['out'] for e in row[0]]
        kinds = {e[2].split(':')[0] for e in ev if e[0] == 'cb'}
        tags = []
        ops = [o[0] for o in inp['ops']]
        if 'term' in ops:
            tags.append('terminate')
        elif 'close' in ops:
            tags.append('close')
        elif 'stop' in ops:
            tags.append('stop')
        else:
            tags.append('plain')
        if any(c.get('remote') and c['code'] == 255 and not c.get('cb255') and ['cb', c['id'], 'exit:255'] in ev
               for c in inp['cmds']):
            tags.append('255-no-cb255')
        for k in ('host255', 'timeout', 'oserr', 'killed', 'stopping'):
            if k in kinds:
                tags.append(k)
        if any(row[1] > 0 and row[2] >= inp['size'] for row in obs['out']):
            tags.append('full')
        ncb = len([e for e in ev if e[0] == 'cb'])
        if ncb < len({o[1] for o in inp['ops'] if o[0] == 'put'}):
            tags.append('lost-callback')
        return '/'.join(tags)

    def neighbours(self, inp, rng):
        out = []
        ops = inp['ops']
        for i in range(len(ops)):
            j = dict(inp)
            j['ops'] = ops[:i] + ops[i + 1:]
            out.append(j)
        for d in (-1, 1):
            if inp['size'] + d >= 1:
                j = dict(inp)
                j['size'] = inp['size'] + d
                out.append(j)
        return out[:60]


PROP = C42()
