"""C24  Restricted expression evaluation cannot run arbitrary code (util.py, task_outputs.py, host_select.py)."""
from __future__ import annotations

import ast
import builtins
import importlib
import io
import os
import inspect
import re
import sys
import textwrap
from pathlib import Path

import core
from core import Prop


# ---------------------------------------------------------------------------
# K-T: tables extracted from the live source / the running interpreter

def lean_str(s):
    return '"' + s.replace('\\', '\\\\').replace('"', '\\"') + '"'


def lean_list(items):
    return '[' + ', '.join(items) + ']'


def ast_classes():
    """Every class of the running Python's ast module deriving from ast.AST,
    with its ancestors inside the ast hierarchy (itself first)."""
    out = []
    for name in sorted(dir(ast)):
        obj = getattr(ast, name)
        if isinstance(obj, type) and issubclass(obj, ast.AST) and obj.__name__ == name:
            anc = [k.__name__ for k in obj.__mro__ if isinstance(k, type) and issubclass(k, ast.AST)]
            out.append((name, anc))
    return out


def find_evaluator_sites(repo: Path):
    """(module, variable) for every `X = restricted_evaluator(...)` assignment under cylc/flow."""
    sites = []
    for f in sorted((repo / 'cylc' / 'flow').rglob('*.py')):
        try:
            src = f.read_text()
        except OSError:
            continue
        if 'restricted_evaluator' not in src:
            continue
        try:
            tree = ast.parse(src)
        except SyntaxError:
            continue
        mod = '.'.join(f.relative_to(repo).with_suffix('').parts)
        for node in ast.walk(tree):
            if isinstance(node, (ast.Assign, ast.AnnAssign)) and isinstance(node.value, ast.Call):
                fn = node.value.func
                fname = fn.id if isinstance(fn, ast.Name) else fn.attr if isinstance(fn, ast.Attribute) else None
                if fname == 'restricted_evaluator':
                    targets = node.targets if isinstance(node, ast.Assign) else [node.target]
                    for t in targets:
                        if isinstance(t, ast.Name):
                            static = []
                            for a in node.value.args:
                                static.append(a.attr if isinstance(a, ast.Attribute) else
                                              a.id if isinstance(a, ast.Name) else ast.unparse(a))
                            sites.append((mod, t.id, static))
    return sites


def live_whitelist(evaluator):
    """The classes the live evaluator's visitor checks against (closure of _eval)."""
    fv = evaluator.__code__.co_freevars
    cells = dict(zip(fv, (c.cell_contents for c in evaluator.__closure__)))
    wl = cells['visitor']._whitelist
    return [k.__name__ for k in wl]


def eval_call_shape(util_mod):
    """Shape of the eval(...) call and of the statement order inside restricted_evaluator._eval."""
    src = textwrap.dedent(inspect.getsource(util_mod.restricted_evaluator))
    fn = ast.parse(src).body[0]
    inner = [n for n in fn.body if isinstance(n, ast.FunctionDef)]
    if len(inner) != 1:
        raise ValueError('restricted_evaluator: expected exactly one inner function')
    inner = inner[0]
    pos_visit = pos_eval = None
    eval_call = None
    for idx, stmt in enumerate(inner.body):
        for n in ast.walk(stmt):
            if isinstance(n, ast.Call):
                if isinstance(n.func, ast.Attribute) and n.func.attr == 'visit' and pos_visit is None:
                    pos_visit = idx
                if isinstance(n.func, ast.Name) and n.func.id in ('eval', 'exec') and pos_eval is None:
                    pos_eval = idx
                    eval_call = n
    if eval_call is None or pos_visit is None:
        raise ValueError('restricted_evaluator._eval: eval()/visit() call not found')
    globals_keys, builtins_keys = [], None
    literal = False
    if len(eval_call.args) >= 2 and isinstance(eval_call.args[1], ast.Dict):
        literal = True
        for k, v in zip(eval_call.args[1].keys, eval_call.args[1].values):
            if not isinstance(k, ast.Constant) or not isinstance(k.value, str):
                literal = False
                continue
            globals_keys.append(k.value)
            if k.value == '__builtins__':
                if isinstance(v, ast.Dict) and all(isinstance(x, ast.Constant) for x in v.keys):
                    builtins_keys = [str(x.value) for x in v.keys]
                else:
                    literal = False
    kwarg = inner.args.kwarg.arg if inner.args.kwarg else None
    locals_are_vars = (len(eval_call.args) >= 3 and isinstance(eval_call.args[2], ast.Name)
                       and eval_call.args[2].id == kwarg)
    return {
        'globals_literal': literal,
        'globals_keys': globals_keys,
        'builtins_keys': builtins_keys,
        'locals_are_vars': bool(locals_are_vars),
        'check_before_eval': pos_visit < pos_eval,
    }


def render_tables(repo: Path):
    import cylc.flow.util as util_mod
    classes = ast_classes()
    sites = find_evaluator_sites(repo)
    evaluators = []
    for mod, var, static in sites:
        m = importlib.import_module(mod)
        ev = getattr(m, var)
        try:
            wl = live_whitelist(ev)
        except Exception:
            wl = static            # fall back to the names written at the call site
        evaluators.append((f'{mod}.{var}', wl))
    by_name = dict(evaluators)
    shape = eval_call_shape(util_mod)
    real_builtins = sorted(n for n in dir(builtins))
    L = []
    L.append('/- GENERATED by harness/props/c24.py translate() from the live source and the running Python. Do not edit. -/')
    L.append('namespace CylcModel.Generated.REval')
    L.append('')
    L.append(f'def pythonVersion : String := {lean_str(sys.version.split()[0])}')
    L.append('')
    L.append('/-- every `ast.AST` subclass of the running Python: (class, its ancestors in the ast hierarchy, itself first) -/')
    L.append('def astClasses : List (String × List String) := [')
    L.append(',\n'.join(f'  ({lean_str(n)}, {lean_list([lean_str(a) for a in anc])})' for n, anc in classes))
    L.append(']')
    L.append('')
    L.append('/-- every `X = restricted_evaluator(...)` in cylc/flow: (module.variable, whitelisted classes of the live object) -/')
    L.append('def evaluators : List (String × List String) := [')
    L.append(',\n'.join(f'  ({lean_str(n)}, {lean_list([lean_str(a) for a in wl])})' for n, wl in evaluators))
    L.append(']')
    L.append('')
    comp = by_name.get('cylc.flow.task_outputs.CompletionEvaluator')
    if comp is None:
        raise ValueError('cylc.flow.task_outputs.CompletionEvaluator is not built by restricted_evaluator any more')
    L.append('/-- whitelist of `cylc.flow.task_outputs.CompletionEvaluator` (used by `get_optional_outputs` and `TaskOutputs.is_complete`) -/')
    L.append(f'def completionWhitelist : List String := {lean_list([lean_str(a) for a in comp])}')
    L.append('')
    L.append('/-- the `eval(code, <globals>, <locals>)` call of `restricted_evaluator._eval` -/')
    L.append(f'def evalGlobalsIsLiteral : Bool := {str(shape["globals_literal"]).lower()}')
    L.append(f'def evalGlobalsKeys : List String := {lean_list([lean_str(k) for k in shape["globals_keys"]])}')
    bk = shape['builtins_keys']
    L.append('/-- keys of the dict bound to `__builtins__` in the globals (`none`: not bound, Python inserts the real builtins) -/')
    L.append('def evalBuiltinsKeys : Option (List String) := ' +
             ('none' if bk is None else 'some ' + lean_list([lean_str(k) for k in bk])))
    L.append(f'def evalLocalsAreVariables : Bool := {str(shape["locals_are_vars"]).lower()}')
    L.append('/-- the `visitor.visit(...)` statement precedes the statement containing `eval(...)` -/')
    L.append(f'def checkBeforeEval : Bool := {str(shape["check_before_eval"]).lower()}')
    L.append('')
    L.append('/-- names of the real `builtins` module of the running Python -/')
    L.append(f'def realBuiltins : List String := {lean_list([lean_str(n) for n in real_builtins])}')
    L.append('')
    L.append('end CylcModel.Generated.REval')
    return '\n'.join(L) + '\n', evaluators


# ---------------------------------------------------------------------------
# K-C: canaries, expression generation, adapter

LOG = []
CANARY_FILE = '/tmp/C24-canary-file'


class Canary:
    """Object supplied for a variable: every way of using it is recorded."""
    __slots__ = ('n', 't')

    def __init__(self, n, t):
        object.__setattr__(self, 'n', n)
        object.__setattr__(self, 't', t)

    def __bool__(self):
        LOG.append('bool:' + self.n)
        return self.t

    def _op(self, hook):
        LOG.append(f'op:{self.n}:{hook}')
        return self

    def __getattr__(self, a):
        return self._op('getattr')

    def __setattr__(self, a, v):
        self._op('setattr')

    def __hash__(self):
        return id(self)

    def __iter__(self):
        self._op('iter')
        return iter(())

    def __len__(self):
        self._op('len')
        return 0

    def __contains__(self, x):
        self._op('contains')
        return False

    def __index__(self):
        self._op('index')
        return 0

    def __format__(self, spec):
        self._op('format')
        return ''

    def __repr__(self):
        return f'<canary {self.n}>'


def _mk_hook(h):
    def f(self, *a, **k):
        return self._op(h)
    return f


for _h in ('call', 'getitem', 'add', 'radd', 'sub', 'rsub', 'mul', 'rmul', 'matmul', 'rmatmul', 'truediv',
           'rtruediv', 'floordiv', 'rfloordiv', 'mod', 'rmod', 'pow', 'rpow', 'lshift', 'rlshift', 'rshift',
           'rrshift', 'and', 'rand', 'or', 'ror', 'xor', 'rxor', 'neg', 'pos', 'invert', 'lt', 'le', 'gt', 'ge',
           'eq', 'ne', 'await', 'enter', 'exit'):
    setattr(Canary, f'__{_h}__', _mk_hook(_h))


def builtin_canary(*a, **k):
    LOG.append('builtin-canary')
    return 1


def to_json(node):
    """The tree as ast.NodeVisitor.generic_visit walks it."""
    kids = []
    for _field, value in ast.iter_fields(node):
        if isinstance(value, list):
            for item in value:
                if isinstance(item, ast.AST):
                    kids.append(to_json(item))
        elif isinstance(value, ast.AST):
            kids.append(to_json(value))
    if isinstance(node, ast.Name):
        tag = node.id
    elif isinstance(node, ast.Attribute):
        tag = node.attr
    elif isinstance(node, ast.Constant):
        tag = repr(node.value)[:24]
    else:
        tag = ''
    return [type(node).__name__, tag, kids]


_TREES = {}


def parse_tree(text):
    """ast.parse(text.strip(), mode='eval') as JSON (memoised: the same text is used with many evaluators;
    the result is shared between inputs and never modified)"""
    if text not in _TREES:
        if len(_TREES) > 200000:
            _TREES.clear()
        _TREES[text] = _parse_tree(text)
    return _TREES[text]


def _parse_tree(text):
    try:
        return to_json(ast.parse(text.strip(), mode='eval'))
    except (SyntaxError, ValueError, RecursionError, MemoryError):
        return None


def kinds_of(tree):
    out = [tree[0]]
    for c in tree[2]:
        out += kinds_of(c)
    return out


SUPPLIED = ['succeeded', 'failed', 'x', 'y', 'submit_failed', 'expired', 'RESULT']
FOREIGN = ['nope', 'len', '__import__', 'open', 'print', 'eval', 'exec', 'getattr', 'verif_canary',
           '__builtins__', '__debug__', '__name__', '__file__', 'ast', 'visitor', 'variables', 'expr_node',
           'error_class', 'whitelist', 'self', 'LOG', 'Canary', 'object', 'type', 'quit']

# every kind of syntax, {a} {b} {c} are replaced by (parenthesised) sub-expressions
CATALOGUE = [
    # calls
    'verif_canary()', '{a}()', '{a}({b})', '{a}({b}, k={c})', '{a}(*{b})', '{a}(**{b})', "__import__('os').system('true')",
    'getattr({a}, "n")', 'print({a})', 'open("/tmp/C24-canary-file", "w").close()', 'exec("import os")', 'eval("1")',
    # attribute / subscript
    '{a}.real', '{a}.__class__', '{a}.__class__.__mro__', '{a}.b.c', '{a}[0]', '{a}[{b}]', '{a}[1:2]', '{a}[::2]',
    '{a}[{b}:{c}]', '{a}[1, 2]', '{a}[...]', '().__class__.__bases__[0].__subclasses__()',
    # lambda / comprehensions / walrus
    'lambda: {a}', '(lambda: verif_canary())()', '(lambda q, *r, s=1, **t: q)({a})', '[verif_canary() for _ in (1,)]',
    '[{a} for q in {b}]', '{{{a} for q in {b}}}', '{{{a}: {b} for q in {c}}}', '({a} for q in {b})',
    '[q for q in {a} if {b}]', '[q for q in {a} for r in {b}]', '(z := {a})', '[z := {a}, z]',
    # conditional, unary, binary, comparison
    '{a} if {b} else {c}', 'not {a}', '-{a}', '+{a}', '~{a}',
    '{a} + {b}', '{a} - {b}', '{a} * {b}', '{a} @ {b}', '{a} / {b}', '{a} // {b}', '{a} % {b}', '{a} ** {b}',
    '{a} << {b}', '{a} >> {b}', '{a} | {b}', '{a} ^ {b}', '{a} & {b}',
    '{a} == {b}', '{a} != {b}', '{a} < {b}', '{a} <= {b}', '{a} > {b}', '{a} >= {b}', '{a} is {b}', '{a} is not {b}',
    '{a} in {b}', '{a} not in {b}', '{a} < {b} < {c}',
    # constants
    '1', '0', '1.5', '1j', '"s"', 'b"s"', 'None', 'True', 'False', '...', '"a" "b"', '10**8',
    # f-strings
    'f"{{{a}}}"', 'f"{{{a}!r:>{{{b}}}}}"', 'f"x"',
    # displays
    '[{a}, {b}]', '({a}, {b})', '()', '[]', '{{}}', '{{{a}}}', '{{{a}: {b}}}', '{{**{a}}}', '[*{a}]', '(*{a},)',
    # generators / async
    'await {a}', '(yield {a})', '(yield)', '(yield from {a})',
    # whitelisted-looking but not: bitwise instead of boolean
    '{a} | {b} & {c}',
]

CONTEXTS = ['{X}', '{t} and {X}', '{f} and {X}', '{X} and {t}', '{t} or {X}', '{f} or {X}', '{X} or {f}',
            '({t} and ({f} or {X})) or {t}', '{t} and {t} and {X} and {f}', '  {X}\n', '({f}\n or {X})']

NOT_EXPRESSIONS = ['', '   ', 'a and', 'and a', 'a b', 'x = 1', 'import os', 'a; b', 'a\nb', 'lambda', 'a and (b',
                   'print "x"', 'yield', 'a or', '(', 'a ? b : c', 'a && b', 'a || b', '!a', 'del x', 'pass',
                   'x := 1', 'a and b)', '\x00', 'a\x00b', 'def f(): pass', 'class A: pass', 'with a: pass',
                   'return a', 'a if b', 'for q in a: pass', '*a', '**a', 'a, *b = c', '\\', '"unterminated']

CUSTOM_WHITELISTS = [
    ['Expression', 'BinOp', 'Add', 'Constant', 'Name', 'Load'],                    # the doctest of util.py
    ['Expression', 'BoolOp', 'boolop', 'Name', 'expr_context', 'UnaryOp', 'Not'],   # superclass entries
    ['Expression', 'expr', 'expr_context', 'operator', 'boolop', 'unaryop', 'cmpop'],
    ['Expression', 'Name', 'Load', 'Compare', 'cmpop', 'Constant', 'IfExp'],
    ['Expression', 'Name'],                                                        # Load missing
    ['Name', 'Load', 'BoolOp', 'And', 'Or'],                                       # Expression missing
    ['AST'],                                                                       # everything
    [],
]


def rand_frag(rng, depth, names):
    """random expression of names joined by and / or"""
    if depth <= 0 or rng.random() < 0.25:
        return rng.choice(names)
    op = rng.choice([' and ', ' or '])
    n = rng.choice([2, 2, 2, 3, 4])
    return '(' + op.join(rand_frag(rng, depth - 1, names) for _ in range(n)) + ')'


def rand_tree(rng, depth):
    """random expression over all syntax (text built from the catalogue recursively)"""
    if depth <= 0 or rng.random() < 0.2:
        return rng.choice(SUPPLIED + FOREIGN[:6] + ['1', '"s"', 'None'])
    r = rng.random()
    if r < 0.35:
        op = rng.choice([' and ', ' or '])
        return '(' + op.join(rand_tree(rng, depth - 1) for _ in range(rng.choice([2, 2, 3]))) + ')'
    tpl = rng.choice(CATALOGUE)
    return '(' + tpl.format(a=rand_tree(rng, depth - 1), b=rand_tree(rng, depth - 1), c=rand_tree(rng, depth - 1)) + ')'


class C24(Prop):
    id = 'C24'
    props_modules = ['CylcModel.Props.C24']
    theorems = [
        'CylcModel.C24.visit_rejects',
        'CylcModel.C24.visit_reports_first',
        'CylcModel.C24.rejected_before_evaluation',
        'CylcModel.C24.evaluated_only_if_whitelisted',
        'CylcModel.C24.history_independent',
        'CylcModel.C24.rejected_after_any_history',
        'CylcModel.C24.pipeline_shape',
        'CylcModel.C24.completion_whitelist_exact',
        'CylcModel.C24.dangerous_disjoint',
        'CylcModel.C24.all_evaluators_reject_calls',
        'CylcModel.C24.evaluator_sites',
        'CylcModel.C24.completion_accepts_only_fragment',
        'CylcModel.C24.names_only_supplied_counterexample',
        'CylcModel.C24.names_only_supplied_partial',
        'CylcModel.C24.no_builtins',
        'CylcModel.C24.eval_reads_only_variables',
    ]
    statement_note = (
        'partial: (a) for every tree, whitelist and environment the visitor accepts iff every node is an instance '
        'of a whitelisted class, reports the first offender, and a tree with any non-whitelisted node is rejected '
        'with no evaluation (visit_rejects, visit_reports_first, rejected_before_evaluation, '
        'evaluated_only_if_whitelisted), and the answer to a call does not depend on the calls made before it in the '
        'same process (history_independent, rejected_after_any_history: the model keeps no state); (b) over the generated tables: CompletionEvaluator accepts exactly 7 '
        'classes out of all class names, none of the dangerous constructs, and in fact only and/or over names '
        '(completion_whitelist_exact, dangerous_disjoint, completion_accepts_only_fragment); every '
        'restricted_evaluator call site rejects calls/lambdas/comprehensions/walrus (all_evaluators_reject_calls, '
        'evaluator_sites); (c) name resolution with the eval() globals/locals read from the source finds no builtin '
        '(no_builtins) and, for every name except __builtins__ and __debug__, only supplied variables '
        '(names_only_supplied_partial, eval_reads_only_variables). NOT proved because false on the current code: '
        'names_only_supplied_full - the names __builtins__ (-> {}) and __debug__ (-> True) evaluate without being '
        'supplied (names_only_supplied_counterexample; known finding reserved-names-visible). CPython compile/eval '
        'and ast.parse are environment, tied by correspondence only.')
    technique = ('mutual structural induction over a nested AST type; decide over K-T generated tables '
                 '(ast class hierarchy, live whitelists, eval() call shape); canary correspondence')
    trusted = [
        'ast.parse / ast.NodeVisitor.generic_visit / compile / eval of CPython are environment: the tree handed to the '
        'model is ast.parse(text.strip(), mode="eval") walked like generic_visit; isinstance is nominal subclassing '
        'inside the ast module (the deprecated Num/Str/... instance-check hack is not modelled)',
        'the whitelists are read from the live evaluator objects (closure of _eval), the eval() call shape from the '
        'source of restricted_evaluator by the translator',
        'side effects are observed through canaries: every special method of the supplied objects logs, a function '
        'planted in the real builtins module logs when called',
    ]
    unmodelled = [
        'values of accepted expressions outside the and/or-of-names fragment (RankingExpressionEvaluator arithmetic, '
        'comparisons, attributes, subscripts): only accept/reject, canary log and absence of builtins are checked',
        'run-time exceptions of accepted expressions',
    ]
    rule = ('catalogue of every kind of Python expression syntax (each ast class that can occur in an eval-mode tree) x '
            '11 placements inside and/or expressions (before/after a short-circuit point, nested, with whitespace) x '
            'evaluators {live CompletionEvaluator, live RankingExpressionEvaluator, 8 custom whitelists incl. superclass '
            'entries} (exhaustive over the catalogue), texts that are not expressions, random and/or expressions over '
            'supplied / unsupplied / builtin / reserved names with random truth values, random nested expressions over '
            'all syntax, random whitelists; histories of 3 calls A, B, A made in ONE process with the same text (permissive '
            'evaluator first then strict, strict first, repeated call with different truth values) over catalogue x '
            'placements x ordered evaluator pairs (all 90 ordered pairs in the thorough tier), each call judged as if made alone; non-trivial = not a bare name; distinct = distinct (evaluator, text, variables)')
    workers = 16

    def setup(self):
        import warnings
        warnings.simplefilter('ignore', DeprecationWarning)
        from cylc.flow.task_outputs import CompletionEvaluator
        from cylc.flow.host_select import RankingExpressionEvaluator
        from cylc.flow.util import restricted_evaluator
        from cylc.flow.exceptions import InvalidCompletionExpression
        self.completion = CompletionEvaluator
        self.ranking = RankingExpressionEvaluator
        self.restricted_evaluator = restricted_evaluator
        self.ICE = InvalidCompletionExpression
        self.wl = {}
        for key, ev in (('completion', CompletionEvaluator), ('ranking', RankingExpressionEvaluator)):
            try:
                self.wl[key] = live_whitelist(ev)
            except Exception as exc:
                raise core.Infra(f'cannot read the whitelist of the live {key} evaluator: {exc}')
        self._custom = {}
        builtins.verif_canary = builtin_canary

    def translate(self):
        import warnings
        warnings.simplefilter('ignore', DeprecationWarning)
        txt, _ = render_tables(core.REPO)
        return {'REvalTables.lean': txt}

    # ------------------------------------------------------------------ inputs
    def mk(self, ev, text, vars_, wl=None):
        return {'ev': ev, 'wl': list(wl) if wl is not None else list(self.wl[ev]), 'expr': text,
                'tree': parse_tree(text), 'vars': [[n, bool(t)] for n, t in vars_]}

    def corpus(self):
        V = [('succeeded', True), ('failed', False), ('x', True)]
        return [
            self.mk('completion', '(succeeded and x) or failed', V),
            self.mk('completion', 'succeeded or __import__("os").system("true")', V),
            self.mk('completion', 'failed and verif_canary()', V),
            self.mk('completion', 'succeeded or len', V),
            self.mk('completion', 'failed or len', V),
            self.mk('completion', 'verif_canary', V),
            self.mk('completion', 'succeeded | failed', V),
            self.mk('completion', 'succeeded and (z := failed)', V),
            self.mk('completion', '1 + 1', []),
            self.mk('ranking', 'RESULT.available > 1000', [('RESULT', True)]),
            self.mk('ranking', 'RESULT[0].__class__()', [('RESULT', True)]),
            self.mk('ranking', 'RESULT < verif_canary()', [('RESULT', True)]),
            self.mk('custom', '1 + 1', [], CUSTOM_WHITELISTS[0]),
            self.mk('custom', '1 - 1', [], CUSTOM_WHITELISTS[0]),
            self.mk('custom', 'not x and y', [('x', False), ('y', True)], CUSTOM_WHITELISTS[1]),
        ]

    def std_vars(self, k=0):
        truth = [(True, False, True, False), (False, True, True, True), (True, True, False, False)][k % 3]
        return [('succeeded', truth[0]), ('failed', truth[1]), ('x', truth[2]), ('y', truth[3]), ('RESULT', True)]

    def gen(self, tier, rng):
        evs = [('completion', None), ('ranking', None)] + [('custom', w) for w in CUSTOM_WHITELISTS]
        subs = [('x', 'y', 'failed'), ('succeeded', 'nope', 'x'), ('(x or y)', 'failed', 'len')]
        # histories first: if the answer to a call depends on earlier calls in the process, single-call
        # cases further down may fail too (workers run many cases), but only a history is a
        # self-contained replay, and the runner reports the first failure of each kind
        yield from self.gen_histories(tier, rng, evs, subs)
        k = 0
        # exhaustive over catalogue x contexts x evaluators
        for ci, tpl in enumerate(CATALOGUE):
            for xi, ctx in enumerate(CONTEXTS):
                a, b, c = subs[(ci + xi) % len(subs)]
                text = ctx.format(X='(' + tpl.format(a=a, b=b, c=c) + ')', t='succeeded', f='failed')
                for ev, wl in evs:
                    k += 1
                    vs = self.std_vars(k)
                    # "succeeded" is true and "failed" is false in the contexts: keep that reading
                    vs[0] = ('succeeded', True)
                    vs[1] = ('failed', False)
                    yield self.mk(ev, text, vs, wl)
        for text in NOT_EXPRESSIONS:
            for ev, wl in evs[:3]:
                yield self.mk(ev, text, self.std_vars(0), wl)
        n_frag, n_rand, n_wl = {'quick': (4000, 3000, 1500), 'thorough': (60000, 45000, 20000)}.get(
            tier, (80000, 60000, 25000))
        all_classes = [n for n, _ in ast_classes()]
        for _ in range(n_frag):
            sup = rng.sample(SUPPLIED, rng.randint(0, 5))
            if rng.random() < 0.1:
                sup.append(rng.choice(['__builtins__', '__debug__', 'len', 'verif_canary']))
            names = sup + rng.sample(FOREIGN, rng.randint(0, 3)) + rng.sample(SUPPLIED, 1)
            text = rand_frag(rng, rng.randint(1, 4), names)
            if rng.random() < 0.2:
                text = rng.choice([' ', '\n', '\t ']) + text + rng.choice([' ', '\n', ''])
            ev, wl = rng.choice([('completion', None)] * 4 + [('custom', CUSTOM_WHITELISTS[1]), ('ranking', None)])
            yield self.mk(ev, text, [(n, rng.random() < 0.5) for n in sup if n != '__debug__'], wl)
        for _ in range(n_rand):
            text = rand_tree(rng, rng.randint(1, 3))
            ev, wl = rng.choice(evs)
            yield self.mk(ev, text, [(n, rng.random() < 0.5) for n in rng.sample(SUPPLIED, rng.randint(1, 6))], wl)
        for _ in range(n_wl):
            wl = rng.sample(all_classes, rng.randint(0, 12)) + rng.sample(
                ['Expression', 'Name', 'Load', 'BoolOp', 'And', 'Or', 'expr', 'boolop', 'expr_context', 'operator',
                 'BinOp', 'Constant', 'Call', 'Attribute'], rng.randint(0, 10))
            text = rand_tree(rng, rng.randint(1, 3)) if rng.random() < 0.7 else rand_frag(rng, 3, SUPPLIED[:4] + ['len'])
            yield self.mk('custom', text, [(n, rng.random() < 0.5) for n in rng.sample(SUPPLIED, rng.randint(1, 6))], wl)

    def mk_seq(self, text, steps):
        """steps: [(ev, wl, vars)] - calls made in this order in one process"""
        return {'seq': [self.mk(ev, text, vs, wl) for ev, wl, vs in steps]}

    def gen_histories(self, tier, rng, evs, subs):
        """A, B, A on the same text in one process, for ordered evaluator pairs (A, B)."""
        all_pairs = [(a, b) for a in range(len(evs)) for b in range(len(evs)) if a != b]
        if tier == 'quick':
            # permissive -> strict, strict -> permissive, and pairs of custom whitelists
            # evs: 0 completion, 1 ranking, 2.. custom (8 = ['AST'] accepts everything, 4 = all expr)
            pairs = [(1, 0), (8, 0), (4, 0), (3, 0), (2, 0), (0, 1), (0, 8), (8, 1), (4, 1), (1, 8),
                     (8, 2), (8, 3), (8, 9), (1, 2)]
            ctxs = ['{X}', '{t} or {X}', '{f} and {X}']
        else:
            pairs = all_pairs
            ctxs = ['{X}', '{t} or {X}', '{f} and {X}', '{X} and {t}', '({t} and ({f} or {X})) or {t}']
        k = 0
        for ci, tpl in enumerate(CATALOGUE):
            for xi, ctx in enumerate(ctxs):
                a, b, c = subs[(ci + xi) % len(subs)]
                text = ctx.format(X='(' + tpl.format(a=a, b=b, c=c) + ')', t='succeeded', f='failed')
                for pa, pb in pairs:
                    k += 1
                    v1 = self.std_vars(k)
                    v1[0], v1[1] = ('succeeded', True), ('failed', False)
                    v3 = [(n, not t) for n, t in v1]       # third call: same text, other truth values
                    v3[0], v3[1] = ('succeeded', True), ('failed', False)
                    yield self.mk_seq(text, [(evs[pa][0], evs[pa][1], v1), (evs[pb][0], evs[pb][1], v1),
                                             (evs[pa][0], evs[pa][1], v3)])
        # and/or expressions of names: the value must follow the variables of the current call
        for _ in range(300 if tier == 'quick' else 5000):
            text = rand_frag(rng, rng.randint(1, 3), SUPPLIED[:4] + ['nope', 'len', '__builtins__'])
            steps = []
            for _call in range(rng.randint(2, 4)):
                ev, wl = rng.choice([evs[0], evs[0], evs[1], evs[3], evs[8]])
                steps.append((ev, wl, [(n, rng.random() < 0.5) for n in rng.sample(SUPPLIED[:4], rng.randint(0, 4))]))
            yield self.mk_seq(text, steps)

    # ------------------------------------------------------------ implementation
    def evaluator(self, inp):
        if inp['ev'] == 'completion':
            return self.completion
        if inp['ev'] == 'ranking':
            return self.ranking
        key = tuple(inp['wl'])
        ev = self._custom.get(key)
        if ev is None:
            ev = self.restricted_evaluator(*[getattr(ast, n) for n in key])
            self._custom[key] = ev
        return ev

    def impl(self, inp):
        if 'seq' in inp:
            # a history: the calls are made one after the other in this process
            return {'seq': [self.impl_call(c) for c in inp['seq']]}
        return self.impl_call(inp)

    def impl_call(self, inp):
        import warnings
        warnings.simplefilter('ignore')
        ev = self.evaluator(inp)
        canaries = {n: Canary(n, t) for n, t in inp['vars']}
        del LOG[:]
        out = None
        # anything written to stdout, or the file the catalogue tries to open, is a side effect that is
        # only possible with the real builtins: report it as the builtin canary (and keep stdout clean)
        real_stdout, sys.stdout = sys.stdout, io.StringIO()
        try:
            out = self._call(ev, inp, canaries)
        finally:
            written, sys.stdout = sys.stdout.getvalue(), real_stdout
        if written:
            LOG.append('builtin-canary')
        if os.path.exists(CANARY_FILE):
            LOG.append('builtin-canary')
            try:
                os.remove(CANARY_FILE)
            except OSError:
                pass
        out['log'] = sorted(set(LOG))
        del LOG[:]
        return out

    def _call(self, ev, inp, canaries):
        try:
            r = ev(inp['expr'], **canaries)
        except NameError as exc:
            out = {'res': 'nameerror', 'name': getattr(exc, 'name', None) or str(exc).split("'")[1]}
        except BaseException as exc:  # noqa
            msg = str(exc)
            m = re.search(r'\n"(\w+)" not permitted\Z', msg)
            # raised by _eval itself (parse error / whitelist) or from inside the evaluated code?
            tb = exc.__traceback__
            while tb is not None and tb.tb_next is not None:
                tb = tb.tb_next
            # (a raw SyntaxError out of _eval is compile() refusing an accepted tree, e.g. "await")
            by_evaluator = (tb is not None and tb.tb_frame.f_code.co_name == '_eval'
                            and not isinstance(exc, SyntaxError))
            if m and by_evaluator:
                out = {'res': 'reject', 'kind': m.group(1)}
            elif by_evaluator or inp['tree'] is None:
                out = {'res': 'syntax'}
            else:
                out = {'res': 'raise', 'exc': type(exc).__name__}
        else:
            out = {'res': 'value', 'val': self.encode(r, canaries)}
        return out

    def encode(self, r, canaries):
        for n, c in canaries.items():
            if r is c:
                return 'var:' + n
        if r is True or r is False or r is None:
            return 'const:' + repr(r)
        if isinstance(r, dict) and not r:
            return 'const:{}'
        if callable(r) or isinstance(r, type(builtins)):
            for n, v in vars(builtins).items():
                if r is v:
                    return 'builtin:' + n
        return 'other:' + type(r).__name__

    def impl_batch(self, inputs):
        # core.Prop.impl_batch pickles the bound method, and with it the evaluator closures held by
        # this object; fork workers and reach the instance through the module global instead
        if len(inputs) < 64:
            return [self.impl(i) for i in inputs]
        import multiprocessing as mp
        global _INPUTS
        _INPUTS = inputs            # inherited by the forked workers: only indices are sent to them
        try:
            with mp.get_context('fork').Pool(self.workers) as pool:
                return pool.map(_impl_worker, range(len(inputs)),
                                chunksize=max(1, len(inputs) // (self.workers * 8)))
        finally:
            _INPUTS = []

    def equal(self, model_out, obs):
        if 'seq' in model_out:
            ms, os_ = model_out['seq'], (obs.get('seq') if isinstance(obs, dict) else None) or []
            return len(ms) == len(os_) and all(self.equal(m, o) for m, o in zip(ms, os_))
        if model_out.get('res') == 'unmodelled':
            return obs.get('res') in ('value', 'nameerror', 'raise')
        return model_out == obs

    # ------------------------------------------------------------------ evidence
    def classify(self, inp, obs):
        if 'seq' in inp:
            calls = inp['seq']
            evs = '>'.join(c['ev'][:4] if c['ev'] != 'custom' else 'cust' for c in calls[:3])
            res = ','.join(o['res'] for o in obs['seq'][:3])
            return f'history/{evs}/{res}'
        t = inp['tree']
        if t is not None and len(kinds_of(t)) <= 3:
            return None        # a bare name / constant
        res = obs['res']
        if res == 'reject':
            res += ':' + obs.get('kind', '?')
        elif res == 'value':
            res += ':' + obs['val'].split(':')[0]
        return inp['ev'] + '/' + res

    def neighbours(self, inp, rng):
        if 'seq' in inp:
            calls = inp['seq']
            # the same calls in the opposite order, and each call alone
            return [{'seq': list(reversed(calls))}] + [dict(c) for c in calls]
        out = []
        vs = [(n, t) for n, t in inp['vars']]
        for ev, wl in [('completion', None), ('ranking', None)]:
            out.append(self.mk(ev, inp['expr'], vs, wl))
            out.append(self.mk(ev, inp['expr'], [(n, not t) for n, t in vs], wl))
        for tpl in CATALOGUE[::3]:
            out.append(self.mk('completion', 'succeeded and (' + tpl.format(a='x', b='y', c='failed') + ')',
                               self.std_vars(0)))
        return out


PROP = C24()


_INPUTS = []


def _impl_worker(idx):
    return PROP.impl(_INPUTS[idx])
