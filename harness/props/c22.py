"""C22  Broadcasts override in precedence order and persist exactly.

Real `BroadcastMgr` on a stub scheduler with a real `WorkflowDatabaseManager` (two sqlite files in
a scratch directory).  A case is a history of put / clear / expire / flush / restart / get
operations; observed after every operation: what the call reported, the complete broadcast
store (flattened to one entry per item), the `broadcast_states` rows after a database write, the
broadcast and the runtime configuration a task gets.
"""
from __future__ import annotations

import json
import logging
import os
import random
import shutil
import sqlite3
import tempfile

from core import Prop

SECTIONS = ('environment', 'directives', 'meta', 'events', 'remote', 'job', 'outputs', 'simulation')
ITEMS = ('script', 'pre-script', 'post-script', 'init-script', 'env-script', 'err-script', 'exit-script')


def to_dict(pairs):
    """[[key, value | pairs] ...] -> dict (order kept)"""
    out = {}
    for k, v in pairs:
        out[k] = to_dict(v) if isinstance(v, list) else v
    return out


def flatten(d, pre=()):
    out = []
    for k, v in d.items():
        if isinstance(v, dict):
            out += flatten(v, pre + (k,))
        else:
            out.append([list(pre + (k,)), canon_value(v)])
    return out


def canon_value(v):
    """A (coerced) broadcast value as the text it was given as: '' / [] -> '', False -> 'False', ..."""
    if isinstance(v, str):
        return v
    if isinstance(v, (list, tuple)):
        return ', '.join(canon_value(x) for x in v)
    return str(v)


def store_entries(broadcasts):
    out = []
    for point, nss in broadcasts.items():
        for ns, settings in nss.items():
            for path, v in flatten(settings):
                out.append([point, ns, path, v])
    return sorted(out)


def mod_entries(modified):
    out = []
    for point, ns, setting in modified or []:
        for path, v in flatten(setting):
            e = [point, ns, path, v]
            if e not in out:
                out.append(e)
    return sorted(out)


def sort_obs(o):
    """sort every list of entries of a model reply"""
    if isinstance(o, list):
        return [sort_obs(x) for x in o]
    if isinstance(o, dict):
        return {k: (sorted(v, key=json.dumps) if isinstance(v, list) else v) for k, v in o.items()}
    return o


def S(**kw):
    """settings dictionary as ordered pair list; nested via dict values"""
    def conv(d):
        return [[k, conv(v) if isinstance(v, dict) else v] for k, v in d.items()]
    return conv(kw)


class C22(Prop):
    id = 'C22'
    props_modules = ['CylcModel.Props.C22']
    theorems = [
        'CylcModel.C22.get_precedence',
        'CylcModel.C22.rtconfig_override',
        'CylcModel.C22.clear_exact',
        'CylcModel.C22.expire_exact',
        'CylcModel.C22.run_persist',
        'CylcModel.C22.reload_identity_partial',
        'CylcModel.C22.reload_identity_live',
        'CylcModel.C22.reload_identity_single_item_partial',
        'CylcModel.C22.reload_first_item_only_counterexample',
        'CylcModel.C22.reload_identity_counterexample',
    ]
    technique = 'extensional (lookup) characterisation + inductive invariant over histories; correspondence on the real BroadcastMgr + sqlite'
    trusted = [
        'value coercion (BroadcastConfigValidator), platform / run-mode checks of put_broadcast: environment; '
        'values are clean strings',
        'values are compared as the text they were given as (lists joined, booleans as True/False); durations are not generated',
        'integer cycling: standardise_point_string drops leading zeros; other point syntaxes are not modelled',
        'the nested dictionaries are compared flattened (one entry per item); empty branches left in '
        'BroadcastMgr.broadcasts are not observed',
    ]
    unmodelled = [
        'bad_options reports of clear_broadcast / expire_broadcast',
        'empty setting dictionaries, non-empty list values and durations, ext-trigger broadcasts',
        'the broadcast_events log table',
    ]
    rule = ('seeded random histories over 1-3 points (incl. "*", leading zeros, invalid), an inheritance tree of '
            '5 namespaces, 1-2 level settings incl. multi-item dictionaries, keys containing brackets and values that are falsy after coercion (empty string, empty list, False); every '
            'history ends with flush/restart and get for every task; non-trivial = at least one put that '
            'modified something plus a clear/expire/restart; class = kinds of operations that had an effect')
    workers = 16

    ANC = [['root', ['root']], ['FAM', ['FAM', 'root']], ['G', ['G', 'FAM', 'root']],
           ['t1', ['t1', 'G', 'FAM', 'root']], ['t2', ['t2', 'FAM', 'root']], ['t3', ['t3', 'root']]]

    # -- setup / translate ------------------------------------------------
    def setup(self):
        from cylc.flow import LOG
        LOG.setLevel(logging.CRITICAL + 10)
        import cylc.flow.cycling.loader as loader
        loader.DefaultCycler.TYPE = loader.INTEGER_CYCLING_TYPE
        from cylc.flow.broadcast_mgr import BroadcastMgr, ALL_CYCLE_POINTS_STRS
        from cylc.flow.workflow_db_mgr import WorkflowDatabaseManager
        from cylc.flow.parsec.OrderedDict import OrderedDictWithDefaults
        from cylc.flow.run_modes import RunMode
        from cylc.flow.id import Tokens
        self.B, self.M, self.OD, self.RunMode, self.Tokens = (
            BroadcastMgr, WorkflowDatabaseManager, OrderedDictWithDefaults, RunMode, Tokens)
        self.all_names = list(ALL_CYCLE_POINTS_STRS)
        base = '/dev/shm' if os.access('/dev/shm', os.W_OK) else tempfile.gettempdir()
        self.base = os.path.join(base, 'C22')
        os.makedirs(self.base, exist_ok=True)
        self.all_keys = None

    def probe(self):
        if self.all_keys is None:
            from cylc.flow.broadcast_report import get_broadcast_change_iter
            ch = list(get_broadcast_change_iter(
                [('1', 'root', {'environment': {'A': '1', 'B': '2'}, 'script': 'x'})]))
            keys = sorted(c['key'] for c in ch)
            if keys == ['[environment]A']:
                self.all_keys = False
            elif keys == ['[environment]A', '[environment]B', 'script']:
                self.all_keys = True
            else:
                raise RuntimeError(f'probe: change iter yields {keys}')
            self.statement_note = self.note()
        return self.all_keys

    def note(self):
        base = ('get_precedence, rtconfig_override, clear_exact, expire_exact: full (all stores, filters, points, '
                'inheritance chains). reload_identity_partial: reload_identity_full proved for every put/clear/expire/flush history under the '
                'hypotheses "every setting item is recorded" and "no key contains [ or ]"; ')
        if self.all_keys:
            return base + ('the live get_broadcast_change_iter records every item, so only the bracket hypothesis '
                           'remains (known finding bracket-key, counterexample theorem).')
        return base + ('the live get_broadcast_change_iter records only the first item of a multi-item setting '
                       '(known finding multikey-first-only, counterexample theorem, fix in findings/C22-fix-1.diff); '
                       'for the live code the restart identity is proved for single-item settings only (reload_identity_single_item_partial); keys '
                       'containing brackets: known finding bracket-key (counterexample theorem).')

    def translate(self):
        allk = self.probe()
        names = ', '.join(json.dumps(n) for n in self.all_names)
        return {'BcastCfg.lean': '\n'.join([
            '/- GENERATED by harness/props/c22.py translate() from the live source',
            '   (cylc/flow/broadcast_mgr.py: ALL_CYCLE_POINTS_STRS; get_broadcast_change_iter probed). Do not edit. -/',
            'namespace CylcModel.Generated.BcastCfg',
            '',
            '/-- `ALL_CYCLE_POINTS_STRS` -/',
            f'def allCyclePointsStrs : List String := [{names}]',
            '/-- probed: `get_broadcast_change_iter` yields a change for every item of a multi-item setting',
            '    dictionary (false: only for its first item) -/',
            f'def changeIterAllKeys : Bool := {"true" if allk else "false"}',
            '',
            'end CylcModel.Generated.BcastCfg',
            '',
        ])}

    # -- the world ---------------------------------------------------------
    def new_mgr(self, wdb):
        P = self

        class DS:
            def delta_broadcast(self):
                pass

        class Cfg:
            def get_config(self, keys, sparse=False):
                o = P.OD()
                for k in SECTIONS:
                    o[k] = P.OD()
                return o

        class Schd:
            workflow_db_mgr = wdb
            data_store_mgr = DS()
            config = Cfg()

            def get_run_mode(self):
                return P.RunMode.LIVE
        b = self.B(Schd())
        b.linearized_ancestors = {t: list(a) for t, a in self.ANC}
        return b

    def impl(self, inp):
        d = tempfile.mkdtemp(prefix='c22-', dir=self.base)
        os.mkdir(os.path.join(d, 'pri'))
        os.mkdir(os.path.join(d, 'pub'))
        out = []
        try:
            wdb = self.M(os.path.join(d, 'pri'), os.path.join(d, 'pub'))
            wdb.on_workflow_start(False)
            b = self.new_mgr(wdb)
            static = self.OD()
            for k in SECTIONS:
                static[k] = self.OD()
            for path, v in inp.get('static', []):
                t = static
                for k in path[:-1]:
                    t = t[k]
                t[path[-1]] = v

            def db_rows():
                conn = sqlite3.connect(wdb.pri_path)
                try:
                    return sorted([list(r) for r in conn.execute(
                        'SELECT point, namespace, key, value FROM broadcast_states')])
                finally:
                    conn.close()
            for op in inp['ops']:
                k = op['op']
                try:
                    if k == 'put':
                        mod, bad = b.put_broadcast(op['points'], op['ns'], [to_dict(s) for s in op['settings']])
                        out.append({'mod': mod_entries(mod), 'badp': sorted(bad.get('point_strings', [])),
                                    'badn': sorted(bad.get('namespaces', [])), 'store': store_entries(b.broadcasts)})
                    elif k == 'clear':
                        cancel = [to_dict(s) for s in op['cancel']] if op.get('cancel') else None
                        mod, bad = b.clear_broadcast(op.get('points') or None, op.get('ns') or None, cancel)
                        out.append({'mod': mod_entries(mod), 'store': store_entries(b.broadcasts)})
                    elif k == 'expire':
                        mod, bad = b.expire_broadcast(op.get('cutoff'))
                        out.append({'mod': mod_entries(mod), 'store': store_entries(b.broadcasts)})
                    elif k == 'flush':
                        wdb.process_queued_ops()
                        out.append({'store': store_entries(b.broadcasts), 'db': db_rows()})
                    elif k == 'restart':
                        before = store_entries(b.broadcasts)
                        wdb.process_queued_ops()
                        wdb.on_workflow_shutdown()
                        wdb = self.M(os.path.join(d, 'pri'), os.path.join(d, 'pub'))
                        wdb.on_workflow_start(True)
                        b = self.new_mgr(wdb)
                        wdb.pri_dao.select_broadcast_states(b.load_db_broadcast_states)
                        try:
                            b.post_load_db_coerce()
                        except Exception:  # noqa  (values are plain strings here; see finding bracket-key)
                            pass
                        out.append({'before': before, 'store': store_entries(b.broadcasts), 'db': db_rows()})
                    elif k == 'get':
                        tokens = self.Tokens(cycle=op['point'], task=op['task'])
                        bc = b.get_broadcast(tokens)

                        class TDef:
                            rtconfig = static

                        class ITask:
                            tdef = TDef()
                        ITask.tokens = tokens
                        rt = b.get_updated_rtconfig(ITask())
                        out.append({'bc': sorted(flatten(bc)), 'rt': sorted(flatten(rt))})
                    else:
                        raise ValueError(k)
                except Exception as exc:  # noqa
                    out.append({'exc': type(exc).__name__ + ':' + str(exc)[:60]})
                    break
            try:
                wdb.on_workflow_shutdown()
            except Exception:
                pass
        finally:
            shutil.rmtree(d, ignore_errors=True)
        return out

    def equal(self, model_out, obs):
        return sort_obs(model_out) == obs

    # -- cases -------------------------------------------------------------
    def mk(self, ops, static=None):
        return {'anc': self.ANC, 'static': static if static is not None else
                [[['script'], 's0'], [['environment', 'A'], 'a0'], [['environment', 'Z'], 'z0'], [['meta', 'title'], 'm0']],
                'ops': ops}

    def gets(self, points=('1', '2')):
        return [{'op': 'get', 'point': p, 'task': t} for p in points for t, _ in self.ANC if t.startswith('t')]

    def corpus(self):
        put = lambda pts, nss, *sets: {'op': 'put', 'points': pts, 'ns': nss, 'settings': list(sets)}  # noqa: E731
        return [
            # precedence: all-cycle root < all-cycle task < cycle root < cycle family < cycle task
            self.mk([put(['*'], ['root'], S(script='r*', environment={'A': 'ra*', 'B': 'rb*'})),
                     put(['*'], ['t1'], S(script='t1*')),
                     put(['1'], ['root'], S(script='r1')),
                     put(['1'], ['FAM'], S(environment={'A': 'fam1'})),
                     put(['1'], ['t1'], S(environment={'B': 't1b'}))] + self.gets() + [{'op': 'restart'}] + self.gets()),
            # clear by point / namespace / item, expire
            self.mk([put(['1', '2', '*'], ['root', 't1'], S(script='x'), S(environment={'A': '1'}), S(environment={'B': '2'})),
                     {'op': 'flush'},
                     {'op': 'clear', 'points': ['1'], 'ns': None, 'cancel': [S(environment={'A': 'zz'})]},
                     {'op': 'clear', 'points': None, 'ns': ['t1'], 'cancel': None},
                     {'op': 'expire', 'cutoff': 2}, {'op': 'restart'}] + self.gets()),
            # put + clear in one batch ("clear removes pending inserts"), then put again
            self.mk([put(['1'], ['root'], S(script='a')), {'op': 'clear', 'points': None, 'ns': None, 'cancel': None},
                     put(['1'], ['root'], S(script='b')), {'op': 'restart'},
                     {'op': 'clear', 'points': None, 'ns': None, 'cancel': None}, put(['01'], ['root', 'nope'], S(script='c')),
                     {'op': 'restart'}] + self.gets()),
            # values that are falsy after coercion survive a clear / expire aimed at something else, and a restart
            self.mk([put(['1', '*'], ['root'], S(script=''), S(environment={'A': ''}), S(**{'execution retry delays': ''}),
                         S(simulation={'fail try 1 only': 'False'}), S(**{'pre-script': 'p'})),
                     put(['2'], ['t1'], S(script='x')), {'op': 'flush'},
                     {'op': 'clear', 'points': None, 'ns': None, 'cancel': [S(**{'pre-script': 'zz'})]},
                     {'op': 'expire', 'cutoff': 1}, {'op': 'clear', 'points': ['2'], 'ns': None, 'cancel': None},
                     {'op': 'restart'}] + self.gets()),
            # bad points and namespaces
            self.mk([put(['x', '1', '*', 'all-cycles'], ['nope', 't2'], S(script='a'))] + self.gets()),
            # multi-item dictionary, restart (finding witness on the unrepaired code)
            self.mk([put(['1'], ['root'], S(environment={'A': '1', 'B': '2'}, script='x')), {'op': 'restart'}]),
        ]

    def rand_setting(self, rng, multi_ok=True, brackets=False):
        def leaf():
            r = rng.random()
            # values that are falsy once coerced ('' / [] / False) must survive clears of other items
            if r < 0.07:
                return ('execution retry delays',), ''
            if r < 0.14:
                return ('simulation', 'fail try 1 only'), rng.choice(['False', 'True'])
            if r < 0.4:
                return (rng.choice(ITEMS[:3]),), rng.choice(['a', 'b', 'c', '', ''])
            if r < 0.85:
                return ('environment', rng.choice(['A', 'B', 'C'])), rng.choice(['1', '2', '3', ''])
            sec = rng.choice(['directives', 'meta'])
            key = rng.choice(['-l', 'x', 'title'])
            if brackets and rng.random() < 0.5:
                key = rng.choice(['a]b', '[q]', 'n[1]', ']'])
            return (sec, key), rng.choice(['u', 'v'])
        n = 1
        if multi_ok and rng.random() < 0.3:
            n = rng.randint(2, 4)
        d = {}
        for _ in range(n):
            path, v = leaf()
            if len(path) == 1:
                d[path[0]] = v
            else:
                d.setdefault(path[0], {})[path[1]] = v
        return S(**d)

    def random_case(self, rng, multi_ok=True, brackets=False):
        points = rng.choice([['1', '2', '*'], ['1', '2', '3', '*'], ['1', '*'], ['2', '10', '*']])
        nss = [t for t, _ in self.ANC]
        ops = []
        for _ in range(rng.randint(2, 9)):
            r = rng.random()
            if r < 0.45:
                ps = rng.sample(points, rng.randint(1, min(2, len(points))))
                if rng.random() < 0.15:
                    ps = [('0' + p if p != '*' else p) for p in ps]
                if rng.random() < 0.07:
                    ps.append(rng.choice(['x', 'all-cycles', 'next', '1/2']))
                ns = rng.sample(nss, rng.randint(1, 2))
                if rng.random() < 0.07:
                    ns.append('nope')
                sets = [self.rand_setting(rng, multi_ok, brackets) for _ in range(rng.choice([1, 1, 2, 3]))]
                ops.append({'op': 'put', 'points': ps, 'ns': ns, 'settings': sets})
            elif r < 0.65:
                ps = rng.sample(points, rng.randint(1, 2)) if rng.random() < 0.6 else None
                ns = rng.sample(nss, rng.randint(1, 2)) if rng.random() < 0.5 else None
                cancel = [self.rand_setting(rng, multi_ok, brackets) for _ in range(rng.choice([1, 2]))] \
                    if rng.random() < 0.5 else None
                ops.append({'op': 'clear', 'points': ps, 'ns': ns, 'cancel': cancel})
            elif r < 0.75:
                ops.append({'op': 'expire', 'cutoff': rng.choice([None, 1, 2, 3, 11]) if rng.random() < 0.9 else 2})
            elif r < 0.85:
                ops.append({'op': 'flush'})
            elif r < 0.93:
                ops.append({'op': 'restart'})
            else:
                ops.append({'op': 'get', 'point': rng.choice(['1', '2']), 'task': rng.choice(['t1', 't2', 't3'])})
        ops.append({'op': rng.choice(['restart', 'restart', 'flush'])})
        ops += [g for g in self.gets() if rng.random() < 0.5]
        if brackets:
            # a reloaded bracket key can turn an item into a section: get_updated_rtconfig then raises
            # KeyError (part of finding bracket-key); such histories are judged on the restart only
            # and put_broadcast (poverride of the config with the reloaded broadcasts) too: the history
            # stops at its first restart
            ops = [o for o in ops if o['op'] != 'get']
            for n, o in enumerate(ops):
                if o['op'] == 'restart':
                    ops = ops[:n + 1]
                    break
        return self.mk(ops)

    def gen(self, tier, rng):
        n = {'quick': 2000, 'thorough': 60000}.get(tier, 160000)
        for i in range(n):
            # a third of the histories use single-item settings only (the domain on which the unrepaired
            # code persists exactly), a tenth use keys containing brackets
            yield self.random_case(rng, multi_ok=(i % 3 != 0), brackets=(i % 10 == 1))

    def classify(self, inp, obs):
        tags = set()
        for op, ob in zip(inp['ops'], obs):
            if 'exc' in ob:
                return 'exception'
            k = op['op']
            if k in ('put', 'clear', 'expire') and ob.get('mod'):
                tags.add(k)
            if k == 'put':
                if ob.get('badp') or ob.get('badn'):
                    tags.add('bad')
                if any(len(flatten(to_dict(s))) > 1 for s in op['settings']):
                    tags.add('multi')
            if k == 'restart' and ob.get('store'):
                tags.add('restart' if ob['store'] == ob['before'] else 'restart-differs')
            if k == 'get' and ob.get('bc'):
                tags.add('get')
        if 'put' not in tags or len(tags) < 2:
            return None
        return '+'.join(sorted(tags - {'put', 'get', 'bad'})) or 'put+get'

    def neighbours(self, inp, rng):
        out = []
        ops = inp['ops']
        for i in range(len(ops)):
            out.append(dict(inp, ops=ops[:i] + ops[i + 1:]))
            out.append(dict(inp, ops=ops[:i + 1] + [{'op': 'restart'}] + ops[i + 1:]))
        return out[:40]


PROP = C22()
