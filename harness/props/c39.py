"""C39  Workflow names cannot escape the cylc-run directory.

One case = one candidate workflow name, run through the real validate_workflow_name (with and
without the reserved-name check) and, when accepted, through the real get_workflow_run_dir.
"""
from __future__ import annotations

import itertools
import json
import os
import re
import tempfile

from core import Prop

RESERVED_SPEC = ['.service', '_cylc-install', 'flow.cylc', 'log', 'runN', 'share', 'suite.rc', 'work']

COMPS = (
    ['a', 'b', 'foo', 'x1', 'é', 'Ж9', 'a_b', 'a-b', 'a+b', 'a@b', 'a.b', '_', '_a']                  # ordinary
    + ['..', '.', '', '...', '.a', '..a', 'a..', '.hidden']                                            # dots
    + RESERVED_SPEC + ['run1', 'run12', 'run0', 'run١', 'run१२', 'run1\n', 'RUN1', 'Run1', 'run', 'run1x',
                       'xrun1', 'run-1', 'run1.', 'runN1', 'log1', 'Log', 'logs', '.services', 'work\n', 'share ']   # reserved + near
    + ['~', '~a', 'a~', 'a b', ' ', 'a\tb', 'a\nb', '\n', 'a\n', '$HOME', '${HOME}', 'a*', 'a:b', 'a\\b', 'a,b', '²a',
       '١a', '1a', '-a', '9', 'a​', 'á', 'ａ', 'ª', '٣']                           # other alphabets
)
ALPHA = ['a', 'b', 'Z', '1', '0', '.', '.', '/', '/', '-', '_', '+', '@', '~', ' ', '\n', 'é', 'Ж', '١', '²', '$', '\\', '*', ':']


def lean_char(c):
    if 0x20 < ord(c) < 0x7f and c not in "'\\":
        return "'%s'" % c
    return 'Char.ofNat %d' % ord(c)


def lean_chars(s):
    return '[' + ', '.join(lean_char(c) for c in s) + ']'


def parse_class(body):
    """Bracket class body -> (literal chars, has \\w, has \\d)."""
    chars, word, digit = [], False, False
    i = 0
    while i < len(body):
        c = body[i]
        if c == '\\':
            n = body[i + 1]
            if n == 'w':
                word = True
            elif n == 'd':
                digit = True
            elif n.isalnum():
                raise ValueError(f'unsupported escape \\{n} in character class {body!r}')
            else:
                chars.append(n)
            i += 2
            continue
        if c == '-' and 0 < i < len(body) - 1:
            raise ValueError(f'character range in class {body!r} is not supported by the translator')
        if c in '[]^':
            raise ValueError(f'unsupported character {c!r} in class {body!r}')
        chars.append(c)
        i += 1
    return chars, word, digit


class C39(Prop):
    id = 'C39'
    props_modules = ['CylcModel.Props.C39']
    theorems = [
        'CylcModel.C39.name_inside',
        'CylcModel.C39.name_inside_string',
        'CylcModel.C39.no_reserved_component',
        'CylcModel.C39.reserved_table_complete',
        'CylcModel.C39.runN_rejected',
    ]
    statement_note = (
        'full: for every name (any length, any characters; \\w and \\d arbitrary predicates) accepted by validate_workflow_name, '
        'with or without the reserved-name check, and every normalised run directory, normpath(run_dir/name) = run_dir/c1/../ck '
        'with k >= 1 and every ci a proper component (non-empty, not "." or "..", no "/"), i.e. a strict descendant; when reserved '
        'names are checked no ci is a reserved name or run<digits>.  Symlinks already inside cylc-run are out of scope')
    technique = 'stack invariant of posixpath.normpath over component lists (induction), generated rule/reserved tables, exhaustive small box + generated names'
    trusted = [
        'posixpath.normpath / os.path.isabs / os.path.join / PurePosixPath.parts semantics as modelled in CylcModel/PathName.lean '
        '(validated by the correspondence: accepted names are resolved by the real get_workflow_run_dir)',
        'Python re semantics of the three rule shapes ^.{m,n}$, ^[^...], ^[...]+$ and of ^run\\d+$ ($ also matches before one '
        'trailing newline); \\w and \\d are abstract predicates whose values for the characters of a case come from Python re',
        'expanduser/expandvars inside get_workflow_run_dir are the identity on accepted names (no "~" first, no "$": both '
        'outside the allowed class) - checked by the correspondence only',
    ]
    unmodelled = ['symlinks already present inside the cylc-run directory; alt run dirs; the text of the error messages']
    rule = ('exhaustive: every string of length <= 5 over {a . / 1 newline} and length <= 3 over a 12-letter alphabet; generated: '
            '"/"-joined lists of components drawn from ordinary / dot / reserved / near-reserved / foreign-alphabet components with '
            'optional leading and trailing "/" and newline, random strings over an alphabet with . / ~ space newline unicode digits, '
            'names around the 254 limit; distinct = distinct name; non-trivial class = (verdict without / with reserved check, '
            'features: dotdot, dot or empty component, reserved component, run<n> component, trailing newline, non-ASCII)')
    workers = 16

    def setup(self):
        self.home = tempfile.mkdtemp(prefix='verif-C39-')
        import atexit
        import shutil
        atexit.register(shutil.rmtree, self.home, True)
        os.environ['HOME'] = self.home
        from cylc.flow.workflow_files import validate_workflow_name, WorkflowFiles
        from cylc.flow.exceptions import WorkflowFilesError
        from cylc.flow.unicode_rules import WorkflowNameValidator
        from cylc.flow.pathutil import get_workflow_run_dir, get_cylc_run_dir
        self.validate, self.WFE, self.WF = validate_workflow_name, WorkflowFilesError, WorkflowFiles
        self.V = WorkflowNameValidator
        self.run_dir_of, self.cylc_run = get_workflow_run_dir, get_cylc_run_dir
        self.re_w, self.re_d = re.compile(r'\w'), re.compile(r'\d')

    # ------------------------------------------------------------------
    def translate(self):
        rules = [r for r, _ in self.V.RULES]
        if len(rules) != 3:
            raise ValueError(f'WorkflowNameValidator has {len(rules)} rules, the model knows 3')
        for r in rules:
            if r.flags & (re.M | re.S | re.A | re.I | re.X):
                raise ValueError(f'rule {r.pattern!r} compiled with flags {r.flags}')
        m = re.fullmatch(r'\^\.\{(\d+),(\d+)\}\$', rules[0].pattern)
        if not m:
            raise ValueError(f'length rule has an unknown shape: {rules[0].pattern!r}')
        lmin, lmax = int(m.group(1)), int(m.group(2))
        m = re.fullmatch(r'\^\[\^(.+)\]', rules[1].pattern)
        if not m:
            raise ValueError(f'first-character rule has an unknown shape: {rules[1].pattern!r}')
        first = parse_class(m.group(1))
        m = re.fullmatch(r'\^\[([^\^].*)\]\+\$', rules[2].pattern)
        if not m:
            raise ValueError(f'allowed-characters rule has an unknown shape: {rules[2].pattern!r}')
        allowed = parse_class(m.group(1))

        def cls(t):
            return f'({lean_chars(t[0])}, {"true" if t[1] else "false"}, {"true" if t[2] else "false"})'
        reserved = sorted(self.WF.RESERVED_NAMES)
        body = [
            '/- GENERATED by harness/props/c39.py translate() from the live source',
            '   (WorkflowNameValidator.RULES in cylc/flow/unicode_rules.py, WorkflowFiles.RESERVED_NAMES). Do not edit. -/',
            'namespace CylcModel.Generated.NameRules',
            '',
            f'-- {json.dumps([r.pattern for r in rules])}',
            f'def lenMin : Nat := {lmin}',
            f'def lenMax : Nat := {lmax}',
            '/-- characters a name must not start with: (literal characters, \\w, \\d) -/',
            f'def firstForbidden : List Char × Bool × Bool := {cls(first)}',
            '/-- characters a name may consist of: (literal characters, \\w, \\d) -/',
            f'def allowed : List Char × Bool × Bool := {cls(allowed)}',
            '/-- WorkflowFiles.RESERVED_NAMES -/',
            'def reserved : List (List Char) := [' + ', '.join(lean_chars(n) for n in reserved) + ']',
            f'-- {json.dumps(reserved)}',
            '',
            'end CylcModel.Generated.NameRules',
            '',
        ]
        return {'NameRules.lean': '\n'.join(body)}

    # ------------------------------------------------------------------
    def mk(self, name):
        chars = sorted(set(name))
        return {'name': name,
                'word': ''.join(c for c in chars if self.re_w.fullmatch(c)),
                'digit': ''.join(c for c in chars if self.re_d.fullmatch(c))}

    def corpus(self):
        names = ['foo', 'foo\n', 'foo\n\n', 'a/../b', 'a/..', 'a/../..', 'a/../../b', 'a//b', 'a/./b', 'a/', '/a', '//a', 'a/.b',
                 'a/../.b', '_/..', 'a/b/../../c', 'a/b/../../../c', 'é', 'a b', '~a', 'a/~', 'run1', 'a/run12', 'a/run١',
                 'a/run1\n', 'a/log', 'a/log/../b', 'a/log/..', 'a/runN', 'a/RUN1', 'a/run', 'x' * 254, 'x' * 255, 'x' * 254 + '\n',
                 'a\n/b', '١a', 'a١', '', '\n', '.', '..', 'a/../../cylc-run/b', 'a/..//../b', 'a/.../b', 'a/..a/b',
                 'a/' * 126 + 'ab', 'a/' * 127 + 'b', '../' * 3 + 'etc', 'a/b/c/../../../..', 'log', 'work/../a', 'a/../work']
        return [self.mk(n) for n in names]

    def rand_name(self, rng):
        r = rng.random()
        if r < 0.72:
            k = rng.choice([1, 2, 2, 3, 3, 4, 5, 6])
            comps = []
            for _ in range(k):
                q = rng.random()
                if q < 0.3:
                    comps.append(rng.choice(['a', 'b', 'foo', 'x1', 'é']))
                elif q < 0.5:
                    comps.append(rng.choice(['..', '..', '.', '', '..']))
                else:
                    comps.append(rng.choice(COMPS))
            name = '/'.join(comps)
            q = rng.random()
            if q < 0.08:
                name = '/' + name
            elif q < 0.12:
                name = '//' + name
            if rng.random() < 0.1:
                name += '/'
            if rng.random() < 0.08:
                name += '\n'
            return name
        if r < 0.92:
            return ''.join(rng.choice(ALPHA) for _ in range(rng.choice([1, 2, 3, 4, 5, 6, 8, 12])))
        # around the length limit
        n = rng.choice([252, 253, 254, 255, 256])
        base = rng.choice(['x', 'ab/', 'a/../', 'é'])
        s = (base * n)[:n]
        if rng.random() < 0.3:
            s = s[:-1] + '\n'
        return s

    def gen(self, tier, rng):
        seen = set()

        def out(n):
            if n not in seen:
                seen.add(n)
                return True
            return False
        small = ['a', '.', '/', '1', '\n']
        maxlen = 5 if tier == 'quick' else 6
        for ln in range(0, maxlen + 1):
            for t in itertools.product(small, repeat=ln):
                n = ''.join(t)
                if out(n):
                    yield self.mk(n)
        mid = ['a', 'r', 'u', 'n', '1', '.', '/', '-', '_', '~', ' ', '١']
        for ln in range(1, 4 if tier == 'quick' else 5):
            for t in itertools.product(mid, repeat=ln):
                n = ''.join(t)
                if out(n):
                    yield self.mk(n)
        # every pair / triple of catalogue components
        for a, b in itertools.product(COMPS, repeat=2):
            n = a + '/' + b
            if out(n):
                yield self.mk(n)
        for _ in range({'quick': 12000, 'thorough': 250000, 'search': 400000}[tier]):
            n = self.rand_name(rng)
            if out(n):
                yield self.mk(n)

    # ------------------------------------------------------------------
    def impl(self, inp):
        name = inp['name']

        def v(chk):
            try:
                self.validate(name, chk)
                return 'ok'
            except self.WFE:
                return 'rejected'
            except Exception as exc:
                return 'ERR:' + type(exc).__name__
        plain, res = v(False), v(True)
        rel = None
        if plain == 'ok' or res == 'ok':
            try:
                base = os.path.normpath(self.cylc_run())
                p = self.run_dir_of(name)
                if p == base:
                    rel = []
                elif p.startswith(base + '/'):
                    rel = p[len(base) + 1:].split('/')
                else:
                    rel = {'outside': True}
            except Exception as exc:
                rel = {'error': type(exc).__name__}
        return {'plain': plain, 'reserved': res, 'rel': rel}

    @staticmethod
    def features(name):
        comps = name.rstrip('\n').split('/')
        f = []
        if '..' in comps:
            f.append('dotdot')
        if '.' in comps or '' in comps:
            f.append('dot/empty')
        if any(c in RESERVED_SPEC for c in comps):
            f.append('reserved')
        if any(re.fullmatch(r'run\d+', c) for c in comps):
            f.append('runN')
        if name.endswith('\n'):
            f.append('nl')
        if any(ord(c) > 127 for c in name):
            f.append('unicode')
        if name.startswith('/'):
            f.append('abs')
        if len(name) > 250:
            f.append('long')
        return f

    def classify(self, inp, obs):
        f = self.features(inp['name'])
        if not f and len(inp['name'].split('/')) == 1 and obs['plain'] == 'rejected':
            return None
        return f"{obs['plain']}/{obs['reserved']}:" + ('+'.join(f) or 'plain')

    def neighbours(self, inp, rng):
        n = inp['name']
        out = set()
        for i in range(len(n) + 1):
            for ins in ('/', '..', '../', '/..', '.', '\n', 'run1', 'log'):
                out.add(n[:i] + ins + n[i:])
            if i < len(n):
                out.add(n[:i] + n[i + 1:])
        return [self.mk(x) for x in list(out)[:300]]


PROP = C39()
