"""C18  Cycle point and interval algebra is a consistent total order.

Integer cases: two point strings a, b and an interval string i, given as structure
(sign as written, number of leading zeros, magnitude) and rendered to text; the real
`IntegerPoint` / `IntegerInterval` are compared, hashed, standardised, added and subtracted.
Datetime cases: two spellings of (possibly the same) instant and a fixed-length duration, in a
calendar mode / cycle point time zone / expanded-year setting; the adapter hands the instants
(seconds since the Unix epoch) and the spelling identities to the model.
"""
from __future__ import annotations

import itertools
import re

from core import Prop

SIGNS = ['', '+', '-']
MODES = ['gregorian', '360day', '365day', '366day']
TZS = ['Z', 'Z', '+0100', '-0530', '+1300', '-0800']
DT_INTVS = ['PT1M', 'PT30M', 'PT1H', 'PT6H', 'PT24H', 'P1D', 'P2D', 'P7D', 'P1W', 'P2W', 'PT36H', 'P1DT6H',
            '-PT6H', '-P1D', 'PT90M', 'P0D', 'PT1S', 'PT90S', 'P10D', '-P1W']
SPELL = [None, 'CCYY-MM-DDThh:mmZ', 'CCYYMMDDThhmm+0100', 'CCYYMMDDThhmm-0330', 'CCYY-MM-DDThh:mm+05:30',
         'CCYYMMDDThhZ', 'CCYYMMDDThhmm', 'CCYYMMDDThhmmssZ', 'CCYY-MM-DDThh:mm:ss-08:00']
BASES = [(2000, 1, 1, 0, 0), (2000, 2, 28, 18, 0), (1999, 12, 31, 23, 30), (2024, 2, 28, 12, 0), (1900, 3, 1, 0, 0),
         (2010, 8, 15, 6, 0), (1970, 1, 1, 0, 0), (1969, 12, 30, 12, 0), (2000, 12, 30, 0, 0), (1, 3, 1, 0, 0),
         (9990, 10, 28, 0, 0), (2038, 1, 19, 3, 14)]
DELTAS = [0, 0, 0, 0, 1, -1, 30, 60, -60, 360, 1440, -1440, 10080, 43200, -525600, 5, -90, 720]
# histories: points whose strings are valid dates in all four calendars, around the places where the calendars disagree
HIST_BASES = [(2000, 3, 1, 0, 0), (2000, 2, 28, 0, 0), (2000, 2, 27, 12, 0), (2001, 3, 1, 0, 0), (2004, 3, 1, 6, 0),
              (2000, 3, 2, 0, 0), (2000, 5, 1, 0, 0), (2000, 6, 1, 0, 0), (2000, 12, 28, 18, 0), (2001, 1, 1, 0, 0),
              (2000, 2, 1, 0, 0), (1999, 12, 1, 0, 0), (2000, 8, 1, 12, 0), (2000, 2, 28, 23, 30), (2000, 3, 1, 0, 30)]
# literal pairs (a, b) of strings valid in every calendar whose ORDER and distance depend on the calendar: a is the first
# of a month written one hour east of UTC, i.e. the last day of the previous month in UTC
HIST_PAIRS = [('20000601T0030+0100', '20000530T2345Z'), ('20000801T0030+0100', '20000730T2345Z'),
              ('20000301T0030+0100', '20000228T2345Z'), ('20010301T0000+0100', '20010228T2330Z'),
              ('20000601T0030+0100', '20000601T0030+0100'), ('20000530T2345Z', '20000601T0030+0100'),
              ('20040301T0030+0100', '20040228T2345Z'), ('20001101T0015+0100', '20001030T2345Z')]
HIST_INTVS = ['P1D', 'P2D', 'PT24H', 'PT6H', 'P1W', '-P1D', 'PT36H', 'P3D', 'PT12H', '-PT6H', 'PT1H', 'P10D']
HIST_DELTAS = [0, 0, 1440, -1440, 60, 2880, -60, 720, 4320]
LIT_RE = re.compile(r'^([+-]?)(\d+)$')
IV_RE = re.compile(r'^([+-]?)P(\d+)$')


def lit_text(l, interval=False):
    s, z, m = l
    return s + ('P' if interval else '') + '0' * z + str(m)


def parse_lit(text, interval=False):
    m = (IV_RE if interval else LIT_RE).match(text)
    if not m:
        raise ValueError(f'not an integer literal: {text!r}')
    digits = m.group(2)
    mag = int(digits)
    return [m.group(1), len(digits) - len(str(mag)), mag]


class C18(Prop):
    id = 'C18'
    props_modules = ['CylcModel.Props.C18']
    theorems = [
        'CylcModel.C18.int_order_consistent',
        'CylcModel.C18.int_total_order',
        'CylcModel.C18.int_hash_consistent_partial',
        'CylcModel.C18.int_hash_counterexample',
        'CylcModel.C18.int_hash_consistent_of_fix',
        'CylcModel.C18.int_standardise',
        'CylcModel.C18.int_add_sub',
        'CylcModel.C18.dt_order_consistent',
        'CylcModel.C18.dt_total_order',
        'CylcModel.C18.dt_hash_consistent_partial',
        'CylcModel.C18.dt_hash_counterexample',
        'CylcModel.C18.dt_hash_consistent_of_fix',
        'CylcModel.C18.dt_standardise_add_sub_partial',
        'CylcModel.C18.dt_sub_minute_counterexample',
        'CylcModel.C18.dt_cache_transparent',
        'CylcModel.C18.dt_cache_counterexample',
    ]
    technique = ('Lean 4 theorems over the structured value strings (integer: sign/zeros/magnitude, unbounded; datetime: '
                 'instant + spelling) + exhaustive small box and random wide-range correspondence against the real classes')
    statement_note = (
        'partial proof. Integer points (full except hashing): for ALL point strings [+-]?0*digits of unbounded magnitude, '
        '<, <=, == are <, <=, = on the integer values (int_order_consistent), a total preorder with trichotomy '
        '(int_total_order); standardise is idempotent, value preserving, and a == b iff standardise(a) and standardise(b) are '
        'the same string (int_standardise); (p+i)-i, (p-i)+i, q+(p-q) are string-identical to standardise(p) and compare '
        'equal to p for all intervals (int_add_sub). "Equal points hash equal" is FALSE on the code for non-standard '
        'spellings (int_hash_counterexample: "07" == "7", hashes of the raw strings differ; finding '
        'hash-nonstandard-spelling) and is proved for standardised points (int_hash_consistent_partial) and for a tree '
        'whose __hash__ goes through the value (int_hash_consistent_of_fix, flag probed from the live code). '
        'Datetime points: the same statements over the abstraction point = (instant, spelling), interval = seconds '
        '(dt_*): parsing, dumping and calendar arithmetic (isodatetime) are not modelled, only tied by correspondence. '
        'Histories: the lru_cached helpers of ISO8601Point (_iso_point_add, _iso_point_sub_interval, _iso_point_sub_point, '
        '_iso_point_cmp) are modelled as a generic lru cache over an arbitrary calendar-dependent computation; '
        'dt_cache_transparent: with the calendar mode in the key (flags probed from the live code) every call in any '
        'history of calls under any sequence of calendars, any cache size, returns what the call made alone returns; '
        'dt_cache_counterexample: not so once a key lacks the calendar. Not proved: transparency across a change of the '
        'cycle point time zone / dump format in one process (it does not hold for the spelling of results: the keys lack '
        'them; single cases clear the caches between configurations), _point_parse / _interval_parse caches (calendar '
        'independent for strings valid in every calendar; exercised by the histories only)')
    trusted = [
        'rendering of the structured integer literals to text and back (harness: sign + zeros + decimal digits; Python '
        'int() semantics for these strings)',
        'datetime: the instant (seconds since the Unix epoch, isodatetime) and the spelling identity the adapter derives '
        'from the real strings; fixed-length durations only (weeks, days, hours, minutes, seconds)',
        'Python str hashing: two different strings are taken to hash differently',
    ]
    unmodelled = [
        'integer strings with whitespace, underscores or non-ASCII digits (accepted by int()); non-numeric strings',
        'datetime parsing / dumping / calendar arithmetic (metomi.isodatetime), truncated points, calendar durations '
        '(months, years), sub-second values',
        'comparison across cycling types (TYPE_SORT_KEY) and with None',
        'interval ordering and hashing (IntervalBase.__cmp__ has the same plumbing; only its use in point arithmetic is checked)',
    ]
    rule = ('integer: exhaustive box of all pairs of the 117 point strings {"", +, -} x {0,1,2 leading zeros} x 0..12 with a '
            'rotating interval (quick; thorough: every interval of a 14-element set for magnitudes 0..6), plus random '
            'magnitudes up to 10^40 with equal/adjacent values forced; datetime: random instants around 12 base dates '
            '(years 1 to 9999, negative and 6-digit years with expanded year digits), 4 calendar modes, 6 cycle point time '
            'zones, 9 spellings (reduced, extended, other time zones, with seconds), b = a + delta with delta = 0 '
            'in a third of the cases, 20 fixed-length durations including negative and zero ones; histories: 2-6 steps '
            'executed in ONE process with the lru caches of cycling/iso8601.py empty at the start only, each step under a '
            'calendar drawn from the 4 modes (at least two different), points from 15 dates valid in every calendar next to '
            'the places where the calendars disagree (ends of February, 31-day months), 1-2 distinct point strings and 1-2 '
            'of 12 durations per history so that the same (point, interval) strings recur under different calendars, and in '
            '30% of the histories the same literal pair of strings whose order and distance depend on the calendar (first of '
            'a month written one hour east of UTC against the 30th / 28th in UTC); every step is judged as if made alone. '
            'class = kind / order relation / spelling relation / interval sign; histories: steps / calendars / switch-back')
    workers = 16

    # ------------------------------------------------------------------
    def setup(self):
        import logging
        from cylc.flow import LOG
        LOG.setLevel(logging.CRITICAL)
        from cylc.flow.cycling import iso8601, integer
        from metomi.isodatetime.dumpers import TimePointDumper
        from metomi.isodatetime.data import Duration
        self.I = iso8601
        self.IP, self.II = integer.IntegerPoint, integer.IntegerInterval
        self.dumper = TimePointDumper()
        self.Duration = Duration
        self._cfg = None

    def translate(self):
        IP, I = self.IP, self.I
        a, b = IP('07'), IP('7')
        if not (a == b):
            raise ValueError('IntegerPoint("07") != IntegerPoint("7")')
        ih = hash(a) == hash(b) and hash(IP('+3')) == hash(IP('3')) and hash(IP('-0')) == hash(IP('0'))
        I.init(time_zone='Z', cycling_mode='gregorian')
        self._cfg = None
        p, q = I.ISO8601Point('20000101T00Z'), I.ISO8601Point('20000101T0000Z')
        if not (p == q):
            raise ValueError('ISO8601Point("20000101T00Z") != ISO8601Point("20000101T0000Z")')
        dh = hash(p) == hash(q) and hash(I.ISO8601Point('2000-01-01T01:00+01')) == hash(q)
        fmt = I.DATE_TIME_FORMAT
        if 'ss' in fmt:
            res = 1
        elif 'mm' in fmt and str(I.point_parse('20000101T000030Z')) == '20000101T0000Z':
            res = 60
        else:
            raise ValueError(f'unexpected default cycle point format {fmt!r}')
        t = lambda x: 'true' if x else 'false'  # noqa: E731

        # are the lru_cached helpers keyed by the calendar: the same strings under gregorian, then under 360day,
        # against 360day alone
        P, V = I.ISO8601Point, I.ISO8601Interval
        probes = {
            'add': lambda: str(P('20000229T0000Z') + V('P1D')),
            'sub': lambda: str(P('20000301T0000Z') - V('P1D')),
            'diff': lambda: str(P('20000301T0000Z') - P('20000228T0000Z')),
            'cmp': lambda: str(P('20000301T0000+0100') < P('20000229T2330Z')),
        }
        keyed = {}
        try:
            for name, op in probes.items():
                self.clear_caches()
                I.init(time_zone='Z', cycling_mode='gregorian')
                first = op()
                I.init(time_zone='Z', cycling_mode='360day')
                after = op()
                self.clear_caches()
                I.init(time_zone='Z', cycling_mode='360day')
                alone = op()
                if first == alone:
                    raise ValueError(f'calendar probe {name} does not distinguish the calendars ({first})')
                keyed[name] = (after == alone)
        finally:
            self.clear_caches()
            I.init(time_zone='Z', cycling_mode='gregorian')
            self._cfg = None
        return {'PointsCfg.lean': (
            '/- GENERATED by harness/props/c18.py translate() from the live source. Do not edit. -/\n'
            'namespace CylcModel.Points\n'
            '/-- `hash(IntegerPoint("07")) == hash(IntegerPoint("7"))` on the live code (equal points hash equal) -/\n'
            f'def intHashByValue : Bool := {t(ih)}\n'
            '/-- `hash(ISO8601Point("20000101T00Z")) == hash(ISO8601Point("20000101T0000Z"))` on the live code -/\n'
            f'def dtHashByInstant : Bool := {t(dh)}\n'
            '/-- resolution in seconds of the default cycle point dump format (`DATE_TIME_FORMAT`) -/\n'
            f'def dumpRes : Int := {res}\n'
            '/-- are the results of the lru_cached helpers kept apart per calendar mode (probed: the same strings '
            'under gregorian, then 360day) -/\n'
            f'def addKeyedByCalendar : Bool := {t(keyed["add"])}\n'
            f'def subKeyedByCalendar : Bool := {t(keyed["sub"])}\n'
            f'def diffKeyedByCalendar : Bool := {t(keyed["diff"])}\n'
            f'def cmpKeyedByCalendar : Bool := {t(keyed["cmp"])}\n'
            'end CylcModel.Points\n')}

    def clear_caches(self):
        """empty every functools.lru_cache of cycling/iso8601.py"""
        I = self.I
        for holder in (I.ISO8601Point, I.ISO8601Interval, I):
            for name in dir(holder):
                if name.startswith('__'):
                    continue
                fn = getattr(holder, name, None)
                if callable(getattr(fn, 'cache_clear', None)):
                    fn.cache_clear()

    def _init(self, inp, clear=True):
        cfg = (inp['mode'], inp['tz'], inp['xy'])
        if cfg != self._cfg:
            self.I.init(num_expanded_year_digits=inp['xy'], time_zone=inp['tz'], cycling_mode=inp['mode'])
            if clear:
                # single cases are independent of each other: one configuration = one process in cylc.  (The caches
                # of the point arithmetic are keyed by (strings, calendar mode): a result computed under another
                # cycle point time zone would be served in the spelling of that zone.)  Histories (kind 'hist')
                # switch calendars WITHOUT clearing.
                self.clear_caches()
            self._cfg = cfg

    # ------------------------------------------------------------------
    def corpus(self):
        I3 = ['', 0, 3]
        return [
            {'k': 'int', 'a': ['', 1, 7], 'b': ['', 0, 7], 'i': I3},          # DESIGN section 8: "07" vs "7"
            {'k': 'int', 'a': ['-', 0, 0], 'b': ['', 0, 0], 'i': ['-', 1, 5]},  # "-0" vs "0", interval "-P05"
            {'k': 'int', 'a': ['+', 2, 12], 'b': ['-', 0, 12], 'i': ['+', 0, 0]},
            {'k': 'int', 'a': ['', 0, 10 ** 30], 'b': ['', 3, 10 ** 30 + 1], 'i': ['', 0, 10 ** 29]},
            {'k': 'dt', 'mode': 'gregorian', 'tz': 'Z', 'xy': 0, 'base': [2000, 1, 1, 0, 0], 'delta': 0,
             'sa': 5, 'sb': 0, 'i': 'PT6H'},                                                  # 20000101T00Z vs ..T0000Z
            {'k': 'dt', 'mode': '360day', 'tz': '+0100', 'xy': 0, 'base': [2000, 2, 28, 18, 0], 'delta': 1440,
             'sa': 1, 'sb': 2, 'i': 'P1W'},
            {'k': 'dt', 'mode': 'gregorian', 'tz': '-0530', 'xy': 2, 'base': [-1, 12, 31, 23, 30], 'delta': 0,
             'sa': 2, 'sb': 3, 'i': '-P1D'},
            # histories: one process, calendar switches, the same point and interval strings
            {'k': 'hist', 'tz': 'Z', 'xy': 0, 'steps': [
                {'mode': 'gregorian', 'base': [2000, 3, 1, 0, 0], 'delta': 0, 'sa': 0, 'sb': 0, 'i': 'P1D'},
                {'mode': '360day', 'base': [2000, 3, 1, 0, 0], 'delta': 0, 'sa': 0, 'sb': 0, 'i': 'P1D'},
                {'mode': '365day', 'base': [2000, 3, 1, 0, 0], 'delta': 1440, 'sa': 0, 'sb': 0, 'i': 'P1D'},
                {'mode': 'gregorian', 'base': [2000, 3, 1, 0, 0], 'delta': 0, 'sa': 0, 'sb': 0, 'i': 'P1D'}]},
            {'k': 'hist', 'tz': '+0100', 'xy': 0, 'steps': [
                {'mode': '360day', 'base': [2000, 2, 28, 0, 0], 'delta': 2880, 'sa': 0, 'sb': 0, 'i': 'P2D'},
                {'mode': '366day', 'base': [2000, 2, 28, 0, 0], 'delta': 2880, 'sa': 0, 'sb': 0, 'i': 'P2D'},
                {'mode': '365day', 'base': [2000, 2, 28, 0, 0], 'delta': 2880, 'sa': 1, 'sb': 0, 'i': 'P2D'}]},
            {'k': 'hist', 'tz': 'Z', 'xy': 0, 'steps': [
                dict(base=[2000, 6, 1, 0, 0], delta=0, sa=0, sb=0, i='P1D', mode=m,
                     ta='20000601T0030+0100', tb='20000530T2345Z') for m in ('gregorian', '360day', 'gregorian', '365day')]},
        ]

    def gen(self, tier, rng):
        lits = [[s, z, m] for s in SIGNS for z in (0, 1, 2) for m in range(13)]
        ivs = [['', 0, 0], ['', 0, 1], ['-', 0, 1], ['+', 0, 3], ['', 1, 3], ['-', 2, 12], ['', 0, 7], ['-', 0, 0],
               ['+', 1, 0], ['', 0, 40], ['-', 0, 5], ['+', 0, 12], ['', 2, 2], ['-', 1, 9]]
        n = 0
        for a in lits:
            for b in lits:
                n += 1
                yield {'k': 'int', 'a': a, 'b': b, 'i': ivs[n % len(ivs)]}
        if tier != 'quick':
            small = [l for l in lits if l[2] <= 6]
            for a, b, i in itertools.product(small, small, ivs):
                yield {'k': 'int', 'a': a, 'b': b, 'i': i}
        n_int, n_dt, n_hist = {'quick': (4000, 3000, 1200), 'thorough': (150000, 80000, 20000),
                               'search': (60000, 40000, 10000)}[tier]
        for _ in range(n_int):
            yield self.random_int(rng)
        for _ in range(n_dt):
            yield self.random_dt(rng)
        for _ in range(n_hist):
            yield self.random_hist(rng)

    def random_hist(self, rng):
        """a history of 2-6 steps in one process: few distinct point / interval strings, calendar switches"""
        bases = [list(rng.choice(HIST_BASES)) for _ in range(rng.choice([1, 1, 2]))]
        ivs = [rng.choice(HIST_INTVS) for _ in range(rng.choice([1, 1, 2]))]
        deltas = [rng.choice(HIST_DELTAS) for _ in range(rng.choice([1, 2]))]
        spells = [0, 0, 0, rng.randrange(len(SPELL))]
        n = rng.randint(2, 6)
        modes = [rng.choice(MODES) for _ in range(n)]
        if len(set(modes)) == 1:
            modes[-1] = rng.choice([m for m in MODES if m != modes[0]])
        steps = [{'mode': m, 'base': rng.choice(bases), 'delta': rng.choice(deltas), 'sa': rng.choice(spells),
                  'sb': rng.choice(spells), 'i': rng.choice(ivs)} for m in modes]
        xy = 2 if rng.random() < 0.1 else 0
        if not xy and rng.random() < 0.3:
            # the same two literal strings in every step: their order / distance is calendar dependent
            pairs = [rng.choice(HIST_PAIRS) for _ in range(rng.choice([1, 1, 2]))]
            for st in steps:
                st['ta'], st['tb'] = rng.choice(pairs)
        return {'k': 'hist', 'tz': rng.choice(TZS), 'xy': xy, 'steps': steps}

    def random_int(self, rng):
        def lit(m=None):
            if m is None:
                m = rng.choice([rng.randint(0, 20), rng.randint(0, 10 ** 6), rng.randint(0, 10 ** rng.randint(1, 40))])
            return [rng.choice(SIGNS), rng.choice([0, 0, 0, 1, 2, 5]), m]
        a = lit()
        r = rng.random()
        if r < 0.35:
            b = lit(a[2])                       # same magnitude: equal or opposite values
        elif r < 0.5:
            b = lit(max(0, a[2] + rng.choice([-1, 1])))
        else:
            b = lit()
        return {'k': 'int', 'a': a, 'b': b, 'i': lit()}

    def random_dt(self, rng):
        mode = rng.choice(MODES) if rng.random() < 0.5 else 'gregorian'
        xy = 2 if rng.random() < 0.2 else 0
        base = list(rng.choice(BASES))
        if xy and rng.random() < 0.5:
            base[0] = rng.choice([-1, -400, 0, 12345, 100000, -99999])
        if rng.random() < 0.5:
            base[1], base[2] = rng.randint(1, 12), rng.randint(1, 28)
            base[3], base[4] = rng.randint(0, 23), rng.choice([0, 0, 30, 59, 1])
        if rng.random() < 0.08:
            base.append(rng.choice([30, 1, 59]))       # seconds (the cycle point format has none)
        return {'k': 'dt', 'mode': mode, 'tz': rng.choice(TZS), 'xy': xy, 'base': base,
                'delta': rng.choice(DELTAS) if rng.random() < 0.8 else rng.randint(-10 ** 6, 10 ** 6),
                'sa': rng.randrange(len(SPELL)), 'sb': rng.randrange(len(SPELL)), 'i': rng.choice(DT_INTVS)}

    # ------------------------------------------------------------------
    def impl(self, inp):
        if inp['k'] == 'int':
            return self.impl_int(inp)
        if inp['k'] == 'hist':
            return self.impl_hist(inp)
        return self.impl_dt(inp)

    def impl_int(self, inp):
        IP, II = self.IP, self.II
        ta, tb, ti = lit_text(inp['a']), lit_text(inp['b']), lit_text(inp['i'], interval=True)
        try:
            a, b, i = IP(ta), IP(tb), II(ti)
            out = {
                'cmp': [bool(a < b), bool(a <= b), bool(a == b), bool(a > b), bool(a >= b)],
                'heq': hash(a) == hash(b),
                'std': [parse_lit(IP(ta).standardise().value), parse_lit(IP(tb).standardise().value)],
                'std2': [parse_lit(IP(ta).standardise().standardise().value),
                         parse_lit(IP(tb).standardise().standardise().value)],
            }
            x, y, d = (a + i) - i, (a - i) + i, a - b
            z = b + d
            out.update({'as': parse_lit(x.value), 'sa': parse_lit(y.value), 'd': parse_lit(d.value, interval=True),
                        'da': parse_lit(z.value), 'rt': [bool(x == a), bool(y == a), bool(z == a)]})
            return {'build': 'ok', 'obs': out, 'env': inp}
        except Exception as exc:
            return {'build': 'ok', 'obs': {'err': type(exc).__name__}, 'env': inp}

    def secs(self, tp):
        return int(tp.seconds_since_unix_epoch)

    def impl_hist(self, inp):
        """the steps one after the other in THIS process, switching calendars, caches empty at the start only"""
        self.clear_caches()
        self._cfg = None
        try:
            envs, obs, texts = [], [], []
            for st in inp['steps']:
                r = self.impl_dt(dict(st, k='dt', tz=inp['tz'], xy=inp['xy']), hist=True)
                if r['build'] != 'ok':
                    continue
                envs.append(dict(r['env'], mode=st['mode']))
                obs.append(r['obs'])
                texts.append([st['mode']] + r['texts'])
            if len(envs) < 2:
                return {'build': 'skip', 'why': 'history shorter than two steps'}
            return {'build': 'ok', 'env': {'k': 'hist', 'steps': envs}, 'obs': {'steps': obs}, 'texts': texts}
        finally:
            self.clear_caches()
            self._cfg = None

    def impl_dt(self, inp, hist=False):
        I = self.I
        self._init(inp, clear=not hist)
        P, V = I.ISO8601Point, I.ISO8601Interval
        # reference parser for the instants handed to model and judge: the isodatetime parser of the current
        # configuration, not the lru_cached wrapper of cylc (every step is judged as if it were made alone)
        rp = I.WorkflowSpecifics.point_parser.parse
        xy = inp['xy']
        y, mo, d, h, mi = inp['base'][:5]
        sec = inp['base'][5] if len(inp['base']) > 5 else 0
        try:
            yr = (('+' if y >= 0 else '-') + '%06d' % abs(y)) if xy else '%04d' % y
            ta0 = rp('%s%02d%02dT%02d%02d%02dZ' % (yr, mo, d, h, mi, sec))
            tb0 = ta0 + self.Duration(minutes=inp['delta'])
            if not xy and not (0 <= tb0.year <= 9999):
                return {'build': 'skip', 'why': 'year out of range'}
            if inp.get('ta') is not None:
                rp(inp['ta']), rp(inp['tb'])
        except Exception as exc:
            return {'build': 'skip', 'why': 'base: ' + type(exc).__name__}

        def spell(tp, k):
            canon = str(tp)
            fmt = SPELL[k]
            if fmt is None:
                return canon
            try:
                alt = self.dumper.dump(tp, ('+X' + fmt) if xy else fmt)
                if self.secs(rp(alt)) == self.secs(tp):
                    return alt
            except Exception:
                pass
            return canon

        sa, sb = spell(ta0, inp['sa']), spell(tb0, inp['sb'])
        if inp.get('ta') is not None:
            sa, sb = inp['ta'], inp['tb']           # the two point strings given literally
        try:
            isecs = int(I.interval_parse(inp['i']).get_seconds())
            ia, ib = self.secs(rp(sa)), self.secs(rp(sb))
            ca, cb = str(rp(sa)), str(rp(sb))
        except Exception as exc:
            return {'build': 'skip', 'why': 'spelling: ' + type(exc).__name__}
        ida = 0 if sa == ca else 1
        idb = 0 if sb == cb else (1 if sb == sa else 2)
        env = {'k': 'dt', 'a': [ia, ida], 'b': [ib, idb], 'i': isecs}

        def lit(p):
            """(instant, spelling) of a point produced by the code"""
            tp = rp(p.value)
            return [self.secs(tp), 0 if p.value == str(tp) else 9]

        try:
            a, b, i = P(sa), P(sb), V(inp['i'])
            out = {
                'cmp': [bool(a < b), bool(a <= b), bool(a == b), bool(a > b), bool(a >= b)],
                'heq': hash(a) == hash(b),
                'std': [lit(P(sa).standardise()), lit(P(sb).standardise())],
                'std2': [lit(P(sa).standardise().standardise()), lit(P(sb).standardise().standardise())],
            }
            x, y2, dd = (a + i) - i, (a - i) + i, a - b
            z = b + dd
            out.update({'as': lit(x), 'sa': lit(y2), 'd': int(I.interval_parse(dd.value).get_seconds()),
                        'da': lit(z), 'rt': [bool(x == a), bool(y2 == a), bool(z == a)]})
            return {'build': 'ok', 'obs': out, 'env': env, 'texts': [sa, sb, inp['i']]}
        except Exception as exc:
            if type(exc).__name__ == 'TimePointDumperBoundsError':
                return {'build': 'skip', 'why': 'year outside the range of the dump format'}
            return {'build': 'ok', 'obs': {'err': type(exc).__name__}, 'env': env, 'texts': [sa, sb, inp['i']]}

    def impl_batch(self, inputs):
        if len(inputs) < 64:
            return [self.impl(i) for i in inputs]
        import multiprocessing as mp
        with mp.get_context('fork').Pool(self.workers) as pool:
            return pool.map(_impl_worker, inputs, chunksize=max(1, len(inputs) // (self.workers * 16)))

    # ------------------------------------------------------------------
    def skip_case(self, inp, raw):
        return raw.get('build') != 'ok'

    def driver_input(self, inp, raw):
        return raw['env']

    def driver_obs(self, inp, raw):
        return raw['obs']

    def replay_input(self, inp, env):
        # class label (needs the instants for datetime cases); carried on the stored case, ignored by impl
        if env['k'] == 'int':
            va = (-1 if env['a'][0] == '-' else 1) * env['a'][2]
            vb = (-1 if env['b'][0] == '-' else 1) * env['b'][2]
            std = lambda l: l[1] == 0 and l[0] != '+' and not (l[0] == '-' and l[2] == 0)  # noqa: E731
            sp = 'same-string' if env['a'] == env['b'] else (
                'both-standard' if std(env['a']) and std(env['b']) else 'non-standard')
            iv = (-1 if env['i'][0] == '-' else 1) * env['i'][2]
            big = 'big' if max(env['a'][2], env['b'][2]) >= 2 ** 63 else 'small'
            tags = ['int', 'lt' if va < vb else ('eq' if va == vb else 'gt'), sp,
                    'i<0' if iv < 0 else ('i=0' if iv == 0 else 'i>0'), big]
        elif env['k'] == 'hist':
            cal = [st['mode'] for st in env['steps']]
            tags = ['hist', '%dsteps' % len(cal), '%dcalendars' % len(set(cal)),
                    'switch-back' if len(cal) > 2 and cal[0] in cal[2:] and cal[1] != cal[0] else 'forward',
                    'xy' if inp['xy'] else 'ccyy']
        else:
            va, vb = env['a'][0], env['b'][0]
            sp = 'same-string' if env['a'] == env['b'] else (
                'both-standard' if env['a'][1] == 0 and env['b'][1] == 0 else 'non-standard')
            tags = ['dt', inp['mode'], 'xy' if inp['xy'] else 'ccyy', 'lt' if va < vb else ('eq' if va == vb else 'gt'), sp,
                    'i<0' if env['i'] < 0 else ('i=0' if env['i'] == 0 else 'i>0')]
        return dict(inp, cls='/'.join(tags))

    def classify(self, inp, obs):
        return inp.get('cls')

    def neighbours(self, inp, rng):
        out = []
        base = {k: v for k, v in inp.items() if k != 'cls'}
        if base['k'] == 'int':
            for key in ('a', 'b'):
                for s in SIGNS:
                    for z in (0, 1):
                        out.append(dict(base, **{key: [s, z, base[key][2]]}))
            out.append(dict(base, b=list(base['a'])))
            out.append(dict(base, i=['', 0, 0]))
        elif base['k'] == 'hist':
            st = base['steps']
            for i in range(len(st)):
                if len(st) > 2:
                    out.append(dict(base, steps=st[:i] + st[i + 1:]))
                for m in MODES:
                    out.append(dict(base, steps=st[:i] + [dict(st[i], mode=m)] + st[i + 1:]))
            out.append(dict(base, steps=list(reversed(st))))
            out.append(dict(base, steps=st + st))
        else:
            for d in (0, 1, -1, 1440):
                out.append(dict(base, delta=d))
            for k in range(len(SPELL)):
                out.append(dict(base, sa=k))
            for iv in DT_INTVS[:6]:
                out.append(dict(base, i=iv))
        return out


PROP = C18()


def _impl_worker(inp):
    return PROP.impl(inp)
