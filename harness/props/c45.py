"""C45  Absolute-trigger outputs satisfy every dependent instance."""
from __future__ import annotations

import sys
from pathlib import Path

sys.path.insert(0, str(Path(__file__).resolve().parents[1] / 'sched'))
from prop import SchedProp  # noqa: E402


def _flow(graph, icp, fcp, rh, runtime=''):
    return f'''[scheduler]
    allow implicit tasks = True
[scheduling]
    cycling mode = integer
    initial cycle point = {icp}
    final cycle point = {fcp}
    runahead limit = P{rh}
    [[graph]]
{graph}
[runtime]
    [[root]]
        [[[simulation]]]
            default run length = PT0S
{runtime}'''


def _case(cid, graph, icp=1, fcp=4, rh=2, seed=0, kind='complete', opts=None, ops=None, outcomes=None):
    return {'id': cid, 'flow': _flow(graph, icp, fcp, rh), 'seed': seed, 'opts': opts or {}, 'kind': kind,
            'policy': {'max_steps': 200, 'p_msg': 0.6, 'p_noise': 0.0, 'outcomes': outcomes or {}}, 'ops': ops}


def _job(t, final='succeeded'):
    return [{'op': 'subres', 'task': t, 'ok': True, 'sn': 1}, {'op': 'msg', 'task': t, 'msg': 'started', 'sn': 1},
            {'op': 'msg', 'task': t, 'msg': final, 'sn': 1}]


_L = {'op': 'loop'}


def _restart_case(cid, graph, seed, fcp=6, rh=1):
    """adaptive run with one 'stop --now' at a random moment followed by a restart"""
    c = _case(cid, graph, fcp=fcp, rh=rh, seed=seed, kind='cmdr')
    c['policy'].update({'cmds': ['stop_now'], 'p_cmd': 0.03, 'restarts': 1})
    return c


# the two minimal histories of the recorded defect (also the witnesses in findings/C45.json)
WITNESS_WARM = _case('c45-warm-first-child', '        P1 = """\n a[^+P1] => c\n a\n"""', opts={'startcp': '2'})
WITNESS_DONE = _case(
    'c45-finished-first-child', '        P1 = """\n (a[^] | b) & d => c\n a\n"""', fcp=2, rh=1,
    ops=[_L] + _job('1/b') + _job('1/d') + [_L, _L] + _job('1/c') + [_L] + _job('2/d') + [_L] + _job('1/a') + [_L, _L])


def gen_abs_restart_case(seed):
    """Family 'absr': SEVERAL outputs of one task behind absolute triggers, dependents that are spawned
    cycle by cycle (a low runahead limit; through an inter-cycle parent or as auto-spawned parentless
    successors), and one stop + restart at a random moment, after which the run goes on to the end."""
    import random
    rng = random.Random(seed * 7919 + 13)
    outs = rng.sample(['start', 'succeed', 'x', 'y'], rng.randint(2, 3))
    src_rec = rng.choice(['R1', 'P1', 'P1'])
    form = rng.choice(['^', '^', '^', '1'])
    lines, deps = [], ['c', 'd', 'e']
    for out, dep in zip(outs, deps):
        trig = f'a[{form}]' + ('' if out == 'succeed' else f':{out}')
        style = rng.choice(['chain', 'chain', 'pure', 'start'])
        if style == 'chain':
            lines.append(f'{trig} & b[-P1] => {dep}')
        elif style == 'start':
            lines.append(f'{trig} & b[-P1]:start => {dep}')
        else:
            lines.append(f'{trig} => {dep}')
    lines.append('b')
    body = '\n'.join('            ' + ln for ln in lines)
    graph = ''
    if src_rec == 'R1':
        graph += '        R1 = """\n            a\n        """\n'
    else:
        body += '\n            a'
    graph += f'        P1 = """\n{body}\n        """'
    runtime = ''
    custom = [o for o in outs if o in ('x', 'y')]
    if custom:
        runtime = '    [[a]]\n        [[[outputs]]]\n' + ''.join(f'            {o} = {o}{o}\n' for o in custom)
    fcp = rng.randint(5, 7)
    case = {'id': f'absr{seed}', 'flow': _flow(graph, 1, fcp, rng.choice([0, 0, 1]), runtime), 'seed': seed, 'opts': {},
            'kind': 'cmdr', 'ops': None,
            'policy': {'max_steps': 320, 'p_msg': rng.choice([0.5, 0.7]), 'p_noise': 0.0,
                       'outcomes': {'a': {'custom': [o + o for o in custom], 'p_custom': 1.0}},
                       'cmds': [rng.choice(['stop_now', 'stop_clean'])], 'p_cmd': rng.choice([0.02, 0.03, 0.05]),
                       'restarts': 1}}
    return case


class C45(SchedProp):
    id = 'C45'
    props_modules = ['CylcModel.Props.C45']
    theorems = [
        'CylcModel.C45.abs_satisfies_all_partial',
        'CylcModel.C45.abs_satisfies_all_of_available',
        'CylcModel.C45.abs_satisfies_all_counterexample',
        'CylcModel.C45.abs_future_instances',
        'CylcModel.C45.abs_output_recorded',
        'CylcModel.C45.abs_recorded_forever',
    ]
    statement_note = (
        'partial: proof over the Sched model v1 (intervention-free runs), for all instance graphs with hypothesis absWfB '
        '(the task of every absolute child is flagged has_abs_triggers; checked by the driver on every extracted graph) and '
        'all lists of main loops, submit results and job messages. abs_output_recorded + abs_recorded_forever: '
        'spawn_on_output for an output with an absolute child records it in abs_outputs_done, for good. '
        'abs_future_instances: every instance spawn_task creates for a task with absolute triggers has every recorded '
        'absolute output satisfied (or all its prerequisites satisfied already). abs_satisfies_all_partial: in every state of '
        'every run every pooled dependent instance of a recorded absolute output has the atom satisfied, or all '
        'prerequisites satisfied, or the FIRST CHILD of the trigger (the instance at the start of the child sequence listed '
        'in graph_children) is neither pooled nor spawnable. The full statement abs_satisfies_all_full is FALSE for the '
        'current code (abs_satisfies_all_counterexample, kernel-checked; replayed on the real scheduler: finding '
        'abs-first-child-unavailable, repair findings/C45-fix-1.diff): spawn_on_output skips the update of the pooled '
        'instances when the first child is before the start point of a warm start, already ran to completion, or was '
        'removed by a suicide trigger. Missing in Sched v1, hence NOT stated as a theorem: restart (reload of '
        'abs_outputs_done from the absolute_outputs table, load_abs_outputs_for_restart). "including instances spawned '
        'after a restart" is only judged on the real scheduler: every third case (kind cmdr) stops the scheduler at a random '
        'moment and restarts it; the model is compared on the prefix before the stop command and the judge runs over the '
        'whole trace including the restarted scheduler')
    technique = ('inductive invariant with a stable exception set (generic Frame over the Sched primitives, custom '
                 'spawn_on_output step with an exemption that shrinks child by child) + kernel-checked counterexample + trace '
                 'correspondence with the real Scheduler + judge on completions and prerequisite atoms')
    trusted = ['completions are read from the logged process_message calls (outputs of the instance before/after each call, '
               'instance in the pool or not); the and/or expression of a prerequisite is taken from the extracted graph']
    rule = ('generated integer-cycling workflows (2-6 tasks, 1-3 recurrences, AND/OR triggers, inter-cycle offsets, optional '
            'and custom outputs, suicide triggers, retries) with an absolute trigger (foo[^], foo[^+P1], foo[<point>]) offered '
            'at every second trigger site and 30% warm starts, driven through the real Scheduler by a seeded adaptive '
            'schedule ("any" kind: failures, missing outputs, duplicate/stale/out-of-order messages; "cmdr" kind: one stop '
            '--now / clean stop at a random moment followed by a restart); every sixth case from the family "absr": two or three '
            'DIFFERENT outputs (started / succeeded / custom) of one task behind absolute triggers, dependents spawned cycle by '
            'cycle under runahead P0/P1 (through an inter-cycle parent or as parentless successors), one stop + restart at a '
            'random moment, run continued to the end; plus the three minimal histories of the recorded '
            'defect and five stop+restart runs of "a[^] & b[-P1] => c"; non-trivial = distinct (kind, absolute-output completed or not, ending, '
            'launch-count) class per distinct case')
    gen_opts = {'p_abs': 0.5, 'abs_forms': ['^', '^', '^+P1', 'icp+1'], 'p_startcp': 0.3, 'p_intercycle': 0.3,
                # kind 'cmdr' only: one stop (now / clean) at a random moment, then a restart
                'cmds': ['stop_now', 'stop_clean'], 'p_cmd': 0.04, 'restarts': [1]}
    n_thorough = 1500
    n_quick = 72

    def corpus(self):
        return [
            WITNESS_WARM, WITNESS_DONE,
            _case('c45-suicide-first-child', '        P1 = """\n a[^] => c\n a\n b:fail? => !c\n b?\n"""', fcp=3, rh=2,
                  ops=[_L] + _job('1/b', 'failed') + [_L, _L] + _job('1/a') + [_L, _L, _L]),
            # stop + restart after the absolute output completed, dependents spawned after the restart
            *[_restart_case(f'c45-restart-and-{k}', '        P1 = """\n a[^] & b[-P1] => c\n a\n b\n"""', k)
              for k in (0, 3, 4, 6, 9)],
            _case('c45-plain', '        P1 = """\n a[^] => c\n a\n"""'),
            _case('c45-lit', '        P1 = """\n a[2] => c\n a\n"""', rh=3),
            _case('c45-and', '        P1 = """\n a[^] & b[-P1] => c\n a\n b\n"""', fcp=5, rh=1),
            _case('c45-out', '        P1 = """\n a[^]:start & b => c\n a\n"""', fcp=5, rh=0),
        ]

    def gen(self, tier, rng):
        # every sixth case comes from the family 'absr' (several absolute outputs of one task + restart + late dependents)
        for k, case in enumerate(super().gen(tier, rng)):
            yield gen_abs_restart_case(case['seed']) if k % 6 == 5 else case

    # every third case stops the scheduler (stop --now / clean stop) at a random moment, restarts it and goes on:
    # the Sched v1 model is compared on the prefix before the stop command, the judge sees the whole trace
    kinds = ('complete', 'any', 'cmdr')

    # a restart brings up a second Scheduler (server threads, barrier with a 10 s timeout, shutdown under a 20 s
    # timeout): on a loaded machine these time out.  That is the environment, never a verdict: retry alone, then Infra.
    _INFRA = ('BrokenBarrierError', 'TimeoutError', 'CancelledError', 'Address already in use')

    def _is_infra(self, raw):
        return 'error' in raw and raw.get('stage') == 'run' and any(k in raw['error'] for k in self._INFRA)

    def impl_batch(self, inputs):
        from core import Infra
        from prop import run_workers
        res = run_workers(inputs, self.workers)
        for attempt in range(2):
            bad = [k for k, r in enumerate(res) if self._is_infra(r)]
            if not bad:
                break
            again = run_workers([inputs[k] for k in bad], 2)
            for k, r in zip(bad, again):
                res[k] = r
        still = [r for r in res if self._is_infra(r)]
        if still:
            raise Infra('scheduler restart timed out repeatedly (machine overloaded?): '
                        + still[0]['error'].strip().splitlines()[-1][:200])
        return res

    @staticmethod
    def _cut(ops):
        return next((k for k, op in enumerate(ops) if op['op'] in ('cmd', 'restart')), None)

    def driver_input(self, inp, raw):
        d = super().driver_input(inp, raw)
        if 'crash' in d:
            return d
        cut = self._cut(raw['ops'])
        if cut is not None:
            d['ops'] = raw['ops'][:cut]
            d['full_ops'] = raw['ops']
            d['full_obs'] = raw['obs']
        return d

    def driver_obs(self, inp, raw):
        if 'error' in raw:
            return super().driver_obs(inp, raw)
        cut = self._cut(raw['ops'])
        return raw['obs'] if cut is None else raw['obs'][:cut + 1]

    def _replay_input(self, inp, driver_inp):
        d = dict(inp)
        d['ops'] = driver_inp.get('full_ops') or driver_inp['ops']
        return d

    def classify(self, inp, obs):
        base = super().classify(inp, obs)
        if isinstance(obs, dict):
            return base
        flow = inp.get('flow', '')
        feat = 'abs' if '[^' in flow or any(f'[{k}]' in flow for k in range(1, 9)) else 'noabs'
        return f'{feat}/{base}'


PROP = C45()
