"""C15  Family triggers expand to all/any of the members' outputs."""
from __future__ import annotations

import builtins
import collections
import os
import random
import shutil
import sys
import tempfile
import types

from core import Prop

STEMS = ['succeed', 'fail', 'finish', 'start', 'submit', 'submit-fail', 'expire']
FAM_QUALS = [s + sfx for s in STEMS for sfx in ('-all', '-any')]
STD_OUTPUTS = ['succeeded', 'failed', 'finished', 'started', 'submitted', 'submit-failed', 'expired']

# ---------------------------------------------------------------------------
# structure -> text


def node(name, off='', q='', opt=False, sui=False):
    return {'n': {'name': name, 'off': off, 'q': q, 'opt': bool(opt), 'sui': bool(sui)}}


def AND(l, r):
    return {'and': [l, r]}


def OR(l, r):
    return {'or': [l, r]}


def PAR(t):
    return {'par': t}


def node_text(n):
    return (('!' if n['sui'] else '') + n['name'] + n['off']
            + ((':' + n['q']) if n['q'] else '') + ('?' if n['opt'] else ''))


def tree_text(t, sp=''):
    if 'n' in t:
        return node_text(t['n'])
    if 'and' in t:
        return tree_text(t['and'][0], sp) + sp + '&' + sp + tree_text(t['and'][1], sp)
    if 'or' in t:
        return tree_text(t['or'][0], sp) + sp + '|' + sp + tree_text(t['or'][1], sp)
    return '(' + sp + tree_text(t['par'], sp) + sp + ')'


def tree_nodes(t):
    if 'n' in t:
        return [t['n']]
    if 'and' in t:
        return tree_nodes(t['and'][0]) + tree_nodes(t['and'][1])
    if 'or' in t:
        return tree_nodes(t['or'][0]) + tree_nodes(t['or'][1])
    return tree_nodes(t['par'])


def graph_text(case):
    """Render the lines; `ws` picks a white-space / comment variant (presentation only)."""
    ws = case.get('ws', 0)
    sp = ' ' if ws % 2 else ''
    arrow = (' => ', '=>', '  =>  ', ' =>')[ws % 4]
    out = []
    for k, chain in enumerate(case['lines']):
        ln = arrow.join(tree_text(e, sp) for e in chain)
        if ws % 3 == 1:
            ln = '    ' + ln + '  # line %d' % k
        elif ws % 3 == 2:
            ln = '\t' + ln + ' '
        out.append(ln)
        if ws % 5 == 4:
            out.append('   # comment')
    return '\n'.join(out) + ('\n' if ws % 2 else '')


# ---------------------------------------------------------------------------
# Lean literals for the generated tables

def lstr(s):
    assert all(32 <= ord(c) < 127 for c in s), s
    return '"' + s.replace('\\', '\\\\').replace('"', '\\"') + '"'


def lbool(b):
    return 'true' if b else 'false'


def llist(items):
    return '[' + ', '.join(items) + ']'


def lchars(chars):
    return llist(['Char.ofNat %d' % ord(c) for c in chars])



# ---------------------------------------------------------------------------
# deterministic order among pairs with the same left side (Python set order in the real code)

_TIE = {'desc': False}


def _sorted_total(it, key=None, reverse=False):
    """Stands in for the builtin `sorted` inside cylc.flow.graph_parser: the real code sorts a *set* of
    (left, right) pairs by str(left) only, so pairs with equal left sides come out in hash order.  One
    admissible order is fixed here: ascending / descending right-hand text."""
    items = list(it)
    if key is not None and items and all(isinstance(p, tuple) and len(p) == 2 for p in items):
        items = builtins.sorted(items, key=lambda p: p[1], reverse=_TIE['desc'])
    return builtins.sorted(items, key=key, reverse=reverse)


_CAPTURED = []
_RT = {}     # run-time handles (module level: inherited by forked workers, never pickled)

FLOW_TMPL = """[scheduler]
    allow implicit tasks = True
[scheduling]
    cycling mode = integer
    initial cycle point = 1
    [[graph]]
        P1 = \"\"\"
%s
        \"\"\"
[runtime]
%s
"""

# name pools -----------------------------------------------------------------
TASKS = ['a', 'b', 'c', 'x', 'y', 'foo', 'bar', 'a-x', 'x-a', 'a+b', 'm', 'm1', 'm10', 'am1', 'zm',
         't%1', 'u@v', '_u', '1st', 'foo-bar', 'ab', 'b-a']
FAMS = ['FAM', 'FAM2', 'x-FAM', 'FAM-x', 'F+', 'G', 'SUB', 'A_B', 'FAM%1', 'F@M', 'AM', 'xFAM']
OFFSETS = ['[-P1]', '[+P2]', '[^]', '[-P1D]', '[2]', '[^+P1]']
CUSTOM_QUALS = ['x', 'out-1', 'fail-x', 'succeed-all-x', 'all']


class C15(Prop):
    id = 'C15'
    props_modules = ['CylcModel.Props.C15']
    theorems = [
        'CylcModel.C15.fam_trigger_table',
        'CylcModel.C15.alt_qualifiers_table',
        'CylcModel.C15.fam_output_table',
        'CylcModel.C15.task_qualifiers_table',
        'CylcModel.C15.qualifier_constants',
        'CylcModel.C15.lexer_tables',
        'CylcModel.C15.tables_ok',
        'CylcModel.C15.fam_all_sem',
        'CylcModel.C15.fam_any_sem',
        'CylcModel.C15.expand_sem',
        'CylcModel.C15.expand_wf',
        'CylcModel.C15.rhs_family',
        'CylcModel.C15.nested_members',
        'CylcModel.C15.nested_fam_all_sem',
        'CylcModel.C15.nested_fam_any_sem',
    ]
    statement_note = (
        'full: for every family map, family, member list (any size incl. empty), offset, qualifier stem and '
        'optional mark, FAM:<q>-all expands to an expression that is true iff every member has the member output '
        'and FAM:<q>-any iff some member has it (finish = succeeded or failed) [fam_all_sem, fam_any_sem]; for '
        'every left-hand expression tree (all mixtures with plain triggers, offsets, xtriggers, any size) the '
        'recorded expressions mean the member-level reading of the tree and stay well-formed text [expand_sem, '
        'expand_wf]; a family on the right gives every member the trigger and the declared optionality as family '
        'default (an explicit declaration on a member itself takes precedence, as in the code) [rhs_family]; '
        'members of nested families = tasks inheriting directly or indirectly, unbounded depth [nested_members, '
        'nested_fam_*]; the qualifier tables and regex character classes of the source are regenerated on every '
        'run and proved to be the seven qualifiers of the property [fam_trigger_table, alt_qualifiers_table, '
        'fam_output_table, task_qualifiers_table, qualifier_constants, lexer_tables]. The statements hold for the '
        'source with findings/C15-fix-1..4.diff applied; on the unfixed tree the table theorems do not build and '
        'the judge reports concrete inputs')
    technique = 'structural induction over expression trees + generated-table decide + exhaustive/seeded correspondence'
    trusted = [
        'the text of a graph is produced from the structure by the harness renderer (white-space / comment '
        'variants); the regexes that tokenise nodes are tied through generated character-class tables, not modelled',
        'pairs with equal left-hand sides are processed by the real code in Python set order; the harness fixes '
        'that order (ascending or descending right-hand text, both generated) by shadowing `sorted` inside '
        'cylc.flow.graph_parser',
        'reading an expression string back as a boolean expression (& binds tighter than |) in the judge',
    ]
    unmodelled = [
        'parameters <...>, workflow-state polling nodes, line continuation, multiple graph sections sharing '
        'task_output_opt, expire_triggers mode, Cylc-7 back-compat mode',
        'invalid nodes on any but the last line (accepted by the current code: C14, DESIGN section 8)',
        'C3 linearisation errors in [runtime] inheritance (only consistent hierarchies are generated)',
    ]
    rule = (
        'exhaustive box: 14 family qualifiers + bare/illegal ones x optional x family size 1-3 (names containing '
        'each other) x offset x position (left alone, left in an OR, right, right with suicide mark, lone node, '
        'middle of a chain), all alt/standard/custom qualifiers on a member next to a family trigger; then seeded '
        'random graphs: 1-3 lines, chains of 1-3 elements, expression trees of depth <= 3 over families and plain '
        'tasks from name pools with -+%@ and mutual substrings, offsets, xtriggers, four optionality styles, '
        'ascending/descending tie order, 60 white-space/comment renderings, 20% through WorkflowConfig with a '
        'generated [runtime] hierarchy (nested families, second parents), 2% with a junk character in a node; '
        'non-trivial = involves a family node; classes = mode/outcome + set of branches (Lall Lany Lbare Lbadq '
        'Lfin Loff Rfam Ropt Rsui lone mix cond nested), counted per distinct input')
    exhaustive = False
    workers = 16

    # -- set-up -------------------------------------------------------------
    def setup(self):
        import logging
        import cylc.flow.graph_parser as gp
        import cylc.flow.config as cfgmod
        from cylc.flow.exceptions import GraphParseError
        from cylc.flow.scheduler_cli import RunOptions
        _RT.update(gp=gp, cfgmod=cfgmod, RunOptions=RunOptions, base=None)
        gp.sorted = _sorted_total
        logging.getLogger('cylc').setLevel(logging.CRITICAL + 1)

        class Cap(gp.GraphParser):
            def __init__(self, *a, **k):
                super().__init__(*a, **k)
                self._status = None
                _CAPTURED.append(self)

            def parse_graph(self, g):
                try:
                    super().parse_graph(g)
                    self._status = 'ok'
                except Exception as exc:
                    self._status = type(exc).__name__
                    raise
        _RT['Cap'] = Cap
        cfgmod.GraphParser = Cap

    def impl_batch(self, inputs):
        _RT['base'] = tempfile.mkdtemp(prefix='C15-run-', dir='/tmp')
        try:
            # GraphParser cases cost ~0.3 ms: in-process; WorkflowConfig cases ~10 ms: forked pool
            out = [None] * len(inputs)
            cfg = []
            for i, c in enumerate(inputs):
                if c.get('mode') == 'config':
                    cfg.append(i)
                else:
                    out[i] = self.impl(c)
            if len(cfg) < 500:
                for i in cfg:
                    out[i] = self.impl(inputs[i])
            else:
                import multiprocessing as mp
                with mp.get_context('fork').Pool(8) as pool:
                    res = pool.map(self.impl, [inputs[i] for i in cfg], chunksize=max(1, len(cfg) // 64))
                for i, r in zip(cfg, res):
                    out[i] = r
            return out
        finally:
            shutil.rmtree(_RT['base'], ignore_errors=True)
            _RT['base'] = None

    # -- K-T ----------------------------------------------------------------
    def translate(self):
        import cylc.flow.graph_parser as gp
        import cylc.flow.task_qualifiers as tq
        import cylc.flow.task_outputs as to
        G = gp.GraphParser
        L = ['/- GENERATED on every run by harness/props/c15.py from the live source',
             '   (cylc/flow/graph_parser.py, task_qualifiers.py, task_outputs.py).  DO NOT EDIT. -/',
             'namespace CylcModel.Generated.FamTables', '']
        for lean, py in [('outExpired', 'TASK_OUTPUT_EXPIRED'), ('outSubmitted', 'TASK_OUTPUT_SUBMITTED'),
                         ('outSubmitFailed', 'TASK_OUTPUT_SUBMIT_FAILED'), ('outStarted', 'TASK_OUTPUT_STARTED'),
                         ('outSucceeded', 'TASK_OUTPUT_SUCCEEDED'), ('outFailed', 'TASK_OUTPUT_FAILED'),
                         ('outFinished', 'TASK_OUTPUT_FINISHED')]:
            # the names graph_parser.py itself uses
            L.append(f'def {lean} : String := {lstr(getattr(gp, py))}')
        L.append(f'def qualSucceedAll : String := {lstr(gp.QUAL_FAM_SUCCEED_ALL)}')
        L.append('')
        L.append('/-- task_outputs.TASK_OUTPUTS -/')
        L.append('def taskOutputs : List String := ' + llist([lstr(x) for x in to.TASK_OUTPUTS]))
        L.append('/-- task_qualifiers.QUAL_FAM_* -/')
        quals = sorted((k, v) for k, v in vars(tq).items() if k.startswith('QUAL_FAM_'))
        L.append('def famQualConstants : List (String × String) := '
                 + llist([f'({lstr(k)}, {lstr(v)})' for k, v in quals]))
        L.append('/-- task_qualifiers.ALT_QUALIFIERS -/')
        L.append('def altQualifiers : List (String × String) := '
                 + llist([f'({lstr(k)}, {lstr(v)})' for k, v in tq.ALT_QUALIFIERS.items()]))
        L.append('/-- task_qualifiers.TASK_QUALIFIERS -/')
        L.append('def taskQualifiers : List String := ' + llist([lstr(x) for x in tq.TASK_QUALIFIERS]))
        L.append('/-- GraphParser.fam_to_mem_trigger_map -/')
        L.append('def famToMemTrigger : List (String × (String × Bool)) := '
                 + llist([f'({lstr(k)}, ({lstr(v[0])}, {lbool(v[1])}))'
                          for k, v in G.fam_to_mem_trigger_map.items()]))
        L.append('/-- GraphParser.fam_to_mem_output_map -/')
        L.append('def famToMemOutput : List (String × List String) := '
                 + llist([f'({lstr(k)}, {llist([lstr(x) for x in v])})'
                          for k, v in G.fam_to_mem_output_map.items()]))
        L.append('')
        L.append('/-! Character classes of the node regexes, tabulated over printable ASCII by probing the')
        L.append('compiled regexes (REC_NODE_FULL: by `sub("", node, 1) == ""`; REC_NODES / REC_RHS_NODE: by the')
        L.append('group the probe text lands in). -/')
        D = [c for c in map(chr, range(33, 127)) if c not in '!@()&|=><#?:[]']

        def full(t):
            return G.REC_NODE_FULL.sub('', t, 1) == ''

        def grp(R, pre, t, idx):
            m = R.fullmatch(pre + t)
            return bool(m) and m.group(idx) == t

        tabs = {
            'full': (lambda t: full(t), lambda t: full(t), lambda t: full('a' + t), lambda t: full('a' + t)),
            'nodes': tuple((lambda t, pre=pre, i=i: grp(G.REC_NODES, pre, t, i))
                           for pre, i in (('', 1), ('', 1), ('a', 3), ('a', 2))),
            'rhs': tuple((lambda t, pre=pre, i=i: grp(G.REC_RHS_NODE, pre, t, i))
                         for pre, i in (('', 2), ('', 2), ('a', 4), ('a', 3))),
        }
        for name, (f_first, f_rest, f_qual, f_off) in tabs.items():
            L.append(f'def {name}NameFirst : List Char := ' + lchars([c for c in D if f_first(c + 'b')]))
            L.append(f'def {name}NameRest : List Char := ' + lchars([c for c in D + ['@'] if f_rest('a' + c + 'b')]))
            L.append(f'def {name}Qual : List Char := ' + lchars([c for c in D if f_qual(':x' + c + 'y')]))
            L.append(f'def {name}Offset : List Char := ' + lchars([c for c in D + [':'] if f_off('[x' + c + 'y]')]))
        L.append('def xtrigChars : List Char := '
                 + lchars([c for c in D if G.REC_XTRIG.fullmatch('@x' + c + 'y')]))
        L += ['', 'end CylcModel.Generated.FamTables', '']
        return {'FamTables.lean': '\n'.join(L)}



    # -- K-C: adapter --------------------------------------------------------
    def observe(self, parser, status):
        out = {'fm': sorted([k, list(v)] for k, v in parser.family_map.items())}
        if status != 'ok':
            out['err'] = status
            return out
        trig = []
        for name, d in parser.triggers.items():
            for expr, (trigs, suicide) in d.items():
                trig.append([name, expr, sorted(set(trigs)), bool(suicide)])
        out['trig'] = sorted(trig)
        out['opt'] = sorted([n, o, bool(a), bool(b), bool(c)]
                            for (n, o), (a, b, c) in parser.task_output_opt.items())
        # the terminal-output check of WorkflowConfig._load_graph, run on the real parser.terminals in an
        # environment where [runtime] defines no custom outputs
        stub = types.SimpleNamespace(cfg={'runtime': collections.defaultdict(lambda: {'outputs': {}})})
        try:
            _RT['cfgmod'].WorkflowConfig.check_terminal_outputs(stub, parser.terminals)
            out['term'] = 'ok'
        except Exception:
            out['term'] = 'err'
        return out

    def impl(self, inp):
        text = graph_text(inp)
        _TIE['desc'] = inp.get('tie') == 'desc'
        if inp.get('mode', 'parser') == 'parser':
            p = _RT['Cap']({k: list(v) for k, v in inp['fams']})
            try:
                p.parse_graph(text)
            except Exception:
                pass
            return self.observe(p, p._status)
        # config mode: the family map is computed by WorkflowConfig._load_graph from [runtime] inheritance
        base = _RT['base'] or tempfile.gettempdir()
        d = os.path.join(base, str(os.getpid()))
        os.makedirs(d, exist_ok=True)
        rt = ''.join('    [[%s]]\n%s' % (n, ('        inherit = %s\n' % ', '.join(ps)) if ps else '')
                     for n, ps in inp['inherit'])
        f = os.path.join(d, 'flow.cylc')
        with open(f, 'w') as fh:
            fh.write(FLOW_TMPL % ('\n'.join('            ' + ln for ln in text.split('\n')), rt))
        del _CAPTURED[:]
        try:
            _RT['cfgmod'].WorkflowConfig('c15', f, _RT['RunOptions']())
        except Exception as exc:
            if not _CAPTURED:
                return {'err': 'config:' + type(exc).__name__}
        if len(_CAPTURED) != 1 or _CAPTURED[0]._status is None:
            return {'err': 'config:no-parse'}
        p = _CAPTURED[0]
        return self.observe(p, p._status)

    # -- K-C: cases ------------------------------------------------------------
    def mk(self, fams, lines, tie='asc', ws=0, inherit=None):
        c = {'mode': 'config' if inherit is not None else 'parser', 'lines': lines, 'tie': tie, 'ws': ws}
        if inherit is not None:
            c['inherit'] = inherit
        else:
            c['fams'] = fams
        return c

    def corpus(self):
        F2 = [['FAM', ['m1', 'm2']]]
        out = [
            # DESIGN section 8: submit-fail-any
            self.mk(F2, [[node('FAM', q='submit-fail-any', opt=True), node('x')]]),
            self.mk(F2, [[OR(node('FAM', q='submit-fail-any', opt=True), node('a')), node('x')]]),
            # names that contain each other (word boundaries inside names)
            self.mk([['FAM', ['m1', 'm2']], ['x-FAM', ['n1']]],
                    [[OR(node('FAM', q='succeed-all'), node('x-FAM', q='succeed-all')), node('b')]]),
            self.mk([['F+', ['p1', 'p2']]], [[node('F+', q='succeed-all'), node('b')]]),
            self.mk([['FAM', ['m', 'zm']]], [[node('FAM', q='finish-all'), node('b')]]),
            self.mk([['G', ['a', 'a-x']]], [[OR(node('G', q='fail-any', opt=True), node('a-x', q='finish')), node('b')]]),
            self.mk([], [[OR(node('a'), node('a-x')), node('b')]]),
            # offsets, finish, mixtures, right-hand families
            self.mk(F2, [[AND(node('FAM', '[-P1]', 'finish-all'), node('a')), node('b')]]),
            self.mk(F2, [[OR(node('FAM', '[-P1]', 'finish-any'), node('a')), node('b')]]),
            self.mk(F2, [[node('a'), node('FAM')]]),
            self.mk(F2, [[node('a'), node('FAM', q='fail-all', opt=True)]]),
            self.mk(F2, [[node('a'), node('FAM', q='finish-all')]]),
            self.mk(F2, [[node('a'), node('FAM', sui=True)]]),
            self.mk(F2, [[node('FAM')]]),
            self.mk(F2, [[node('FAM', opt=True)]]),
            self.mk(F2, [[node('FAM', q='succeed-all'), node('x')], [node('m1', opt=True), node('y')]]),
            # nesting through [runtime] inheritance
            self.mk(None, [[AND(node('FAM', '[-P1]', 'finish-all'), node('a')), node('b')],
                           [node('SUB', q='fail-any', opt=True), node('c')]],
                    inherit=[['FAM', []], ['SUB', ['FAM']], ['OTHER', []], ['m1', ['SUB']],
                             ['m2', ['FAM', 'OTHER']], ['zz', ['OTHER']]]),
        ]
        return out

    def gen(self, tier, rng):
        # 1. the finite part, exhaustively: qualifier x all/any x optional x position x size x offset
        sizes = {1: ['m1'], 2: ['m1', 'm2'], 3: ['m', 'zm', 'am1']}
        v = 0
        for q in FAM_QUALS + ['', 'succeed', 'failed', 'x']:
            for opt in (False, True):
                for size, mems in sizes.items():
                    fams = [['FAM', mems]]
                    for off in ('', '[-P1]'):
                        v += 1
                        yield self.mk(fams, [[node('FAM', off, q, opt), node('x')]], ws=v)
                        yield self.mk(fams, [[OR(node('FAM', off, q, opt), node('a')), node('x')]], ws=v + 1)
                    yield self.mk(fams, [[node('a'), node('FAM', '', q, opt)]], ws=v)
                    yield self.mk(fams, [[node('a'), node('FAM', '', q, opt, True)]], ws=v + 2)
                    yield self.mk(fams, [[node('FAM', '', q, opt)]], ws=v)
                    yield self.mk(fams, [[node('a'), node('FAM', '', q, opt), node('z')]], ws=v)
        for q in STEMS + STD_OUTPUTS + FAM_QUALS + CUSTOM_QUALS:
            for opt in (False, True):
                yield self.mk([['FAM', ['m1', 'm2']]], [[OR(node('m1', '', q, opt), node('FAM', q='start-any')), node('x')]])
                yield self.mk([['FAM', ['m1', 'm2']]], [[node('a'), node('m1', '', q, opt)], [node('FAM', q='start-all'), node('y')]])
        n = {'quick': 1500, 'thorough': 60000}.get(tier, 150000)
        for _ in range(n):
            yield self.random_case(rng)

    # random structure -----------------------------------------------------------
    def random_fams(self, rng):
        tasks = rng.sample(TASKS, rng.randint(3, 8))
        fams = []
        for f in rng.sample(FAMS, rng.randint(1, 3)):
            fams.append([f, sorted(rng.sample(tasks, rng.randint(1, min(5, len(tasks)))))])
        return tasks, fams

    def random_inherit(self, rng):
        """A consistent hierarchy: a forest of families (depth <= 3), tasks below them; some namespaces get a
        second parent that is a top-level family without parents of its own (C3 always succeeds)."""
        ok_f = [f for f in FAMS]
        fams = rng.sample(ok_f, rng.randint(1, 4))
        decl = []
        tops = []
        for i, f in enumerate(fams):
            if i and rng.random() < 0.55:
                decl.append([f, [rng.choice(fams[:i])]])
            else:
                decl.append([f, []])
                tops.append(f)
        tasks = rng.sample(TASKS, rng.randint(2, 7))
        for t in tasks:
            r = rng.random()
            if r < 0.15:
                decl.append([t, []])
                continue
            ps = [rng.choice(fams)]
            if rng.random() < 0.3:
                extra = [x for x in tops if x not in ps]
                if extra:
                    ps.append(rng.choice(extra))
            decl.append([t, ps])
        rng.shuffle(decl)
        # parents must be declared somewhere; order in the file does not matter to cylc
        return tasks, decl

    def flat(self, decl):
        par = {n: (ps or ['root']) for n, ps in decl}

        def anc(n, seen=()):
            out = set()
            for p in par.get(n, []):
                if p not in seen:
                    out.add(p)
                    out |= anc(p, seen + (n,))
            return out
        a = {n: anc(n) for n in par}
        fams = sorted({p for s in a.values() for p in s} - {'root'})
        return [[f, sorted(t for t in par if f in a[t] and not any(t in s for s in a.values()))] for f in fams]

    def random_node(self, rng, tasks, fams, side, style):
        """side: 'L' (left-hand), 'R' (right-hand), 'F' (only element of a one-element chain).
        style: 'allopt' (every output optional), 'req' (only outputs that may be required together),
        'natural' (fail/expire/submit-fail optional, others required), 'wild' (anything)"""
        r = rng.random()
        if side == 'L' and r < 0.04:
            return node('@' + rng.choice(['x', 'wall-clock', 'x+1']))
        wild = style == 'wild'
        stems = ['succeed', 'start', 'submit'] if style == 'req' else STEMS
        outs = ['succeeded', 'started', 'submitted'] if style == 'req' else STD_OUTPUTS
        famnames = [f for f, _ in fams]
        if r < 0.55 and famnames:
            name = rng.choice(famnames)
            rq = rng.random()
            if rq < (0.8 if wild else 0.93):
                q = rng.choice(stems) + rng.choice(['-all', '-any'])
            elif rq < (0.88 if wild else 0.97):
                q = ''          # fine when lone or right-most, "Family trigger required" on the left
            else:
                q = rng.choice(STEMS + STD_OUTPUTS + CUSTOM_QUALS)
        else:
            name = rng.choice(tasks)
            rq = rng.random()
            if rq < 0.4:
                q = ''
            elif rq < 0.85:
                q = rng.choice(stems + outs)
            elif rq < (0.95 if wild else 0.99):
                q = rng.choice(CUSTOM_QUALS)
            else:
                q = rng.choice(FAM_QUALS)
        off = ''
        if (side == 'L' and rng.random() < 0.25) or (side != 'L' and rng.random() < (0.03 if wild else 0.01)):
            off = rng.choice(OFFSETS)
        stem = q[:-4] if q[-4:] in ('-all', '-any') else q
        if stem in ('finish', 'finished'):
            opt = wild and rng.random() < 0.2
        elif style == 'allopt':
            opt = True
        elif style == 'req':
            opt = False
        elif style == 'natural':
            opt = stem in ('fail', 'failed', 'expire', 'expired', 'submit-fail', 'submit-failed')
        else:
            opt = rng.random() < 0.35
        sui = (side == 'R' and rng.random() < 0.08) or (side != 'R' and wild and rng.random() < 0.03)
        return node(name, off, q, opt, sui)

    def random_tree(self, rng, tasks, fams, side, depth, style):
        r = rng.random()
        if depth <= 0 or r < 0.3:
            return self.random_node(rng, tasks, fams, side, style)
        l = self.random_tree(rng, tasks, fams, side, depth - 1, style)
        rt = self.random_tree(rng, tasks, fams, side, depth - 1, style)
        if side == 'R' and rng.random() < (0.97 if style == 'wild' else 0.995):
            t = AND(l, rt)            # '|' on the right is an error: rarely generated
            return t
        if r < 0.65:
            # a bare '|' under '&' would change the meaning of the text: always parenthesised
            l = PAR(l) if 'or' in l else l
            rt = PAR(rt) if 'or' in rt else rt
            t = AND(l, rt)
        else:
            t = OR(l, rt)
        if rng.random() < 0.15:
            t = PAR(t)
        return t

    def random_case(self, rng):
        config = rng.random() < 0.2
        if config:
            tasks, decl = self.random_inherit(rng)
            fams = self.flat(decl)
            tasks = tasks + rng.sample(TASKS, 2)
        else:
            tasks, fams = self.random_fams(rng)
            decl = None
        style = rng.choice(['allopt'] * 7 + ['req'] * 5 + ['natural'] * 4 + ['wild'] * 4)
        lines = []
        for _ in range(rng.choice([1, 1, 1, 2, 2, 3])):
            k = rng.choice([1, 2, 2, 2, 2, 3, 3])
            if k == 1:
                chain = [self.random_tree(rng, tasks, fams, 'F', rng.choice([0, 0, 1]), style)]
            else:
                chain = [self.random_tree(rng, tasks, fams, 'L', rng.choice([0, 1, 1, 2, 3]), style)]
                for j in range(1, k):
                    chain.append(self.random_tree(rng, tasks, fams, 'R', rng.choice([0, 0, 0, 1, 2]), style))
            lines.append(chain)
        if rng.random() < 0.02:
            # a node that is not a node: junk character in the last line (REC_NODE_FULL must reject it)
            nd = rng.choice(tree_nodes(lines[-1][-1]))
            part = rng.choice(['name', 'q', 'off'])
            j = rng.choice('.*$~+%^')
            if part == 'name':
                nd['name'] = nd['name'][:1] + j + nd['name'][1:]
            elif part == 'q':
                nd['q'] = (nd['q'] or 'x') + j + 'y'
            else:
                nd['off'] = '[-P' + j + '1]'
        return self.mk(fams, lines, rng.choice(['asc', 'desc']), rng.randint(0, 59), decl)

    # -- evidence ------------------------------------------------------------------
    def classify(self, inp, obs):
        """outcome + which family-trigger branches the case exercises"""
        if str(obs.get('err', '')).startswith('config:'):
            return 'config-failed'
        tags = set()
        fams = dict(obs.get('fm') or [])
        names = set(fams)
        nested = False
        if inp.get('mode') == 'config':
            par = {n: ps for n, ps in inp['inherit']}
            nested = any(par.get(p) for ps in par.values() for p in ps)     # a family below a family
        for chain in inp['lines']:
            for i, e in enumerate(chain):
                used_left = i < len(chain) - 1
                used_right = i > 0
                for n in tree_nodes(e):
                    if n['name'] in names:
                        q = n['q']
                        kind = 'all' if q.endswith('-all') else 'any' if q.endswith('-any') else 'bare' if not q else 'badq'
                        if used_left:
                            tags.add('L' + kind)
                            if n['off']:
                                tags.add('Loff')
                            if q.startswith('finish'):
                                tags.add('Lfin')
                        if used_right:
                            tags.add('Rsui' if n['sui'] else 'Ropt' if n['opt'] else 'Rfam')
                        if not used_left and not used_right:
                            tags.add('lone')
                    elif used_left:
                        tags.add('mix')
                if used_left and ('or' in e or 'par' in e):
                    tags.add('cond')
        if not tags - {'mix', 'cond'}:
            return None
        if nested:
            tags.add('nested')
        head = inp.get('mode', 'parser')[0] + ('/err' if 'err' in obs else '/ok')
        return head + ':' + ','.join(sorted(tags))

    def neighbours(self, inp, rng):
        out = []
        for chain in inp['lines']:
            one = dict(inp)
            one['lines'] = [chain]
            out.append(one)
            for i in range(len(chain) - 1):
                two = dict(inp)
                two['lines'] = [chain[i:i + 2]]
                out.append(two)
        import copy
        for q in FAM_QUALS:
            c = copy.deepcopy(inp)
            done = False
            for chain in c['lines']:
                for e in chain:
                    for n in tree_nodes(e):
                        if not done and n['q'] in FAM_QUALS:
                            n['q'] = q
                            done = True
            if done:
                out.append(c)
        flip = dict(inp)
        flip['tie'] = 'desc' if inp.get('tie') != 'desc' else 'asc'
        out.append(flip)
        return out


PROP = C15()
