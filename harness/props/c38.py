"""C38  `cylc clean` deletes only inside the workflow.

One case = one real temporary tree (run dir with files, dirs, standard symlink dirs pointing to other
"disks", other symlinks pointing inside / outside / nowhere, sibling runs, canary files outside) and
one `cylc clean [--rm ...]` through the real `init_clean` (local part).  The whole sandbox is
snapshotted before and after; the set of deleted paths is the observation.
"""
from __future__ import annotations

import asyncio
import glob as pyglob
import json
import os
import posixpath
import shutil
import tempfile
from types import SimpleNamespace

from core import Prop

STD = [['work'], ['share', 'cycle'], ['share'], ['log', 'job'], ['log'], []]   # only used to shape cases

NAMES = ['a', 'b', 'x', 'y', 'x1', 'a.txt', '.hid', 'cycle', 'job', 'log', 'share', 'work', 'd e', 'x[1]', 's*']
GLOBS = ['*', '**', '**/*', '*/*', '**/x', '**/a*', 'a*', '?', 'x*', '[ab]', '**/', '*/', 'log', 'log/', 'share/cycle',
         'share/**', 'work/*', 'log/job/*', '.hid', '.*', '**/.*', 'share', 'work', 'log/job', 'share/cycle/*', '**/cycle',
         '**/job', 's*', '**/s*', 'share*/**', '*/x', 'a/**', '**/**', '**/x/**', 'x[1]', 'x[[]1]', 's[*]', '**/y', 'l*/j*']


# ---------------------------------------------------------------------------
# a tiny resolver over the case tree (generation / classification only, never a verdict)

class Tree:
    def __init__(self):
        self.e = {}          # 'a/b' -> ('d',) | ('f',) | ('l', target, rel)

    def kind(self, p):
        return ('d',) if p == '' else self.e.get(p)

    def resolve(self, p, fuel=60):
        """physical path of p with every link followed, or None"""
        cur = ''
        rest = [c for c in p.split('/') if c]
        while rest:
            fuel -= 1
            if fuel < 0:
                return None
            c = rest.pop(0)
            q = (cur + '/' + c) if cur else c
            k = self.kind(q)
            if k is None:
                return None
            if k[0] == 'l':
                rest = [x for x in k[1].split('/') if x] + rest
                cur = ''
            elif k[0] == 'd':
                cur = q
            else:
                if rest:
                    return None
                cur = q
        return cur

    def lres(self, p):
        comps = [c for c in p.split('/') if c]
        if not comps:
            return ''
        d = self.resolve('/'.join(comps[:-1]))
        if d is None or self.kind(d) != ('d',):
            return None
        return (d + '/' + comps[-1]) if d else comps[-1]

    def put(self, lex, ent):
        """create ent at the lexical path lex (parents created as dirs where missing); False = impossible"""
        comps = [c for c in lex.split('/') if c]
        cur = ''
        for c in comps[:-1]:
            q = (cur + '/' + c) if cur else c
            k = self.kind(q)
            if k is None:
                self.e[q] = ('d',)
                cur = q
            elif k[0] == 'd':
                cur = q
            elif k[0] == 'l':
                r = self.resolve(q)
                if r is None or self.kind(r) != ('d',):
                    return False
                cur = r
            else:
                return False
        q = (cur + '/' + comps[-1]) if cur else comps[-1]
        if q in self.e:
            return False
        self.e[q] = ent
        return True

    def count_paths(self, start, limit):
        """number of lexical paths below start when links are followed (<= 40 links per path), capped"""
        n = 0
        phys0 = self.resolve(start)
        if phys0 is None or self.kind(phys0) != ('d',):
            return 0
        kids = {}
        for p in self.e:
            if not p.startswith('//'):
                kids.setdefault(posixpath.dirname(p), []).append(p)
        stack = [(phys0, 0)]
        while stack:
            phys, nl = stack.pop()
            for q in kids.get(phys, []):
                n += 1
                if n > limit:
                    return n
                k = self.e[q]
                if k[0] == 'd':
                    stack.append((q, nl))
                elif k[0] == 'l' and nl < 40:
                    r = self.resolve(q)
                    if r is not None and self.kind(r) == ('d',):
                        stack.append((r, nl + 1))
        return n

    def entries(self):
        return [[p] + list(k) for p, k in sorted(self.e.items()) if not p.startswith('//')]


def tree_of(inp):
    t = Tree()
    for ent in inp['tree']:
        t.e[ent[0]] = tuple(ent[1:])
    return t


def spec_parse(items):
    """the harness' own reading of --rm items: split ':', strip, normalise; None = not acceptable"""
    out = []
    for item in items:
        for part in item.split(':'):
            part = part.strip()
            if not part:
                continue
            isdir = part.endswith('/')
            n = posixpath.normpath(part)
            if n.startswith('/') or n in ('.', '..') or n.startswith('../'):
                return None
            if isdir:
                n += '/'
            if n not in out:
                out.append(n)
    return out


def snapshot(root):
    snap = {}
    stack = [(root, '')]
    while stack:
        d, rel = stack.pop()
        with os.scandir(d) as it:
            for ent in it:
                r = rel + '/' + ent.name if rel else ent.name
                if ent.is_symlink():
                    snap[r] = 'l:' + os.readlink(ent.path)
                elif ent.is_dir(follow_symlinks=False):
                    snap[r] = 'd'
                    stack.append((ent.path, r))
                else:
                    snap[r] = 'f'
    return snap


class CaseTimeout(BaseException):
    """not an Exception: nothing in the code under test may swallow it"""


def _worker(inp):
    return PROP.impl(inp)


class C38(Prop):
    id = 'C38'
    props_modules = ['CylcModel.Props.C38']
    theorems = [
        'CylcModel.C38.rm_dirs_normalised',
        'CylcModel.C38.rm_dirs_inside',
        'CylcModel.C38.glob_filter_safe',
        'CylcModel.C38.glob_filter_covers',
        'CylcModel.C38.symlink_dirs_ancestor_closed',
        'CylcModel.C38.clean_glob_contained',
        'CylcModel.C38.clean_contained',
        'CylcModel.C38.clean_deletes_only',
        'CylcModel.C38.tidy_removes_only_empty_dirs',
        'CylcModel.C38.clean_complete_partial',
        'CylcModel.C38.clean_complete_counterexample',
        'CylcModel.C38.clean_complete_counterexample_live',
        'CylcModel.C38.removal_never_aborts',
        'CylcModel.C38.refused_deletes_nothing',
    ]
    statement_note = (
        'partial (file-system and glob semantics assumed). Proved for every tree (finite table path -> file|dir|link), every run dir, '
        'every resolution fuel, every --rm text and ARBITRARY raw glob results: (1) every accepted --rm pattern is a non-empty /-joined '
        'list of proper components (no "..", not absolute), so every lexical match is run_dir followed by proper names; (2) every path '
        'glob_in_run_dir returns has no ancestor that is a symlink other than a standard symlink dir, and every existing match without '
        'such an ancestor is returned or has an ancestor that is; (3) every entry deleted by the deleting part of clean() (wholesale, or '
        'any list of patterns) lies at/below the run-dir entry, below what the run dir resolves to, or below what a standard symlink dir '
        'accepted by get_symlink_dirs resolves to, in the tree as it was before; (4) if _clean_using_glob ends without an exception every '
        'match reachable without a foreign symlink is gone afterwards, and with the guard probed as skipsMissing the removal loop never '
        'raises. NOT proved at full strength: "deletes every match" when an exception ends the call - false on the unguarded code '
        '(clean_complete_counterexample, findings C38 abort-on-removed-subpath, fix in findings/C38-fix-1.diff); after the fix an exception '
        'can only come from remove_dir_and_target refusing a standard symlink dir (not characterised). (5) the whole of clean() including '
        'the tidy-up deletes only entries inside the workflow or the tidy-up paths of the initial tree: the runN link and _cylc-install next '
        'to the run dir, parent directories of the run dir below cylc-run and of the symlink targets inside their cylc-run/<id>/<dir> tail - '
        'and those directories only when nothing is left below them. The conditions under which runN / _cylc-install may go (run gone, '
        'nothing else left) are checked by the correspondence and the judge only; the judge counts the tidy-up as belonging to the workflow '
        'installation')
    technique = ('resolution relation over an abstract file tree with symlinks; monotonicity of resolution under deletion; '
                 'loop invariants of the glob filter and of the removal loops; correspondence on real temporary trees')
    trusted = [
        'POSIX path resolution, lstat/stat, unlink, rmdir, and shutil.rmtree not following symlinks, as modelled in CylcModel/Fs.lean '
        '(validated by the correspondence: whole-sandbox snapshots before/after on real trees)',
        'Python glob (recursive) is an input relation: the model is given what the glob.iglob calls of the run returned (recorded by the '
        'harness, any raw result is covered by the theorems); the judge uses the harness\' own glob.glob of the pristine tree instead',
        'posixpath.normpath / str.strip / str.split as modelled (PathName.lean, PathClean.lean); str.isspace is an abstract predicate '
        'filled from Python for the characters of the case',
        'the judge (Drv/C38.lean) reads the property as: a standard symlink dir = one of WorkflowFiles.SYMLINK_DIRS that is a symlink leading '
        'to <root>/cylc-run/<id>/<dir> (component-wise); "what the pattern matches" = the harness\' own glob of the pristine tree, minus matches '
        'behind a non-standard symlink; the tidy-up (runN link of this run once it is gone, _cylc-install once nothing else is left, empty '
        'parents below cylc-run) belongs to the workflow; a matched symlink whose target directory is deleted in the same clean is not required '
        'to go (a pattern with a trailing slash stops matching it)',
        'the order in which Python iterates the parsed pattern set is an environment hint (list(parse_rm_dirs(rm)) in the same process), '
        'checked to be a permutation of the model\'s parse',
    ]
    unmodelled = [
        'remote clean over ssh, the workflow database lookup of platforms, contact-file / running-workflow check (cases run with --local-only --no-scan)',
        'NFS retry loop of _rmtree, permission errors, concurrent modification of the tree while cleaning',
        'symlink loops among the standard symlink dirs themselves (os.path.realpath non-strict loop handling)',
    ]
    rule = ('generated: a sandbox with $HOME/cylc-run/<id> (ids foo, foo/run1, a/b/run2, foo/bar; HOME name with a glob character), '
            'three other "disks" holding cylc-run/<id>/<dir> targets, canary files outside; each standard symlink dir (log, log/job, share, '
            'share/cycle, work, the run dir itself) is independently a symlink to a target that exists / is missing / is a file / has the '
            'wrong name / is reached via an alias link, a real dir, or absent; random content (files, dirs, hidden names, names with glob '
            'characters) in the run dir and in the targets, with non-standard symlinks (absolute or relative text) pointing outside, into '
            'targets, to nothing, and at most one pointing back into the run dir (link cycles); sibling runs, runN, _cylc-install, stray '
            'files next to the run dir and next to the targets. --rm: none (wholesale) or 1-3 items of 1-2 colon-separated parts: 39 glob '
            'shapes (*, **, **/x, share/**, x[1], ...), lexical paths of the tree (also through links) with a component globbed, "..", '
            'absolute and "." variants, rewrites normpath undoes, surrounding white space. distinct = distinct (tree, id, rm); '
            'non-trivial = a run dir exists; class = mode (wholesale/targeted/refused) + features: std = standard symlink dirs present, '
            'target = something deleted inside a symlink target, tidy = housekeeping deleted something, link-skipped = a raw match lies '
            'behind a non-standard symlink, nomatch, multi = several patterns, err:<exception>')
    workers = 16

    # ------------------------------------------------------------------
    def setup(self):
        base = '/dev/shm' if os.path.isdir('/dev/shm') and os.access('/dev/shm', os.W_OK) else '/tmp'
        self.base = os.path.realpath(tempfile.mkdtemp(prefix='verif-C38-', dir=base))
        import atexit
        atexit.register(shutil.rmtree, self.base, True)
        import logging
        from cylc.flow import LOG
        LOG.setLevel(logging.CRITICAL + 10)
        from cylc.flow import clean as clean_mod
        from cylc.flow.pathutil import parse_rm_dirs
        from cylc.flow.workflow_files import WorkflowFiles
        self.clean_mod, self.parse_rm_dirs, self.WF = clean_mod, parse_rm_dirs, WorkflowFiles
        # warm-up in the parent (lazy imports, asyncio) so that forked workers do not each pay for it
        self.impl({'tree': [['h', 'd'], ['h/cylc-run', 'd'], ['h/cylc-run/w', 'd'], ['h/cylc-run/w/f', 'f']],
                   'home': 'h', 'id': 'w', 'rm': ['f']})

    # ------------------------------------------------------------------
    def build(self, root, entries):
        for ent in entries:                      # sorted: parents first
            p = os.path.join(root, ent[0])
            if ent[1] == 'd':
                os.mkdir(p)
            elif ent[1] == 'f':
                open(p, 'w').close()
            else:
                tgt = os.path.join(root, ent[2]) if ent[2] else root
                if ent[3]:
                    tgt = os.path.relpath(tgt, os.path.dirname(p))
                os.symlink(tgt, p)

    def run_clean(self, root, home, id_, rm):
        """-> (order, spec, raw, calls, err) ; the tree under root is modified"""
        os.environ['HOME'] = os.path.join(root, home)
        run_dir = os.path.join(root, home, 'cylc-run', id_)
        order = None
        if rm:
            try:
                order = list(self.parse_rm_dirs(rm))
            except Exception:
                order = None
        spec = spec_parse(rm) if rm else None
        esc = pyglob.escape(run_dir)

        def rels(paths):
            out = []
            for s_ in paths:
                rel = os.path.relpath(s_, run_dir)
                out.append('' if rel == '.' else rel)
            return out
        # the harness' own glob of the pristine tree (what the judge takes as "what the pattern matches")
        raw = [[pat, rels(pyglob.glob(os.path.join(esc, pat), recursive=True))] for pat in (spec or [])]
        # what glob tells the implementation at the moment it asks (environment input of the model)
        calls = []
        bad_call = []
        orig = pyglob.iglob

        def recording_iglob(pathname, *a, **kw):
            res = list(orig(pathname, *a, **kw))
            pathname = os.fspath(pathname)
            plain = (not a and kw.get('recursive') and kw.get('root_dir') is None and kw.get('dir_fd') is None
                     and not kw.get('include_hidden'))
            for prefix in (esc + '/', run_dir + '/'):
                if plain and pathname.startswith(prefix):
                    calls.append([pathname[len(prefix):], rels(res)])
                    break
            else:
                bad_call.append(pathname)
            return iter(res)
        opts = SimpleNamespace(rm_dirs=rm, local_only=True, remote_only=False, no_scan=True,
                               remote_timeout='10', skip_interactive=True)
        err = None
        pyglob.iglob = recording_iglob
        try:
            asyncio.run(self.clean_mod.init_clean(id_, opts))
        except Exception as exc:
            err = type(exc).__name__
        finally:
            pyglob.iglob = orig
        if bad_call:
            err = f'unexpected-glob-call({err})'
        return order, spec, raw, calls, err

    def impl(self, inp):
        # the sandbox VM is sometimes paused and the pause is charged to the running process: a timer
        # can expire spuriously, so a timed-out case is tried again (with more time) before it is reported
        for limit in (60, 240):
            res = self.impl_once(inp, limit)
            if res is not None:
                return res
        return {'order': None, 'spec': None, 'raw': [], 'calls': [], 'space': '',
                'obs': {'deleted': [], 'created': [], 'err': 'HarnessTimeout'}}

    def impl_once(self, inp, limit):
        case_dir = tempfile.mkdtemp(prefix='c', dir=self.base)
        root = os.path.join(case_dir, 'sb')
        os.mkdir(root)
        import signal

        def on_alarm(*_a):
            raise CaseTimeout()
        old = signal.signal(signal.SIGALRM, on_alarm)
        signal.alarm(limit)
        try:
            self.build(root, inp['tree'])
            before = snapshot(root)
            order, spec, raw, calls, err = self.run_clean(root, inp['home'], inp['id'], inp['rm'])
            after = snapshot(root)
        except CaseTimeout:
            return None
        finally:
            signal.alarm(0)
            signal.signal(signal.SIGALRM, old)
            shutil.rmtree(case_dir, ignore_errors=True)
        deleted = sorted(p for p in before if p not in after)
        created = sorted(p for p in after if before.get(p) != after[p])
        space = ''.join(sorted({c for it in (inp['rm'] or []) for c in it if c.isspace()}))
        return {'order': order, 'spec': spec, 'raw': raw, 'calls': calls, 'space': space,
                'obs': {'deleted': deleted, 'created': created, 'err': err}}

    def impl_batch(self, inputs):
        # the Prop object holds modules (not picklable): fork workers that reach it as a global
        if len(inputs) < 32:
            return [self.impl(i) for i in inputs]
        import multiprocessing as mp
        ctx = mp.get_context('fork')
        with ctx.Pool(self.workers) as pool:
            return pool.map(_worker, inputs, chunksize=max(1, min(64, len(inputs) // (self.workers * 8))))

    def driver_input(self, inp, raw):
        d = {k: inp[k] for k in ('tree', 'home', 'id', 'rm')}
        d.update(order=raw['order'], spec=raw['spec'], raw=raw['raw'], calls=raw['calls'], space=raw['space'])
        return d

    def driver_obs(self, inp, raw):
        return raw['obs']

    def replay_input(self, inp, driver_inp):
        return driver_inp

    # ------------------------------------------------------------------
    def translate(self):
        dirs = sorted(self.WF.SYMLINK_DIRS, reverse=True)
        from pathlib import Path
        porder = [str(p) for p in sorted((Path(d) for d in self.WF.SYMLINK_DIRS), reverse=True)]

        def comps(s):
            return '[' + ', '.join(json.dumps(c) for c in s.split('/') if c not in ('', '.')) + ']'
        for d in dirs:
            if d != posixpath.normpath(d) and d != '':
                raise ValueError(f'SYMLINK_DIRS entry {d!r} is not a normalised relative path')
        # probe: does _clean_using_glob survive a match that disappears with an earlier match?
        d = tempfile.mkdtemp(prefix='probe', dir=self.base)
        try:
            from pathlib import Path as P_
            rd = P_(d, 'cylc-run', 'foo')
            (rd / 'a' / 'x' / 'b' / 'x').mkdir(parents=True)
            (P_(d) / 'sym' / 'cylc-run' / 'foo' / 'log').mkdir(parents=True)
            (rd / 'log').symlink_to(P_(d) / 'sym' / 'cylc-run' / 'foo' / 'log')
            try:
                self.clean_mod._clean_using_glob(rd, '**/x', ['log'])
                skips = True
            except FileNotFoundError:
                skips = False
            if (rd / 'a' / 'x').exists():
                raise ValueError('probe of _clean_using_glob: the outer match was not removed')
        finally:
            shutil.rmtree(d, ignore_errors=True)
        body = [
            '/- GENERATED by harness/props/c38.py translate() from the live source',
            '   (WorkflowFiles.SYMLINK_DIRS / RUN_N / Install.DIRNAME in cylc/flow/workflow_files.py; a probe of',
            '   cylc.flow.clean._clean_using_glob on a real temporary tree). Do not edit. -/',
            'namespace CylcModel.Generated.CleanCfg',
            '/-- `sorted(WorkflowFiles.SYMLINK_DIRS, reverse=True)` (component lists; `[]` = the run dir) -/',
            'def symlinkDirs : List (List String) := [' + ', '.join(comps(x) for x in dirs) + ']',
            '/-- the same set as `sorted((Path(d) for d in SYMLINK_DIRS), reverse=True)` -/',
            'def symlinkDirsPathOrder : List (List String) := [' + ', '.join(comps(x) for x in porder) + ']',
            '/-- `WorkflowFiles.RUN_N` -/',
            f'def runN : String := {json.dumps(self.WF.RUN_N)}',
            '/-- `WorkflowFiles.Install.DIRNAME` -/',
            f'def installDirname : String := {json.dumps(self.WF.Install.DIRNAME)}',
            '/-- probed: `_clean_using_glob` skips a match that has already disappeared with an earlier match',
            '(`**/x` on `a/x/b/x` with a standard symlink dir present) instead of raising FileNotFoundError -/',
            f'def skipsMissing : Bool := {"true" if skips else "false"}',
            'end CylcModel.Generated.CleanCfg',
            '',
        ]
        return {'CleanCfg.lean': '\n'.join(body)}

    # ------------------------------------------------------------------
    def mk(self, t, home, idc, rm):
        return {'tree': t.entries(), 'home': home, 'id': '/'.join(idc), 'rm': rm}

    def corpus(self):
        out = []

        def base(idc=('foo',), stdlog=True):
            t = Tree()
            rd = 'h/cylc-run/' + '/'.join(idc)
            t.put(rd + '/flow.cylc', ('f',))
            t.put('out/c1', ('f',))
            t.put('out/d/c2', ('f',))
            if stdlog:
                tg = 's1/cylc-run/' + '/'.join(idc) + '/log'
                t.put(tg + '/f', ('f',))
                t.put(rd + '/log', ('l', tg, False))
            return t, rd
        # the recorded finding: nested matches with a standard symlink dir present
        t, rd = base()
        t.put(rd + '/a/x/b/x/f', ('f',))
        t.put(rd + '/z/x/f', ('f',))
        out.append(self.mk(t, 'h', ['foo'], ['**/x']))
        # the same without symlink dirs (pruned, fine)
        t, rd = base(stdlog=False)
        t.put(rd + '/a/x/b/x/f', ('f',))
        t.put(rd + '/z/x/f', ('f',))
        out.append(self.mk(t, 'h', ['foo'], ['**/x']))
        # tests/unit/test_clean.py FILETREE_3 '**/s*': match inside a std symlink dir below a matched dir
        t, rd = base(stdlog=False)
        t.put('s1/cylc-run/foo/share/cycle/sokath.txt', ('f',))
        t.put(rd + '/share/cycle', ('l', 's1/cylc-run/foo/share/cycle', False))
        t.put(rd + '/zz/s1', ('f',))
        out.append(self.mk(t, 'h', ['foo'], ['**/s*']))
        # non-standard links: out, in, broken; literal path through a link
        t, rd = base(('foo', 'run1'))
        t.put(rd + '/lout', ('l', 'out/d', True))
        t.put(rd + '/keep/k', ('f',))
        t.put(rd + '/lin', ('l', rd + '/keep', False))
        t.put(rd + '/lbroken', ('l', 'out/none', True))
        t.put('h/cylc-run/foo/runN', ('l', 'h/cylc-run/foo/run1', True))
        t.put('h/cylc-run/foo/_cylc-install/source', ('l', 'out/d', False))
        for rm in (['lout/*'], ['lout/c2'], ['lin/k'], ['**'], ['*'], ['l*'], ['lout/'], None, ['**/c2:**/k'], ['lbroken', 'lin/']):
            out.append(self.mk(t, 'h', ['foo', 'run1'], rm))
        # refused patterns
        for rm in (['..'], ['../run2'], ['a/../..'], ['/abs-verif-none'], ['.'], ['a:../b'], [' : '], [':']):
            out.append(self.mk(t, 'h', ['foo', 'run1'], rm))
        # run dir itself a standard symlink dir
        t = Tree()
        t.put('s2/cylc-run/foo/run1/log/f', ('f',))
        t.put('s2/cylc-run/foo/run1/share/g', ('f',))
        t.put('h/cylc-run/foo/run1', ('l', 's2/cylc-run/foo/run1', False))
        t.put('h/cylc-run/foo/runN', ('l', 'h/cylc-run/foo/run1', True))
        t.put('out/c1', ('f',))
        for rm in (None, ['**'], ['log'], ['*/f'], ['share/']):
            out.append(self.mk(t, 'h', ['foo', 'run1'], rm))
        # invalid standard symlink dir (wrong target)
        t, rd = base(stdlog=False)
        t.put(rd + '/work', ('l', 'out/d', False))
        out.append(self.mk(t, 'h', ['foo'], None))
        out.append(self.mk(t, 'h', ['foo'], ['work']))
        # nothing to clean
        t = Tree()
        t.put('h/cylc-run/other/f', ('f',))
        out.append(self.mk(t, 'h', ['foo'], None))
        out.append(self.mk(t, 'h', ['foo'], ['..']))
        return out

    # ------------------------------------------------------------------
    def rand_case(self, rng):
        idc = rng.choice([['foo'], ['foo', 'run1'], ['foo', 'run1'], ['a', 'b', 'run2'], ['foo', 'bar']])
        home = rng.choice(['h', 'h', 'ho[m]e'])
        ids = '/'.join(idc)
        rd = f'{home}/cylc-run/{ids}'
        t = Tree()
        # canaries outside
        t.put('out/c1', ('f',))
        t.put('out/d/c2', ('f',))
        t.put('out/d/sub/c3', ('f',))
        roots = ['s1', 's2']
        # the run dir
        r = rng.random()
        if r < 0.12:
            tg = f's0/cylc-run/{ids}'          # a disk of its own (no loops with the other symlink dirs)
            q = rng.random()
            if q < 0.8:
                t.put(tg + '/.keep', ('d',))
            t.put(rd, ('l', tg if q < 0.93 else 'out/d', rng.random() < 0.3))
        elif r < 0.15:
            t.put(f'{home}/cylc-run/zzz/f', ('f',))       # no run dir at all
        else:
            t.put(rd + '/flow.cylc', ('f',))
        # standard symlink dirs
        for d in (['log'], ['share'], ['work'], ['log', 'job'], ['share', 'cycle']):
            ds = '/'.join(d)
            q = rng.random()
            if q < 0.33:
                root = rng.choice(roots)
                if len(d) == 2:
                    # never onto the disk of the parent symlink dir: the link would be its own target
                    # (Path.resolve() raises RuntimeError on such loops; not modelled)
                    pk = t.kind(t.lres(rd + '/' + d[0]) or '?')
                    if pk and pk[0] == 'l' and pk[1].startswith(root + '/'):
                        root = 's1' if root == 's2' else 's2'
                tg = f'{root}/cylc-run/{ids}/{ds}'
                v = rng.random()
                if v < 0.88:
                    t.put(tg + '/' + rng.choice(NAMES), ('f',))
                    self.populate(t, tg, rng, 2, rd, ids)
                elif v < 0.93:
                    pass                                  # broken
                elif v < 0.95:
                    t.put(tg, ('f',))                     # not a directory
                elif v < 0.975:
                    tg = rng.choice(['out/d', f'{root}/cylc-run/other/{ds}', f'{root}/cylc-run/{ids}/x'])
                else:
                    t.put(f'{root}/cylc-run/{ids}/al', ('l', tg, False))     # via an alias link
                    t.put(tg + '/q', ('f',))
                    tg = f'{root}/cylc-run/{ids}/al'
                t.put(rd + '/' + ds, ('l', tg, rng.random() < 0.3))
            elif q < 0.6:
                t.put(rd + '/' + ds + '/' + rng.choice(NAMES), rng.choice([('f',), ('d',)]))
        self.populate(t, rd, rng, 3, rd, ids)
        # neighbours of the symlink targets (keep parents non-empty / other workflows on the same disk)
        for root in roots:
            if rng.random() < 0.3:
                t.put(f'{root}/cylc-run/{ids}/stray', ('f',))
            if rng.random() < 0.3:
                t.put(f'{root}/cylc-run/otherwf/x', ('f',))
        # neighbours of the run dir
        parent = posixpath.dirname(rd)
        if len(idc) > 1:
            q = rng.random()
            if q < 0.6:
                t.put(parent + '/runN', ('l', rd, True))
            elif q < 0.7:
                t.put(parent + '/runN', ('l', parent + '/run9', True))
            elif q < 0.78:
                t.put(parent + '/runN', ('l', rd, False))
            if rng.random() < 0.6:
                t.put(parent + '/_cylc-install/source', ('l', 'out/d', False))
            elif rng.random() < 0.1:
                t.put(parent + '/_cylc-install', ('l', 'out/d', False))
            if rng.random() < 0.4:
                t.put(parent + '/run9/f', ('f',))
            if rng.random() < 0.15:
                t.put(parent + '/stray', ('f',))
        else:
            if rng.random() < 0.08:
                t.put(parent + '/_cylc-install/source', ('l', 'out/d', False))
            if rng.random() < 0.08:
                t.put(parent + '/runN', ('l', rd, True))
        if rng.random() < 0.6:
            t.put(f'{home}/cylc-run/other/f', ('f',))
        npaths = t.count_paths(rd, 250)
        if npaths > 250:
            # link cycles would make a recursive glob explode: cut every non-standard link to a directory
            stdp = {t.lres(rd + '/' + '/'.join(d)) for d in STD}
            for q, k in list(t.e.items()):
                if not q.startswith('//') and k[0] == 'l' and q not in stdp:
                    t.e[q] = ('l', 'out/none', k[2])
        rm = self.rand_rm(t, rd, rng)
        if rm and 40 < npaths <= 250:
            # a link cycle is present: a pattern with two `**` would make glob (and the quadratic filtering
            # loop of glob_in_run_dir) crawl over ~(paths)^2 matches
            rm = [':'.join(pt if pt.count('**') < 2 else '**/x' for pt in it.split(':')) for it in rm]
        return self.mk(t, home, idc, rm)

    def populate(self, t, lexdir, rng, depth, rd, ids):
        for _ in range(rng.choice([0, 1, 2, 2, 3, 4])):
            nm = rng.choice(NAMES)
            p = lexdir + '/' + nm
            q = rng.random()
            if q < 0.38:
                t.put(p, ('f',))
            elif q < 0.76 or nm in ('log', 'share', 'work', 'cycle', 'job'):
                # (names of standard symlink dirs are never made links here: those are set up by rand_case)
                if t.put(p, ('d',)) and depth > 0:
                    self.populate(t, p, rng, depth - 1, rd, ids)
            else:
                # at most ONE link per tree may point back into the run dir / to an ancestor: a recursive
                # glob follows links, and two such links make it explore 2^40 paths before ELOOP stops it
                outward = ['out/d', 'out/d', 'out/c1', 'out/none', 'out', f's1/cylc-run/{ids}', f's1/cylc-run/{ids}/share',
                           f's2/cylc-run/{ids}/log', f's2/cylc-run/{ids}/work/a']
                inward = [rd, rd + '/a', rd + '/x', rd + '/share', rd + '/log', posixpath.dirname(rd), lexdir, p, '']
                tg = rng.choice(inward + outward + outward)
                q = t.lres(p)
                loops = (tg == '' or tg.startswith(rd) or tg == posixpath.dirname(rd)
                         or (q is not None and (q + '/').startswith(tg + '/')))
                if loops:
                    if t.e.get('//inward') or q is None or q in t.e:
                        tg = rng.choice(['out/d', 'out/c1', 'out/none', 'out'])
                    else:
                        t.e['//inward'] = q
                t.put(p, ('l', tg, rng.random() < 0.4))

    def rand_path(self, t, rd, rng):
        """a random lexical path below the run dir (walks through links too)"""
        comps = []
        cur = rd
        for _ in range(rng.choice([1, 1, 2, 2, 3, 4])):
            phys = t.resolve(cur)
            if phys is None or t.kind(phys) != ('d',):
                break
            kids = [p[len(phys) + 1:] for p in t.e if p.startswith(phys + '/') and '/' not in p[len(phys) + 1:]]
            if not kids:
                break
            c = rng.choice(sorted(kids))
            comps.append(c)
            cur = cur + '/' + c
        return '/'.join(comps) or rng.choice(NAMES)

    def link_part(self, t, rd, rng):
        """a pattern that goes through (or names) a non-standard symlink of the run dir, if there is one"""
        phys = t.resolve(rd)
        if phys is None:
            return None
        stdp = {t.lres(rd + '/' + '/'.join(d)) for d in STD}
        links = [q for q, k in t.e.items() if not q.startswith('//') and k[0] == 'l' and q not in stdp
                 and q.startswith(phys + '/')]
        if not links:
            return None
        rel = rng.choice(sorted(links))[len(phys) + 1:]
        return rel + rng.choice(['/*', '/**', '', '/', '/c2', '/*/*', '/sub/c3', '/x', '/.*'])

    def rand_part(self, t, rd, rng):
        q = rng.random()
        if q < 0.12:
            p = self.link_part(t, rd, rng) or rng.choice(GLOBS)
        elif q < 0.4:
            p = rng.choice(GLOBS)
        elif q < 0.75:
            p = self.rand_path(t, rd, rng)
            if rng.random() < 0.25:                      # turn one component into a glob
                cs = p.split('/')
                i = rng.randrange(len(cs))
                cs[i] = rng.choice(['*', '**', cs[i][:1] + '*', '?' * len(cs[i]), '[' + cs[i][:1] + ']' + cs[i][1:]])
                p = '/'.join(cs)
        elif q < 0.8:
            p = rng.choice(['..', '../run9', '../x', 'a/../..', 'a/../../b', '../../other', './..', 'a/..', '.', './',
                            '/abs-verif-none', '/abs-verif-none/x', '//x', '*/..', '**/..', '*/../..', 'log/../../run9'])
        else:
            p = rng.choice(NAMES) + '/' + rng.choice(GLOBS)
        # harmless rewrites that normpath undoes
        q = rng.random()
        if q < 0.08:
            p = './' + p
        elif q < 0.14:
            p = p.replace('/', '//', 1)
        elif q < 0.2:
            p = 'q/../' + p
        elif q < 0.26:
            p = p + '/'
        elif q < 0.3:
            p = p + '/.'
        if rng.random() < 0.12:
            p = rng.choice([' ', '\t', ' \n']) + p + rng.choice([' ', '', '　'])
        return p

    def rand_rm(self, t, rd, rng):
        if rng.random() < 0.18:
            return None
        items = []
        for _ in range(rng.choice([1, 1, 1, 2, 2, 3])):
            parts = [self.rand_part(t, rd, rng) for _ in range(rng.choice([1, 1, 1, 2]))]
            if rng.random() < 0.05:
                parts.append(rng.choice(['', ' ']))
            items.append(':'.join(parts))
        if rng.random() < 0.01:
            items = rng.choice([[], [''], [' : ']])
        return items

    def gen(self, tier, rng):
        n = {'quick': 3000, 'thorough': 80000, 'search': 30000}[tier]
        for _ in range(n):
            yield self.rand_case(rng)

    # ------------------------------------------------------------------
    def classify(self, inp, obs):
        t = tree_of(inp)
        rd = f"{inp['home']}/cylc-run/{inp['id']}"
        err = obs.get('err')
        rm = inp['rm']
        if err in ('InputError', 'WorkflowFilesError'):
            return 'refused:' + err
        mode = 'wholesale' if not rm else 'targeted'
        if not obs['deleted'] and not err:
            if t.lres(rd) is None or t.kind(t.lres(rd)) is None:
                return None
            if mode == 'wholesale':
                return 'wholesale:nothing'
        feats = []
        std = [d for d in STD if (t.kind(t.lres(rd + '/' + '/'.join(d)) or '?') or ('?',))[0] == 'l']
        if std:
            feats.append('std')
        run_in = [rd + '/']
        r = t.resolve(rd)
        if r:
            run_in.append(r + '/')
        targets = []
        for d in std:
            r = t.resolve(rd + '/' + '/'.join(d))
            if r:
                targets.append(r + '/')
        dl = obs['deleted']

        def under(p, roots):
            return any((p + '/').startswith(i) for i in roots)
        if any(under(p, targets) and not under(p, run_in[:1]) for p in dl):
            feats.append('target')
        if any(not under(p, run_in + targets) for p in dl):
            feats.append('tidy')
        if mode == 'targeted':
            raws = [m for pat, ms in inp.get('raw', []) for m in ms]
            skipped = False
            for rel in raws:
                cs = [c for c in rel.split('/') if c]
                for k in range(len(cs)):
                    a = rd + ('/' + '/'.join(cs[:k]) if k else '')
                    q = t.lres(a)
                    if q is not None and (t.kind(q) or ('?',))[0] == 'l' and cs[:k] not in std:
                        skipped = True
            if skipped:
                feats.append('link-skipped')
            if not raws:
                feats.append('nomatch')
            if len(inp.get('spec') or []) > 1:
                feats.append('multi')
        if err:
            feats.append('err:' + err)
        return mode + ':' + ('+'.join(feats) or 'plain')

    def neighbours(self, inp, rng):
        out = []
        base = {k: inp[k] for k in ('tree', 'home', 'id')}
        for g in GLOBS + ['..', '../run9', '../../other', 'a/../..']:
            out.append(dict(base, rm=[g]))
        out.append(dict(base, rm=None))
        for it in (inp.get('rm') or []):
            for part in it.split(':'):
                out.append(dict(base, rm=[part]))
        return out


PROP = C38()
