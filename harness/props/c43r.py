"""C43R  Stop point, stop task and stop modes on runs with `cylc reload` (sub-check of C43 on the Sched3Reload model)."""
from __future__ import annotations

import sys
from pathlib import Path

sys.path.insert(0, str(Path(__file__).resolve().parents[1] / 'sched'))
sys.path.insert(0, str(Path(__file__).resolve().parent))
import gen as sgen  # noqa: E402
import c27  # noqa: E402


class C43R(c27.C27):
    id = 'C43R'
    report_id = 'C43'
    drv = 'C43R'
    props_modules = ['CylcModel.Props.C43R']
    theorems = [
        'CylcModel.C43R.reload_keeps_stop_point',
        'CylcModel.C43R.reload_keeps_stop_task',
        'CylcModel.C43R.main_loop_keeps_stop_point',
        'CylcModel.C43R.stop_command_sets_stop_point',
        'CylcModel.C43R.stop_state_coherent_run',
        'CylcModel.C43R.reload_keeps_stop_point_run',
    ]
    statement_note = (
        'partial: proofs over the Sched3Reload model for all graphs, flags and states. PROVED: `cylc reload` (accepted '
        'definition that keeps the final point and the flow.cylc stop point, or rejected definition) leaves the pool\'s '
        'stop point unchanged in EVERY state whose stop-point state is coherent (StopOK: the pool\'s stop point is what '
        'the configuration yields from the --stopcp option / flow.cylc / final point; without an option the DB holds '
        'no stop point) and keeps it coherent (reload_keeps_stop_point); it leaves the stop task and its finished flag '
        'unchanged in every state (reload_keeps_stop_task); a whole main-loop iteration, with or without a queued reload, '
        'does not move the stop point (main_loop_keeps_stop_point); `cylc stop <point>` puts that point in force '
        '(stop_command_sets_stop_point); StopOK holds in every state of every run (stop_state_coherent_run: generic '
        'pass over all primitives of the model incl. restart and reload, lifted over all op lists), hence in every '
        'state of every run a reload - direct or inside a main loop - keeps stop point and stop task '
        '(reload_keeps_stop_point_run). NOT PROVED on this model (decided by the judge on every real trace and tied by '
        'the correspondence; proved for the reload-free model under C43): no launch beyond the stop point, the '
        'shutdown clauses (S2-S6). The hypotheses of the theorems (well-formed start graph, stop-point commands within '
        'the final point, reloads keep final point and flow.cylc stop point) are checked by the driver on every case.')
    technique = ('the Sched3Reload model (scheduler core + holds / stop / pause / restart + `cylc reload`, a line-by-line port), '
                 'trace correspondence with the real Scheduler, the monitor judge of C43 on the observed traces with the '
                 'stop point in force tracked from the commands, an invariant over the stop-point state lifted over all '
                 'op lists')
    rule = ('as C27 (generated integer-cycling workflows with up to 6 definitions to reload, adaptive schedule), with a '
            'command mix centred on `cylc stop <point>`, `cylc stop <task>`, stop --now / clean stop + restart, pause / '
            'resume and reloads (p = 0.15-0.3 per step), where after any command a reload follows at once with p = 0.5 '
            '(same command batch: no main loop, hence no DB commit, in between; run directly or inside a main loop); '
            '7 hand-written histories (stop point / stop task then reload, paused or not, after a restart); non-trivial = '
            'distinct class (kind, ending, which of: stop point set, reload behind a stop point [paused], stop task, '
            'stop modes, restart, launches after the reload) per distinct case')
    kinds = ('cmdrl', 'cmdrla')
    n_quick = 40
    n_thorough = 480
    MIX = {'reload_cmds': ['stop_point', 'reload', 'stop_point', 'pause', 'resume', 'reload', 'stop_task', 'stop_clean',
                           'stop_now', 'reload', 'stop_point', 'hold', 'release', 'reload', 'stop_now_now', 'pause'],
           'p_reload_after_cmd': 0.5}

    def corpus(self):
        return c27.stop_reload_cases()

    def gen(self, tier, rng):
        n = self.n_quick if tier == 'quick' else self.n_thorough
        base = rng.randrange(1 << 30)
        for k in range(n):
            kind = self.kinds[k % len(self.kinds)]
            opts = dict(self.MIX, p_reload=[0.15, 0.22, 0.3][(k // 2) % 3])
            yield sgen.gen_case(base + k, kind, opts)

    def classify(self, inp, obs):
        if isinstance(obs, dict):
            return 'crash'
        ops = inp.get('ops') or []
        tags = [inp.get('kind', '?')]
        last = obs[-1]
        tags.append('stop' if last['stop'] else ('stalled' if last['stalled'] else 'cut'))
        seen = set()
        sp_set = False
        prev_cmd = None
        reloaded_behind = False
        for k, op in enumerate(ops):
            if k + 1 >= len(obs):
                break
            if op.get('op') == 'restart':
                seen.add('restart')
            if op.get('op') == 'cmd' and op.get('name') == 'stop':
                a = op.get('args') or {}
                if a.get('cycle_point') is not None:
                    seen.add('stop-point')
                    sp_set = True
                elif a.get('task'):
                    seen.add('stop-task')
                else:
                    seen.add('stop-mode')
            if op.get('op') == 'reload' and not op.get('skipped'):
                mode = 'L' if op.get('inloop') else 'D'
                if sp_set:
                    seen.add('reload-after-sp' + mode)
                if prev_cmd == 'stop-point':
                    seen.add('reload-behind-sp' + mode + ('-paused' if obs[k]['paused'] else ''))
                    reloaded_behind = True
                if obs[k].get('stop_task'):
                    seen.add('reload-with-stop-task')
            if reloaded_behind and obs[k + 1]['launch']:
                seen.add('launch-after')
            if op.get('op') == 'cmd':
                a = op.get('args') or {}
                prev_cmd = 'stop-point' if op.get('name') == 'stop' and a.get('cycle_point') is not None else 'cmd'
            elif op.get('op') != 'subres':
                prev_cmd = None
        tags.append(','.join(sorted(seen)) or 'plain')
        return '/'.join(tags)


PROP = C43R()
