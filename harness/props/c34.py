"""C34  Parameter expansion yields exactly the Cartesian product.

Real code: cylc.flow.param_expand.GraphExpander.expand / NameExpander.expand, and (for the clause
"dropping the offset node where no previous value exists") GraphParser.parse_graph with
`_proc_dep_pair` replaced by a recorder, so that the pairs derived from one parameterised line are
observed after the parser has removed the out-of-range nodes.

Cases are *structures* (parameters with typed values and parsed %-templates; a chain of `&`/`|`
expressions of nodes made of literal text and `<...>` groups; or a list of heading names) which
this module renders to the text the code parses (several spellings).
"""
from __future__ import annotations

import json
import random
import re

import core
from core import Prop

# ---------------------------------------------------------------------------
# structure -> text


def V(v):
    return {'i': v} if isinstance(v, int) else {'s': v}


def unV(j):
    return j['i'] if 'i' in j else j['s']


def lit(s):
    return {'lit': s}


def fld(p, c='s', plus=False, w=0):
    d = {'f': p, 'c': c}
    if c == 'd':
        d['plus'] = plus
        d['w'] = w
    return d


def tmpl_text(tmpl):
    out = ''
    for t in tmpl:
        if 'lit' in t:
            out += t['lit'].replace('%', '%%')
        elif t['c'] == 's':
            out += '%%(%s)s' % t['f']
        else:
            out += '%%(%s)%s%sd' % (t['f'], '+' if t.get('plus') else '', ('0%d' % t['w']) if t.get('w') else '')
    return out


def item_text(it, variant=0, spaces=False):
    p = it['p']
    if 'fixed' in it:
        return (p + ' = ' + it['fixed'] + ' ') if spaces else p + '=' + it['fixed']
    if 'off' in it:
        k = it['off']
        digits = str(abs(k))
        if variant % 3 == 1:
            digits = '0' + digits
        return p + ('-' if k < 0 else '+') + digits
    return (' ' + p + ' ') if spaces else p


def segs_text(segs, variant=0, spaces=False):
    out = ''
    for s in segs:
        if 'lit' in s:
            out += s['lit']
        else:
            out += '<' + ','.join(item_text(it, variant, spaces) for it in s['grp']) + '>'
    return out


def chain_text(chain, variant=0):
    return '=>'.join(''.join(t['op'] + segs_text(t['segs'], variant) for t in e) for e in chain)


def heading_text(names, variant=0):
    sp = variant % 4 == 2
    sep = (',', ', ', ' , ', ',')[variant % 4]
    return sep.join((' ' if variant % 4 == 3 else '') + segs_text(n, variant, sp) for n in names)


def cfg_of(params):
    return ({p['name']: [unV(v) for v in p['values']] for p in params},
            {p['name']: tmpl_text(p['tmpl']) for p in params if p['tmpl']})


# ---------------------------------------------------------------------------
# generators

def default_tmpl(name, values):
    """the rule of WorkflowConfig for parameters without a template"""
    if any(not isinstance(v, int) for v in values):
        return [lit('_'), fld(name)]
    if any(v < 0 for v in values):
        return [lit('_' + name), fld(name, 'd', True, max(len(str(v)) for v in values))]
    return [lit('_' + name), fld(name, 'd', False, len(str(max(values))))]


def P(name, values, tmpl=None):
    return {'name': name, 'values': [V(v) for v in values],
            'tmpl': tmpl if tmpl is not None else (default_tmpl(name, values) if values else [])}


def I(p, sel=None):
    if sel is None:
        return {'p': p, 'sel': 'plain'}
    if isinstance(sel, int):
        return {'p': p, 'off': sel}
    return {'p': p, 'fixed': sel}


def G(*items):
    return {'grp': list(items)}


def T(op, *segs):
    return {'op': op, 'segs': [lit(s) if isinstance(s, str) else s for s in segs]}


def graph_case(params, chain, variant=0):
    return {'kind': 'graph', 'params': params, 'chain': chain, 'variant': variant}


def heading_case(params, names, variant=0):
    return {'kind': 'heading', 'params': params,
            'names': [[lit(s) if isinstance(s, str) else s for s in n] for n in names], 'variant': variant}


CFGS = [
    [P('m', [0, 1, 2]), P('n', [1, 5, 10])],
    [P('m', ['cat', 'dog', 'fish'], [lit('_'), fld('m')]), P('n', [3])],
    [P('m', [-1, 0, 1]), P('n', ['a', 'b'])],
    [P('m', ['072', 'a', '5']), P('n', [0, 1], [lit('_n'), fld('n')])],
    [P('m', [1, 2, 3], [lit('_m'), fld('m', 'd', False, 7)]), P('n', ['x', 'y'], [fld('n')])],
    [P('m', [7, 8], [lit('_'), fld('m'), lit('_'), fld('n')]), P('n', [0, 1]), P('e', [])],
]

NAME_POOL = ['m', 'n', 'i', 'j', 'p1', 'run', 'x_y', 'k']
LIT_POOL = ['foo', 'bar', 'a', 'b', 'sim', 'x1', 'post_', 'A-b', 't+1', 'q@r', '_u', '9z']
SUFFIX_POOL = ['', '', '', ':fail', ':succeed?', '[-P1]', '[-P1]:fail', '?', ':x-y']


def raw_variants(v, rng):
    """spellings of a specific value that name the member v"""
    if isinstance(v, int):
        s = str(abs(v))
        sign = '-' if v < 0 else ''
        return rng.choice([sign + s, sign + s, sign + '0' + s, sign + '00' + s,
                           ('+' + s) if v >= 0 else sign + s,
                           sign + (s[0] + '_' + s[1:] if len(s) > 1 else s)])
    return v


def rand_values(rng):
    k = rng.random()
    if k < 0.40:
        lo = rng.choice([0, 0, 1, 1, 5, -2, 98, 20200101])
        n = rng.choice([1, 2, 2, 3, 3, 4])
        step = rng.choice([1, 1, 1, 2, 5])
        return [lo + i * step for i in range(n)]
    if k < 0.65:
        pool = rng.choice([['cat', 'dog', 'fish', 'ant'], ['a', 'b', 'c', 'd'], ['x-1', 'y+2', 'z_3', 'w'],
                           ['north', 'south'], ['t1', 't2', 't3']])
        n = rng.choice([1, 2, 3, 4])
        return rng.sample(pool, min(n, len(pool)))
    if k < 0.90:
        # strings that look like numbers, alone or mixed with words (coerce_parameter_list keeps them as str)
        pool = rng.choice([['072', 'a', '5'], ['1', '2', '3'], ['a', '1', 'b', '02'], ['01', 'x'], ['5', '05', 'q'],
                           ['084_132', 'z'], ['0', '1']])
        n = rng.choice([2, 3, 4])
        return rng.sample(pool, min(n, len(pool)))
    if k < 0.92:
        return []
    while True:
        vals = sorted({rng.randint(-40000, 40000) for _ in range(rng.choice([1, 2]))})
        if not any('3276' in str(v) for v in vals):      # in-band removal sentinel: not modelled
            return vals


def rand_tmpl(name, values, rng, others):
    if not values:
        return []
    ints = all(isinstance(v, int) for v in values)
    k = rng.random()
    if k < 0.35:
        return default_tmpl(name, values)
    if k < 0.55:
        return [lit(rng.choice(['_', '_' + name, '-', '_%', ''])), fld(name)]
    if k < 0.80 and ints:
        return [lit(rng.choice(['_' + name, '_', ''])), fld(name, 'd', rng.random() < 0.3, rng.choice([0, 0, 1, 2, 3, 5, 6, 7, 8]))]
    if k < 0.84 and others:
        return [lit('_'), fld(name), lit('_'), fld(rng.choice(others))]
    if k < 0.86:
        return [lit('_'), fld(name, 'd', False, 2)]          # %d of strings -> TypeError
    return [lit('_'), fld(name), lit(rng.choice(['x', '_', '-']))]


def rand_params(rng):
    names = rng.sample(NAME_POOL, rng.choice([1, 2, 2, 3]))
    out = []
    for nm in names:
        vals = rand_values(rng)
        out.append(P(nm, vals, rand_tmpl(nm, vals, rng, [x for x in names if x != nm])))
    return out


def rand_item(params, rng, name=None, graph=True):
    names = [p['name'] for p in params]
    if name is None:
        name = rng.choice(names) if rng.random() < 0.99 else 'zz'
    pvals = next(([unV(v) for v in p['values']] for p in params if p['name'] == name), [])
    k = rng.random()
    if k < 0.55:
        return I(name)
    if k < 0.80:
        if pvals and rng.random() < 0.88:
            raw = raw_variants(rng.choice(pvals), rng)
        else:
            raw = rng.choice(['9', 'zz', '72', '1', '0', '-1', 'a', '05', '5'])
        return I(name, str(raw))
    if k < (1.0 if graph else 0.84):
        return I(name, rng.choice([-1, -1, -1, -2, 1, 1, -5, 2]))
    return I(name)


def rand_group(params, rng, graph=True, avoid=()):
    names = [p['name'] for p in params if p['name'] not in avoid] or [p['name'] for p in params]
    n = rng.choice([1, 1, 1, 2, 2, 3])
    chosen = rng.sample(names, min(n, len(names)))
    if rng.random() < 0.01:
        chosen.append('zz')
    return G(*[rand_item(params, rng, nm, graph) for nm in chosen])


def rand_node_segs(params, rng, graph=True, lits=LIT_POOL):
    shape = rng.random()
    segs = []
    if shape < 0.55:
        segs = [lit(rng.choice(lits)), rand_group(params, rng, graph)]
    elif shape < 0.65:
        segs = [rand_group(params, rng, graph)]
    elif shape < 0.78:
        g1 = rand_group(params, rng, graph)
        used = [it['p'] for it in g1['grp']]
        segs = [lit(rng.choice(lits)), g1, rand_group(params, rng, graph, avoid=used if rng.random() < 0.7 else ())]
    elif shape < 0.90:
        g1 = rand_group(params, rng, graph)
        used = [it['p'] for it in g1['grp']]
        segs = [lit(rng.choice(lits)), g1, lit(rng.choice(lits)),
                rand_group(params, rng, graph, avoid=used if rng.random() < 0.7 else ()), lit(rng.choice(lits))]
    else:
        segs = [lit(rng.choice(lits))]
    if graph and 'grp' in segs[0]:
        # a graph node must start with a word character (REC_NODES): only start with a group whose
        # first template starts with literal text that does
        tm = next((p['tmpl'] for p in params if p['name'] == segs[0]['grp'][0]['p']), [])
        if not (tm and 'lit' in tm[0] and re.match(r'\w', tm[0]['lit'])):
            segs = [lit(rng.choice(lits))] + segs
    return segs


def rand_graph(rng):
    params = rand_params(rng)
    chain = []
    for _ in range(rng.choice([1, 2, 2, 2, 3])):
        e = []
        for j in range(rng.choice([1, 1, 1, 2, 2, 3])):
            segs = rand_node_segs(params, rng, True)
            suf = rng.choice(SUFFIX_POOL)
            if suf:
                segs = segs + [lit(suf)]
            e.append({'op': '' if j == 0 else rng.choice('&|'), 'segs': segs})
        chain.append(e)
    return graph_case(params, chain, rng.randint(0, 11))


def rand_heading(rng, percent_ok):
    params = rand_params(rng)
    lits = LIT_POOL + (['p%q', 'c%', 'r%d', 'v%%w'] if percent_ok else [])
    names = []
    for _ in range(rng.choice([1, 1, 2, 3])):
        if rng.random() < 0.15:
            names.append([lit(rng.choice(lits))])
            continue
        segs = rand_node_segs(params, rng, False, lits)
        if rng.random() < 0.15:
            segs = segs + [lit(rng.choice(['x', '_tail', '-9']))]
        names.append(segs)
    return {'kind': 'heading', 'params': params, 'names': names, 'variant': rng.randint(0, 11)}


def box_cases():
    """systematic small box: every selection kind x node shape x chain shape over fixed parameter sets"""
    out = []
    for ci, cfg in enumerate(CFGS):
        mv = [unV(v) for v in cfg[0]['values']]
        nv = [unV(v) for v in cfg[1]['values']]
        m_items = [I('m'), I('m', str(mv[0])), I('m', str(mv[-1])), I('m', 'nope'), I('m', -1), I('m', 1), I('m', -2)]
        if isinstance(mv[0], int):
            m_items.append(I('m', '0' + str(abs(mv[1]))))
        n_items = [I('n'), I('n', str(nv[-1])), I('n', -1)]
        nodes = [T('', 'foo', G(it)) for it in m_items]
        nodes += [T('', 'bar', G(a, b)) for a in m_items[:6] for b in n_items]
        nodes += [T('', 'baz', G(m_items[4]), 'q', G(n_items[0])), T('', G(I('m', -1))), T('', 'u', G(I('e'))),
                  T('', 'lone')]
        v = 0
        for a in nodes:
            v += 1
            out.append(graph_case(cfg, [[a]], v))
            out.append(graph_case(cfg, [[a], [T('', 'tail', G(I('m')))]], v))
            out.append(graph_case(cfg, [[T('', 'head')], [a], [T('', 'tail', G(I('m')))]], v))
        for a in nodes[:9]:
            for b in nodes[:9]:
                v += 1
                out.append(graph_case(cfg, [[a, dict(b, op='&')], [T('', 'x', G(I('m')))]], v))
                out.append(graph_case(cfg, [[T('', 'w'), dict(a, op='|'), dict(b, op='&')], [T('', 'x', G(I('m')))]], v))
        for a in nodes:
            v += 1
            out.append(heading_case(cfg, [a['segs']], v))
            out.append(heading_case(cfg, [a['segs'], ['plain'], a['segs'] + [lit('_t')]], v))
        for a in m_items:
            for b in m_items[:4] + n_items:
                v += 1
                out.append(heading_case(cfg, [['h', G(a), 'k', G(b)]], v))
    return out


RT = {}


class C34(Prop):
    id = 'C34'
    props_modules = ['CylcModel.Props.C34']
    theorems = [
        'CylcModel.C34.expand_is_product',
        'CylcModel.C34.expand_mem_iff',
        'CylcModel.C34.expand_count',
        'CylcModel.C34.expand_distinct',
        'CylcModel.C34.pairs_is_product',
        'CylcModel.C34.offset_selects_neighbour',
        'CylcModel.C34.offset_prev',
        'CylcModel.C34.offset_duplicates_counterexample',
        'CylcModel.C34.fixed_subst_eq_checked',
        'CylcModel.C34.select_member_spec',
        'CylcModel.C34.check_iff_valid',
        'CylcModel.C34.fixed_old_partial',
        'CylcModel.C34.fixed_old_counterexample',
        'CylcModel.C34.heading_is_product_partial',
        'CylcModel.C34.heading_repeated_counterexample',
        'CylcModel.C34.drop_all_spec',
        'CylcModel.C34.drop_once_partial',
        'CylcModel.C34.drop_once_counterexample',
        'CylcModel.C34.sentinel_has_needle',
        'CylcModel.C34.sentinel_format_partial',
        'CylcModel.C34.sentinel_wide_counterexample',
    ]
    statement_note = (
        'partial. Proved for all parameter sets, templates and lines (no size bound), at template level: '
        'GraphExpander.expand = one instance per combination of positions in the value lists of the parameters used '
        '(expand_is_product, as an equation between the code-shaped loop nest with list.index and the product; membership, '
        'count and distinctness corollaries; same for the pairs parse_graph derives: pairs_is_product); p+-k denotes the '
        'member k positions away or the removal sentinel (offset_selects_neighbour, offset_prev) - needs duplicate-free value '
        'lists (counterexample proved); p=v selects a member named by v for the repaired code (select_member_spec) and for '
        'the current code only when the list holds integers or v is not a number (fixed_old_partial; counterexample m = 072, a '
        'proved: known finding); NameExpander.expand = product over the plain parameters with the specific ones held, for names '
        'in which no parameter occurs twice (heading_is_product_partial; counterexample proved: known finding); dropping of '
        'out-of-range nodes keeps exactly the other nodes for the repaired parser (drop_all_spec) and for the current one unless '
        'the first two nodes are both out of range (drop_once_partial; counterexample: known finding); the sentinel is written '
        'recognisably by %s and %d up to width 6 (sentinel_format_partial, sentinel_has_needle; width 8 counterexample: known '
        'finding). Not proved (correspondence only): that the regexes find the groups / nodes the structure says, and the end-to-end '
        'statement that a rendered out-of-range node is the only text matching the out-of-range regex')
    technique = 'equational refinement of the loop nest to a product over positions (induction) + correspondence'
    trusted = [
        'the regexes that find <...> groups, items, heading names and out-of-range nodes in the text '
        '(REC_P_GROUP, REC_P_OFFS, REC_P_ALL, REC_NAMES, REC_NODE_OUT_OF_RANGE) are not modelled: the model works on the '
        'parsed structure, the harness renders it to text in several spellings (K-C only)',
        'Python int() and %-formatting (%s, %d with + / 0 / width) re-implemented as pyInt? / fmtVal (ASCII only)',
    ]
    unmodelled = [
        'the same parameter twice inside one <...> group; duplicate members in a value list (offset_duplicates_counterexample); '
        'templates with other conversions than %s / %[+][0W]d; non-ASCII digits; parentheses in graph expressions; graph nodes '
        'that do not start with a word character; NameExpander.expand_parent_params',
        'the removal sentinel is in-band: parameter values, templates or literals that put the text -3276 into a node name '
        '(e.g. template -%(j)s with the value 32769) make the parser drop that node; never generated',
        'what parse_graph does with the rest of a chain after an expression has been emptied (it is cut there, as its unit tests '
        'pin; the docstring of GraphExpander.expand says the rest stays): modelled as the code does it, the judge accepts both',
        "literal '%' in parameterised heading names while the finding heading-percent-literal is recorded",
    ]
    rule = ('systematic box (6 parameter sets x every selection kind x node shapes x chain shapes, graph lines and headings) '
            'plus seeded random structures: 1-3 parameters (int ranges incl. negative / 8-digit values, words, number-like '
            'strings, empty lists), default and custom templates (%s, %d, +, zero padding up to width 8, templates naming '
            'another parameter), chains of 1-3 expressions of 1-3 nodes joined by & |, nodes with 0-2 groups and '
            'qualifier/offset suffixes, specific values in several spellings (padded, signed, underscore) and non-members, '
            'offsets -5..+2; non-trivial = distinct (kind, outcome, features) class per distinct input')
    workers = 16

    # ------------------------------------------------------------------
    def setup(self):
        from cylc.flow.param_expand import GraphExpander, NameExpander
        from cylc.flow.graph_parser import GraphParser

        class Recorder(GraphParser):
            def _proc_dep_pair(self, pair, *args, **kwargs):
                self._c34_pairs.append(pair)

        RT['Rec'] = Recorder      # module level: the instance must stay picklable for the fork pool
        self.GE, self.NE, self.GP = GraphExpander, NameExpander, GraphParser
        self.known = {e.get('key') for e in core.known_findings('C34') if e.get('kind') == 'finding'}

    def pairs_of(self, cfg, text):
        gp = RT['Rec'](parameters=cfg)
        gp._c34_pairs = []
        gp.parse_graph(text)
        return sorted({(l, r) for l, r in gp._c34_pairs}, key=lambda p: (p[0] is not None, p[0] or '', p[1]))

    # ------------------------------------------------------------------
    def translate(self):
        if not hasattr(self, 'GE'):
            self.setup()
        GE, NE, GP = self.GE, self.NE, self.GP
        sentinel = GE._REMOVE
        if not isinstance(sentinel, int):
            raise ValueError('GraphExpander._REMOVE is not an int')
        s = str(sentinel)
        rec = GP.REC_NODE_OUT_OF_RANGE
        needle = None
        for k in range(1, len(s) + 1):
            if rec.sub('', 'x' + s[:k] + 'y') == '':
                needle = s[:k]
                break
        if needle is None:
            raise ValueError('REC_NODE_OUT_OF_RANGE does not remove a node carrying the sentinel')
        probe = ({'s': ['072', 'a']}, {'s': '_%(s)s'})
        try:
            sel_graph = GE(probe).expand('x<s=072>') == {'x_072'}
        except Exception:
            sel_graph = False
        try:
            sel_name = NE(probe).expand('x<s=072>') == [('x_072', {'s': '072'})]
        except Exception:
            sel_name = False
        try:
            pairs = self.pairs_of(({'m': [0, 1]}, {'m': '_m%(m)s'}), 'a<m-1>&b<m-1>=>c<m>')
            drop_all = not any(s in (l or '') + r for l, r in pairs)
        except Exception:
            drop_all = False

        def b(x):
            return 'true' if x else 'false'
        return {'ParamsTables.lean': f'''/-
GENERATED by harness/props/c34.py translate() from the live cylc-flow source -- do not edit.
Constants of cylc/flow/param_expand.py / graph_parser.py and behaviour probes (see c34.py).
-/
namespace CylcModel.Generated.Params

/-- `GraphExpander._REMOVE` -/
def removeSentinel : Int := {sentinel}

/-- the literal that `GraphParser.REC_NODE_OUT_OF_RANGE` requires inside a node (with at least one
character before and after it), found by running the real regex on the prefixes of `str(_REMOVE)` -/
def removeNeedle : String := {json.dumps(needle)}

/-- probe: `GraphExpander` substitutes the *member* of the value list selected by `<p=v>` -/
def selMemberGraph : Bool := {b(sel_graph)}

/-- probe: `NameExpander` substitutes the *member* of the value list selected by `<p=v>` -/
def selMemberName : Bool := {b(sel_name)}

/-- probe: `parse_graph` drops every out-of-range node of an expression (also two leading ones) -/
def dropAll : Bool := {b(drop_all)}

end CylcModel.Generated.Params
'''}

    # ------------------------------------------------------------------
    def corpus(self):
        c0, c1, c3 = CFGS[0], CFGS[1], CFGS[3]
        return [
            graph_case(c0, [[T('', 'foo', G(I('m', -1)))], [T('', 'bar', G(I('m')))]]),
            graph_case(c0, [[T('', 'sim', G(I('m', '0'), I('n')))], [T('', 'sim', G(I('m'), I('n')))]]),
            graph_case(c1, [[T('', 'baz'), T('&', 'foo', G(I('m', -1))), T('&', 'pub')], [T('', 'foo', G(I('m')))]]),
            graph_case(c1, [[T('', 'foo')], [T('', 'bar', G(I('m', -1)))], [T('', 'baz')]]),
            graph_case(c0, [[T('', 'foo', G(I('m', -1))), T('&', 'bar', G(I('m', -1))), T('&', 'c')], [T('', 'baz', G(I('m')))]]),
            graph_case(c3, [[T('', 'foo', G(I('m', '072')))]]),
            graph_case(c3, [[T('', 'foo', G(I('m', '5')))]]),
            heading_case(c3, [['foo', G(I('m', '072'))]]),
            heading_case(c0, [['foo', G(I('m')), '_x', G(I('m'))]]),
            heading_case(c0, [['foo', G(I('m', '1')), '_x', G(I('m'))]]),
            heading_case(c0, [['foo', G(I('m'), I('n', '05'))], ['bar'], ['baz', G(I('n'))]], 2),
            graph_case(CFGS[4], [[T('', 'foo', G(I('m', -1)))], [T('', 'foo', G(I('m')))]]),
        ]

    def gen(self, tier, rng):
        percent_ok = 'heading-percent-literal' not in self.known
        box = box_cases()
        if tier == 'quick':
            n_rand = 3000
        elif tier == 'thorough':
            n_rand = 150000
        else:
            n_rand = 300000
        yield from box
        for _ in range(n_rand):
            if rng.random() < 0.6:
                yield rand_graph(rng)
            else:
                yield rand_heading(rng, percent_ok)

    # ------------------------------------------------------------------
    def impl(self, inp):
        cfg = cfg_of(inp['params'])
        variant = inp.get('variant', 0)
        if inp['kind'] == 'graph':
            text = chain_text(inp['chain'], variant)
            try:
                lines = sorted(self.GE(cfg).expand(text))
            except Exception:
                lines = 'error'
            try:
                pairs = [[l, r] for l, r in self.pairs_of(cfg, text)]
            except Exception:
                pairs = 'error'
            return {'lines': lines, 'pairs': pairs}
        text = heading_text(inp['names'], variant)
        try:
            res = self.NE(cfg).expand(text)
            names = [[n, [[k, V(v)] for k, v in sorted(d.items())]] for n, d in res]
        except Exception:
            names = 'error'
        return {'names': names}

    def text_of(self, inp):
        if inp['kind'] == 'graph':
            return chain_text(inp['chain'], inp.get('variant', 0))
        return heading_text(inp['names'], inp.get('variant', 0))

    # ------------------------------------------------------------------
    def classify(self, inp, obs):
        kind = inp['kind']
        if kind == 'graph':
            items = [it for e in inp['chain'] for t in e for s in t['segs'] if 'grp' in s for it in s['grp']]
            err = obs['lines'] == 'error'
        else:
            items = [it for n in inp['names'] for s in n if 'grp' in s for it in s['grp']]
            err = obs['names'] == 'error'
        if not items:
            return kind + '/no-params'
        tags = []
        vals = {p['name']: [unV(v) for v in p['values']] for p in inp['params']}
        used = {it['p'] for it in items}
        if len(used) > 1:
            tags.append('multi')
        if any(isinstance(v, str) for p in used for v in vals.get(p, [])):
            tags.append('str')
        if any('fixed' in it for it in items):
            tags.append('fixed')
        if any('off' in it for it in items):
            tags.append('offset')
        if kind == 'graph' and not err:
            sent = str(self.GE._REMOVE)
            if any(sent in ln for ln in obs['lines']):
                tags.append('removed')
            if obs['pairs'] != 'error' and len(inp['chain']) > 1 and not any(p[0] is not None for p in obs['pairs']):
                tags.append('cut')
        if kind == 'heading':
            names = [it['p'] for n in inp['names'] for s in n if 'grp' in s for it in s['grp']]
            per_name = [[it['p'] for s in n if 'grp' in s for it in s['grp']] for n in inp['names']]
            if any(len(set(x)) < len(x) for x in per_name):
                tags.append('repeat')
            if len(inp['names']) > 1:
                tags.append('list')
        tags.append('error' if err else 'ok')
        return kind + '/' + '+'.join(tags)

    # ------------------------------------------------------------------
    def neighbours(self, inp, rng):
        out = []

        def with_items(f):
            j = json.loads(json.dumps(inp))
            seg_lists = ([t['segs'] for e in j['chain'] for t in e] if j['kind'] == 'graph' else j['names'])
            for segs in seg_lists:
                for s in segs:
                    if 'grp' in s:
                        s['grp'] = [f(it) for it in s['grp']]
            return j
        out.append(with_items(lambda it: {'p': it['p'], 'sel': 'plain'}))
        out.append(with_items(lambda it: it if 'off' not in it else {'p': it['p'], 'off': -1}))
        out.append(with_items(lambda it: it if 'fixed' not in it else {'p': it['p'], 'sel': 'plain'}))
        if inp['kind'] == 'graph':
            for k in range(len(inp['chain'])):
                j = json.loads(json.dumps(inp))
                j['chain'] = [j['chain'][k]]
                j['chain'][0][0]['op'] = ''
                out.append(j)
            j = json.loads(json.dumps(inp))
            j['chain'] = [[dict(e[0], op='')] for e in j['chain']]
            out.append(j)
        else:
            for k in range(len(inp['names'])):
                j = json.loads(json.dumps(inp))
                j['names'] = [j['names'][k]]
                out.append(j)
        for v in range(4):
            j = json.loads(json.dumps(inp))
            j['variant'] = v
            out.append(j)
        return out


PROP = C34()
