"""C02  No task instance runs twice in a flow without intervention; retries."""
from __future__ import annotations

import sys
from pathlib import Path

sys.path.insert(0, str(Path(__file__).resolve().parents[1] / 'sched'))
from prop import SchedProp  # noqa: E402


class C02(SchedProp):
    id = 'C02'
    kinds = ('any', 'any', 'complete')
    props_modules = ['CylcModel.Props.C02']
    theorems = [
        'CylcModel.C02.no_double_submit',
        'CylcModel.C02.launch_increments_record',
        'CylcModel.C02.retry_counters_bounded',
        'CylcModel.C02.final_output_only_when_exhausted',
        'CylcModel.C02.final_children_only_after_completion',
        'CylcModel.C02.retry_automaton_bound',
    ]
    statement_note = (
        'proof over the Sched model (v1, intervention-free; hypothesis Graph.wf checked by the driver). Full: '
        'no_double_submit - in every run the submit numbers of the launches of one instance, in order over the whole '
        'run, are exactly 1..k (distinct, consecutive; removal and re-spawning do not restart the count); the try '
        'counters never exceed N / M; per atomic action of the model (every operation is a sequence of them, '
        'C01.step_refines) the failed / submit-failed output of a pooled proxy becomes complete only in a state where '
        'no execution / submission retry remains (or the proxy is revived from a history record that had it); children '
        'of those outputs are satisfied only after the completion (C01 Inv_prereq). Partial: the bound (N+1)*(M+1) is '
        'proved for the per-proxy retry automaton (retry_automaton_bound: guards of processMessage / releaseAndSubmit on '
        '(execTry, subTry, phase)), NOT lifted to Sched (def retry_bound_full): the lifting needs the '
        'ignore-messages-while-a-retry-is-lined-up guard and an environment assumption (submit failure only reported '
        'while preparing) that the atomic actions do not carry; the judge checks the bound and "each resubmission is '
        'preceded by a retry with a retry remaining" on every real run')
    technique = ('refinement of the Lean scheduler model to atomic actions + inductive invariants / launch-log relation '
                 'over all op lists + potential function on the retry automaton + trace correspondence + trace judge')
    trusted = ['the runner instrumentation (wrapper around process_message that records state before/after)']
    rule = ('as C01, two thirds of the runs of kind any (failures, submit failures, duplicate / stale / out-of-order '
            'messages), tasks with 0-2 execution and 0-1 submission retry delays; non-trivial = distinct (kind, ending, '
            'launch-count class, polls) class per distinct case')


PROP = C02()
