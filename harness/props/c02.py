"""C02  No task instance runs twice in a flow without intervention; retries."""
from __future__ import annotations

import sys
from pathlib import Path

sys.path.insert(0, str(Path(__file__).resolve().parents[1] / 'sched'))
from prop import SchedProp  # noqa: E402


class C02(SchedProp):
    id = 'C02'
    kinds = ('any', 'any', 'complete')
    gen_opts = {'late': 0.2, 'prep_fail': 0.15, 'fail_signals': True, 'p_vacate': 0.15}
    props_modules = ['CylcModel.Props.C02']
    theorems = [
        'CylcModel.C02.no_double_submit',
        'CylcModel.C02.launch_increments_record',
        'CylcModel.C02.retry_counters_bounded',
        'CylcModel.C02.final_output_only_when_exhausted',
        'CylcModel.C02.final_children_only_after_completion',
        'CylcModel.C02.retry_bound_states',
        'CylcModel.C02.retry_bound',
        'CylcModel.C02.stepX_refines',
        'CylcModel.C02.no_double_submit_pf',
        'CylcModel.C02.retry_counters_bounded_pf',
        'CylcModel.C02.retry_bound_pf',
        'CylcModel.C02.retry_automaton_bound',
    ]
    statement_note = (
        'proof over the Sched model (v1, intervention-free; hypothesis Graph.wf checked by the driver). Full, for all '
        'graphs and all op lists: no_double_submit - in every run the submit numbers of the launches of one instance, in '
        'order over the whole run, are exactly 1..k (distinct, consecutive; removal and re-spawning do not restart the '
        'count); the try counters never exceed N / M; per atomic action of the model (every operation is a sequence of '
        'them, C01.step_refines) the failed / submit-failed output of a pooled proxy becomes complete only in a state '
        'where no execution / submission retry remains (or the proxy is revived from a history record that had it); '
        'children of those outputs are satisfied only after the completion (C01 Inv_prereq). retry_bound - at most '
        '(N+1)*(M+1) launches per instance - is proved for graphs without suicide triggers (Graph.noSui) and operation '
        'lists that respect the environment assumption envOK2 (a failed job-submission is reported only for an instance '
        'that is still preparing; job messages carry a submit number >= 1 and never read "submit-failed"): both '
        'hypotheses are decidable and explicit; the proof uses the ignore-messages-while-a-retry-is-lined-up guard of '
        '_process_message_check (per-proxy potential-function invariant over the atomic actions, plus the bound for the '
        'bare retry automaton, retry_automaton_bound). Partial: with suicide triggers a removed-and-respawned proxy '
        'starts with fresh try counters but keeps its submit number, so the bound is NOT proved there (def '
        'retry_bound_full); the judge checks the bound and "each resubmission is preceded by a retry with a retry '
        'remaining" on every real run, whatever the graph. The model is extended (SchedPF, Sched itself unchanged) by '
        'one outcome of job submission: the job-file preparation of some of the proxies a main loop sends to preparation '
        'fails and is handled as submit-failed via the preparation path (real _prep_submit_task_job exception handler + '
        '_prep_submit_task_job_error; the attempt consumes a submit number, nothing is launched); stepX_refines, '
        'no_double_submit_pf, retry_counters_bounded_pf and retry_bound_pf carry the theorems over to the extended '
        'model (attempts = launches + failed preparations). Not modelled: the waiting_on_job_prep flag itself (its '
        'effect - a proxy whose preparation failed is not sent to preparation again without a retry - is what the '
        'correspondence and the judge decide), the other preparation failure paths (platform / host selection). The JSON '
        'layer of the model (SchedPF.canonMsg) reads failed/<SIGNAL> and aborted/<reason> as the output failed. Job vacation '
        '(poll result vacated/<SIGNAL> for the current job: status back to submitted, submission try counter reset, '
        'execution counter untouched) is an operation of the correspondence model (SchedPF.vacate) but NOT covered by '
        'the theorems (it would need a further atomic update kind); the judge counts the retries itself, vacations included')
    technique = ('refinement of the Lean scheduler model to atomic actions + inductive invariants / launch-log relation '
                 'over all op lists + potential function on the retry automaton + trace correspondence + trace judge')
    trusted = ['the runner instrumentation (wrapper around process_message that records state before/after)']
    rule = ('as C01, two thirds of the runs of kind any (failures, submit failures, duplicate / stale / out-of-order '
            'messages, failure reports in the forms job scripts send (failed/<SIGNAL>, aborted/<reason>), late duplicates of the '
            'last message of finished jobs, running jobs vacated and restarted (p_vacate 0.15), job-file preparation failing for 15% of the '
            'submissions: the real _prep_submit_task_job runs with JobFileWriter.write raising), tasks with 0-2 execution and 0-1 submission retry delays; non-trivial = distinct (kind, ending, '
            'launch-count class, polls) class per distinct case')

    def gen(self, tier, rng):
        for case in super().gen(tier, rng):
            if '=> !' in case.get('flow', '') and (case.get('policy') or {}).get('p_prep_fail'):
                # no job-file preparation failures in workflows with suicide triggers: a proxy removed by a suicide
                # trigger in the very main loop in which its preparation failed, and respawned in that loop, is revived
                # from the database with the submit number of BEFORE the failed attempt (the task_states row is only
                # updated at the end of the loop) - a lag of the real database the model's history does not have
                # (reported to the coordinator; seen once in 588 thorough runs)
                case['policy'] = {k: v for k, v in case['policy'].items() if k != 'p_prep_fail'}
            yield case


PROP = C02()
