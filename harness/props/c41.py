"""C41  Literal task environment values reach the job unchanged.

The real JobFileWriter writes `cylc__job__inst__user_env` for a generated [environment] section, the
real bash evaluates it, and what bash ends up with is compared with the Lean model (`Bash.lean`:
port of `_get_variable_value_definition` + a bash fragment) and judged against the property.
"""
from __future__ import annotations

import io
import itertools
import os
import pwd
import re
import shutil
import subprocess
import tempfile
import types

from core import Prop, Infra

NAMES = ['A', 'B', 'Q_1', '_z', 'Zj7', 'C', 'D']
HOME = '/homeX'
OUTER = [['HOME', HOME], ['OUTER', 'o u  t'], ['Q7', 'seven']]

# characters of generated literal text.  Letters/digits are chosen so that no word over them is a
# bash builtin, keyword or command (text exposed by a broken quotation is *executed* by bash).
PLAIN = list('qzjQZ07')
PUNCT = list(' #=:/*?[]!{}%^,.-+@') + ['\t']
QUOTES = ['"', "'"]
UNI = ['é', '☃', '　', '\xa0', 'ß']
META = list(';&|<>()') + ['\n']
EXP = ['$', '`', '\\']

BASH = shutil.which('bash') or '/bin/bash'

# One bash process evaluates a whole chunk (process creation is the dominant cost here).  Restricted mode +
# empty PATH: text exposed by a broken quotation cannot run a command, redirect output or leave the directory.
# After each case every variable a generated text can have set is removed and the start environment restored.
SCRIPT = r'''
exec 2>/dev/null </dev/null
PATH=/nonexistent
set -r
for __i in "$@"; do
  printf '\0CASE\0'
  unset -f cylc__job__inst__user_env
  mapfile -t __names <"n$__i"
  IFS= read -r -d '' __t <"f$__i"
  eval "$__t"
  if declare -F cylc__job__inst__user_env; then
    cylc__job__inst__user_env
    printf '\0OK\0'
    for __v in "${__names[@]}"; do
      # set AND exported (what the processes of the job see)
      if [[ -v $__v && ${!__v@a} == *x* ]]; then printf '1%s\0' "${!__v}"; else printf '0\0'; fi
    done
  else
    printf '\0SYNTAX\0'
  fi
  unset A B C D A2 ${!q*} ${!z*} ${!j*} ${!Q*} ${!Z*} ${!_z*}
  export HOME=/homeX OUTER='o u  t' Q7=seven
done
printf '\0END\0'
'''


def _chunk_worker(args):
    prop, chunk = args
    return prop.run_chunk(chunk)


def lit(s):
    return {'l': s}


def ref(n, braces=False):
    return {'r': n, 'b': braces}


def part_text(p):
    if 'l' in p:
        return p['l']
    return '${%s}' % p['r'] if p.get('b') else '$' + p['r']


def norm_parts(ps):
    """merge adjacent literals, drop empty ones (keep one if nothing else)"""
    out = []
    for p in ps:
        if 'l' in p:
            if not p['l']:
                continue
            if out and 'l' in out[-1]:
                out[-1] = lit(out[-1]['l'] + p['l'])
                continue
        out.append(p)
    return out or [lit('')]


def mk(defs, filt=None):
    """defs: [(name, [parts])] -> case; filt = (include list, exclude list) of [environment filter]"""
    defs = [(n, norm_parts(ps)) for n, ps in defs]
    case = _mk(defs)
    if filt is not None:
        case['filter'] = {'incl': list(filt[0]), 'excl': list(filt[1])}
    return case


def _mk(defs):
    return {
        'defs': [[n, ''.join(part_text(p) for p in ps)] for n, ps in defs],
        'parts': [ps for _n, ps in defs],
        'env': OUTER,
        'homes': HOMES,
    }


def _homes():
    out = []
    for e in pwd.getpwall():
        if e.pw_name and [e.pw_name, e.pw_dir] not in out and not any(e.pw_name == o[0] for o in out):
            out.append([e.pw_name, e.pw_dir])
    keep = [o for o in sorted(out) if o[0] in ('root', 'daemon', 'bin', 'nobody', 'mail', 'games')]
    return keep or sorted(out)[:4]


HOMES = _homes()
LOGINS = [h[0] for h in HOMES]


class C41(Prop):
    id = 'C41'
    props_modules = ['CylcModel.Props.C41']
    theorems = [
        'CylcModel.C41.section_spec',
        'CylcModel.C41.literal_preserved',
        'CylcModel.C41.literal_preserved_partial',
        'CylcModel.C41.literal_preserved_live',
        'CylcModel.C41.order',
        'CylcModel.C41.filter_preserves_order',
        'CylcModel.C41.literal_preserved_counterexample',
    ]
    technique = ('Lean 4: fold-based state machine for the bash fragment + port of _get_variable_value_definition; '
                 'induction over the section and over the characters of each value; direct correspondence through real bash')
    trusted = [
        'bash: the model of double/single quoting, backslash, $NAME/${NAME}, comments, tilde-prefix is assumed '
        '(validated against the real bash on every generated case, never proved)',
        'Python re for the two tilde patterns of _get_variable_value_definition, re-implemented by hand (tildeSlash, tildeBare); '
        '\\s = str.isspace regenerated into Generated/BashCfg.lean',
        'job_conf["environment"] is the namespace environment after WorkflowConfig.filter_env (inheritance / broadcast merging before it is not exercised); '
        'the job script calls cylc__job__inst__user_env unchanged (the function is sourced and called on its own here)',
    ]
    unmodelled = [
        'parameter environment templates (%(param)s interpolation; param_var is empty here)',
        'bash outside the fragment (command substitution, arithmetic, further words on an assignment line, '
        'metacharacters outside quotes): the model answers "unsupported", those cases are judged only',
        'set -euo pipefail of the real job script (unset references abort there; here they expand to nothing)',
    ]
    rule = ('sections of 1-4 variables, 45% of the multi-variable ones passed through the real WorkflowConfig.filter_env with include lists '
            '(subset, shuffled order, unknown names) and / or exclude lists; values rendered from structure: literal text over letters/digits, blanks, # = : / * ? [ ] ! { } % ^ , . - + @, '
            'quotes, unicode (incl. non-ASCII whitespace), shell metacharacters, newlines; the three tilde shapes with existing and unknown logins, ~+ ~- ~0; '
            'literal text starting with ~ (blanks and shell-active characters before the first /, several tildes); '
            '$NAME / ${NAME} references to earlier, later and outer variables; raw $ ` \\; plus the exhaustive box of all values of length <= 3 '
            'over a 10-character alphabet; distinct = distinct section, non-trivial = class (shapes, quote/ref/meta content, outcome)')
    workers = 16

    def setup(self):
        from cylc.flow.job_file import JobFileWriter
        self.W = JobFileWriter
        from cylc.flow.config import WorkflowConfig
        self.WC = WorkflowConfig
        self.esc = None

    # ------------------------------------------------------------------ K-T
    def translate(self):
        spaces = [cp for cp in range(0x110000) if chr(cp).isspace()]
        sset = set(spaces)
        rx = re.compile(r'\s')
        for cp in range(0x110000):
            if bool(rx.match(chr(cp))) != (cp in sset):
                raise ValueError(f're \\s and str.isspace differ at U+{cp:04X}')
        got = self.W._get_variable_value_definition('a"b', {})
        self.esc = (got == '"a\\"b"')
        if self.esc:
            # the escape must stay off for shell text
            if self.W._get_variable_value_definition('$(echo "hi")', {}) != '"$(echo "hi")"':
                raise ValueError('double quotes are escaped in values with expansions: not the behaviour the model knows')
        self.statement_note = self.note()
        return {'BashCfg.lean': (
            '/- GENERATED by harness/props/c41.py translate() from the live interpreter / source. Do not edit. -/\n'
            'namespace CylcModel.Generated.BashCfg\n'
            '/-- code points with `str.isspace()` (= `\\s` of `re`, checked for every code point) -/\n'
            f'def pySpace : List Nat := {spaces}\n'
            '/-- does `_get_variable_value_definition` escape `"` in values free of `$`, backquote, backslash? (probed: `a"b`) -/\n'
            f'def escapesDquote : Bool := {"true" if self.esc else "false"}\n'
            'end CylcModel.Generated.BashCfg\n')}

    def note(self):
        base = ('section_spec (full, all sections, any length): bash running the generated function body = the definitions applied in '
                'configuration order, each value being its literal text with ${NAME} references replaced by the current value of NAME '
                '(values: text free of $ ` \\, not a tilde form - literal text that merely starts with ~, such as "~5 km/h" (whitespace before the first /), counts as literal - and, for the unrepaired quoting, free of "); corollaries literal_preserved '
                '(escaping quoting: every expansion-free value incl. double quotes arrives unchanged) and order. ')
        if self.esc:
            return base + 'The live code escapes double quotes: literal_preserved_live applies, the full statement holds.'
        return base + ('partial on the live code: it does not escape ", so the full statement is false for values containing " '
                       '(literal_preserved_counterexample, known finding dquote, fix proposed in findings/C41-fix-1.diff); '
                       'proved for the live code: literal_preserved_partial (values without ").')

    # ------------------------------------------------------------------ cases
    def corpus(self):
        return [
            mk([('A', [lit('say "hi"')])]),
            mk([('A', [lit('a"b')])]),
            mk([('A', [lit('x y')]), ('B', [ref('A'), lit('/z')]), ('C', [lit('~/a b')]), ('D', [lit('~')])]),
            mk([('A', [lit("it's # not a comment")]), ('B', [lit('a=b:~/c')]), ('C', [lit('é☃　')])]),
            mk([('A', [lit('q"z')]), ('B', [lit('j"Q')])]),          # two odd quotes re-pair across lines
            mk([('A', [lit('~root/"q"')]), ('B', [lit('~nosuch')]), ('C', [lit('~root')])]),
            mk([('RUN_DIR', [lit('/work/run 1')]), ('X', [lit('x')]), ('LOG_DIR', [ref('RUN_DIR'), lit('/log')]), ('A', [ref('LOG_DIR', True)])],
               (['LOG_DIR', 'A', 'RUN_DIR', 'NOPE'], [])),       # include list in another order than the definitions
            mk([('A', [lit('a')]), ('B', [ref('A'), lit('b')]), ('C', [ref('B', True), ref('A')])], ([], ['B'])),
            mk([('A', [lit('a')]), ('B', [ref('A'), lit('b')]), ('C', [ref('B', True), ref('A')])], (['C', 'B', 'A'], ['Q'])),
            mk([('A', [lit('~5 km/h')]), ('B', [lit('~ 3/4 of it')]), ('C', [lit('~a ~b')]), ('D', [lit('~q\tz/~/j')])]),   # literal text starting with ~
            mk([('A', [lit('q\n')]), ('B', [lit('~/q\n')]), ('C', [lit('~q\n')])]),
            mk([('A', [lit('one')]), ('B', [ref('A', True), lit('two'), ref('OUTER')]), ('A2', [ref('B'), lit(' '), ref('A2')])]),
            mk([('A', [lit('$\\\nq')]), ('B', [lit('$\\\n#')])]),     # $, backslash-newline: the continuation is removed before the $
        ]

    def gen(self, tier, rng):
        box = ['q', ' ', '"', "'", '#', '~', '/', '$', '\\', '\n']
        depth = 3 if tier == 'quick' else 4
        for n in range(0, depth + 1):
            for t in itertools.product(box, repeat=n):
                yield mk([('A', [lit(''.join(t))])])
        n_rand = {'quick': 4000, 'thorough': 60000, 'search': 40000}[tier]
        for _ in range(n_rand):
            yield self.random_case(rng)

    def rand_text(self, rng, kind):
        n = rng.choice([0, 1, 1, 2, 3, 4, 6, 9])
        pools = [PLAIN, PLAIN, PUNCT]
        if kind in ('quote', 'wild'):
            pools += [QUOTES, QUOTES]
        if kind in ('uni', 'wild'):
            pools += [UNI]
        if kind in ('meta', 'wild'):
            pools += [META]
        if kind == 'wild':
            pools += [EXP]
        return ''.join(rng.choice(rng.choice(pools)) for _ in range(n))

    def rand_value(self, rng, earlier, later):
        r = rng.random()
        kind = rng.choice(['plain', 'plain', 'quote', 'quote', 'uni', 'meta', 'wild'])
        if r < 0.45:
            return [lit(self.rand_text(rng, kind))]
        if r < 0.52:      # literal text that merely starts with a tilde: blanks / shell-active characters before the first slash
            pre = ''.join(rng.choice(rng.choice([PLAIN, PLAIN, [' ', ' ', '\t', '\n'], ['~', '#', '=', ':', '*', '+', '-', '.', "'"] + UNI,
                                                 QUOTES if kind in ('quote', 'wild') else PLAIN, META if kind in ('meta', 'wild') else PLAIN]))
                          for _ in range(rng.randint(1, 6)))
            if not any(c in ' \t\n' for c in pre[:-1]):
                k = rng.randrange(0, len(pre) + 1)
                pre = pre[:k] + rng.choice([' ', ' ', '\t']) + pre[k:] + rng.choice(PLAIN)
            tail = self.rand_text(rng, kind)
            return [lit('~' + pre + rng.choice(['/' + tail, '/' + tail, '/', '', ' ~/' + tail, '/' + tail + '/~' + rng.choice(PLAIN)]))]
        if r < 0.62:      # tilde shapes
            login = rng.choice(['', '', 'root', 'nosuch', rng.choice(LOGINS), 'q', '+', '-', '0', 'q"z', 'q z', 'q~', '~'])
            tail = self.rand_text(rng, kind)
            form = rng.random()
            if form < 0.5:
                return [lit('~' + login + '/' + tail)]
            if form < 0.75:
                return [lit('~' + login + tail.replace(' ', ''))]
            if form < 0.85:
                return [lit('~' + login)]
            return [lit(tail + '~' + login + rng.choice(['', '/q', ':~/q']))]
        # references
        parts = []
        for _ in range(rng.randint(1, 4)):
            if rng.random() < 0.5:
                pool = (earlier * 3 + later + ['OUTER', 'HOME', 'UNSET_q']) or ['OUTER']
                parts.append(ref(rng.choice(pool), rng.random() < 0.5))
            else:
                parts.append(lit(self.rand_text(rng, rng.choice(['plain', 'plain', 'quote', 'uni']))))
        if not any('r' in p for p in parts):
            parts.append(ref(rng.choice(earlier or ['OUTER']), True))
        return parts

    def random_case(self, rng):
        k = rng.choice([1, 1, 2, 2, 3, 3, 4])
        names = rng.sample(NAMES, k)
        defs = []
        for idx, n in enumerate(names):
            defs.append((n, self.rand_value(rng, names[:idx], names[idx + 1:])))
        filt = None
        if k >= 2 and rng.random() < 0.45:
            incl = rng.sample(names, rng.randint(1, k)) if rng.random() < 0.75 else []
            if incl and rng.random() < 0.2:
                incl.insert(rng.randrange(len(incl) + 1), 'NOPE')
            rng.shuffle(incl)
            excl = rng.sample(names, rng.randint(1, k - 1)) if (not incl or rng.random() < 0.25) else []
            filt = (incl, excl)
        return mk(defs, filt)

    # ------------------------------------------------------------------ implementation
    def body(self, inp):
        env = {}
        for n, v in inp['defs']:
            env[n] = v
        if inp.get('filter') is not None:
            # the task environment as the scheduler builds it: real WorkflowConfig.filter_env on the namespace
            from cylc.flow.parsec.OrderedDict import OrderedDictWithDefaults
            ns = OrderedDictWithDefaults()
            ns['environment'] = OrderedDictWithDefaults(env)
            ns['environment filter'] = OrderedDictWithDefaults(
                {k: v for k, v in (('include', inp['filter']['incl']), ('exclude', inp['filter']['excl'])) if v})
            self.WC.filter_env(types.SimpleNamespace(cfg={'runtime': {'t': ns}}))
            env = ns['environment']
        h = io.StringIO()
        self.W._write_runtime_environment(h, {'environment': env, 'param_var': {}})
        return h.getvalue()

    def run_chunk(self, chunk, depth=0):
        """One bash process evaluates the functions of a whole chunk, each in its own restricted subshell."""
        base = '/dev/shm' if os.path.isdir('/dev/shm') else None
        d = tempfile.mkdtemp(prefix='c41-', dir=base)
        try:
            for i, inp in enumerate(chunk):
                if inp['env'] != OUTER:
                    raise Infra('unexpected start environment')
                with open(os.path.join(d, f'f{i}'), 'w', encoding='utf-8') as fh:
                    fh.write(self.body(inp))
                with open(os.path.join(d, f'n{i}'), 'w') as fh:
                    fh.write(''.join(n + '\n' for n, _v in inp['defs']))
            for attempt in range(3):
                try:
                    p = subprocess.run(
                        [BASH, '--noprofile', '--norc', '-c', SCRIPT, 'bash'] + [str(i) for i in range(len(chunk))],
                        cwd=d, env={k: v for k, v in OUTER}, stdout=subprocess.PIPE, stderr=subprocess.DEVNULL,
                        stdin=subprocess.DEVNULL, timeout=300)
                    break
                except subprocess.TimeoutExpired:
                    if attempt == 2:
                        raise Infra('bash timed out')
            out = p.stdout.decode('utf-8', 'surrogateescape')
            if not out.endswith('\0END\0'):
                if len(chunk) == 1:
                    return ['error']
                # some case ended the shell: isolate it
                return [r for inp in chunk for r in self.run_chunk([inp], depth + 1)]
            segs = out[:-5].split('\0CASE\0')[1:]
            if len(segs) != len(chunk):
                # seen once under heavy machine load (a failed fork ends the loop early): evaluate one by one
                if len(chunk) == 1 or depth > 2:
                    raise Infra(f'bash returned {len(segs)} segments for {len(chunk)} cases')
                return [r for inp in chunk for r in self.run_chunk([inp], depth + 1)]
            # (an empty filtered environment: no function is written at all, nothing is exported)
            return [[[n, None] for n, _v in inp['defs']] if not self.body(inp)
                    else self.decode([n for n, _v in inp['defs']], seg) for inp, seg in zip(chunk, segs)]
        finally:
            shutil.rmtree(d, ignore_errors=True)

    @staticmethod
    def decode(names, out):
        if out.endswith('\0SYNTAX\0') and '\0OK\0' not in out:
            return 'syntax'
        k = out.rfind('\0OK\0')
        if k < 0:
            return 'error'        # the function body ended the shell
        fields = out[k + 4:].split('\0')[:-1]
        if len(fields) != len(names) or any(not f for f in fields):
            return 'error'
        return [[n, (f[1:] if f[0] == '1' else None)] for n, f in zip(names, fields)]

    def impl(self, inp):
        return self.run_chunk([inp])[0]

    def impl_batch(self, inputs):
        size = 250
        chunks = [inputs[i:i + size] for i in range(0, len(inputs), size)]
        if len(chunks) <= 1:
            return [r for c in chunks for r in self.run_chunk(c)]
        import multiprocessing as mp
        with mp.get_context('fork').Pool(min(self.workers, len(chunks))) as pool:
            parts = pool.map(_chunk_worker, [(self, c) for c in chunks], chunksize=1)
        return [r for part in parts for r in part]

    def equal(self, model_out, obs):
        return model_out == 'unsupported' or model_out == obs

    def classify(self, inp, obs):
        tags = set()
        for (_n, v), ps in zip(inp['defs'], inp['parts']):
            if v.startswith('~'):
                tags.add('tilde/' if re.match(r'^~[^/\s]*/', v) else ('tilde-bare' if re.match(r'^~\S*$', v) else 'tilde-quoted'))
            if '"' in v:
                tags.add('dq')
            if "'" in v:
                tags.add('sq')
            if any('r' in p for p in ps):
                tags.add('ref')
            if re.search(r'[$`\\]', ''.join(p.get('l', '') for p in ps)):
                tags.add('rawexp')
            if re.search(r'[;&|<>()\n]', v):
                tags.add('meta')
            if re.search(r'[^\x00-\x7f]', v):
                tags.add('uni')
            if re.search(r'[ \t#]', v):
                tags.add('blank#')
        if inp.get('filter') is not None:
            f = inp['filter']
            order = [n for n, _v in inp['defs'] if n in f['incl']]
            tags.add('filter-reordered' if f['incl'] and [n for n in f['incl'] if n in order] != order else 'filter')
        if not tags:
            tags.add('plain')
        out = 'syntax' if obs == 'syntax' else ('error' if obs == 'error' else 'ran')
        return f'{len(inp["defs"])}v:' + '+'.join(sorted(tags)) + ':' + out

    def neighbours(self, inp, rng):
        out = []
        defs = list(zip([d[0] for d in inp['defs']], inp['parts']))
        f = inp.get('filter')
        filt = (f['incl'], f['excl']) if f is not None else None
        for i in range(len(defs)):
            if len(defs) > 1:
                out.append(mk(defs[:i] + defs[i + 1:], filt))
            n, ps = defs[i]
            for j, p in enumerate(ps):
                if 'l' in p:
                    s = p['l']
                    for k in range(len(s)):
                        out.append(mk(defs[:i] + [(n, ps[:j] + [lit(s[:k] + s[k + 1:])] + ps[j + 1:])] + defs[i + 1:], filt))
        return out[:200]


PROP = C41()
