"""Shared machinery of the /verif checks.

One check = one property = (Lean model + theorems) tied to /repo by
 (K-T) tables regenerated from the live source before every build, and/or
 (K-C) correspondence: the real code and the Lean driver run the same inputs.

See DESIGN.md section 2.  Exit codes: 0 held, 1 violation (VIOLATION line),
2 infrastructure failure (never a verdict).
"""
from __future__ import annotations

import fcntl
import hashlib
import json
import os
import random
import re
import subprocess
import sys
import time
import traceback
from contextlib import contextmanager
from pathlib import Path
from typing import Any, Dict, Iterable, List, Optional, Tuple

VERIF = Path(__file__).resolve().parents[1]
LEAN = VERIF / 'lean'
REPO = Path(os.environ.get('VERIF_REPO', '/repo')).resolve()
GUARD = 'CYLC_FLOW_VERIF'

ALLOWED_AXIOMS = {'propext', 'Classical.choice', 'Quot.sound'}
FORBIDDEN = [
    r'\bsorry\b', r'\badmit\b', r'\bnative_decide\b', r'\bbv_decide\b',
    r'\bimplemented_by\b', r'\bunsafe\s', r'maxHeartbeats\s+0\b', r'^\s*axiom\s',
]

BASE_TRUSTED = [
    'Lean 4.33.0 kernel (lake build; leanchecker in the thorough tier)',
    'axioms allowed per theorem: propext, Classical.choice, Quot.sound (audited with #print axioms on every run)',
    'no sorry/admit/native_decide/bv_decide/implemented_by/unsafe/maxHeartbeats 0 (grepped on every run)',
    'the Python harness (generators, adapters, canonicalisation) and the Lean driver JSON decoding',
]


class Infra(Exception):
    """Infrastructure failure: exit 2, never a verdict."""


def use_repo():
    """Make `import cylc.flow` resolve to the repository under test."""
    sys.path.insert(0, str(REPO))
    os.environ[GUARD] = '1'
    import cylc.flow  # noqa
    where = Path(cylc.flow.__file__).resolve()
    if REPO not in where.parents:
        raise Infra(f'cylc.flow imported from {where}, not from {REPO}')


# ---------------------------------------------------------------------------
# build

@contextmanager
def build_lock():
    d = VERIF / '.locks'
    d.mkdir(exist_ok=True)
    with open(d / 'build.lock', 'w') as fh:
        fcntl.flock(fh, fcntl.LOCK_EX)
        try:
            yield
        finally:
            fcntl.flock(fh, fcntl.LOCK_UN)


def write_if_changed(path: Path, content: str) -> bool:
    path.parent.mkdir(parents=True, exist_ok=True)
    if path.exists() and path.read_text() == content:
        return False
    tmp = path.with_suffix(path.suffix + '.tmp')
    tmp.write_text(content)
    os.replace(tmp, path)
    return True


def gen_lakefile():
    drvs = sorted(p.stem for p in (LEAN / 'CylcModel' / 'Drv').glob('*.lean'))
    out = [
        'name = "CylcModel"', 'version = "0.1.0"', 'defaultTargets = ["CylcModel"]', '',
        '[[lean_lib]]', 'name = "CylcModel"', 'globs = ["CylcModel.+"]', '',
    ]
    for d in drvs:
        out += ['[[lean_exe]]', f'name = "drv_{d}"', f'root = "CylcModel.Drv.{d}"', '']
    write_if_changed(LEAN / 'lakefile.toml', '\n'.join(out))
    return drvs


def run(cmd, cwd=None, timeout=3600, input=None) -> Tuple[int, str]:
    p = subprocess.run(
        cmd, cwd=cwd, stdout=subprocess.PIPE, stderr=subprocess.STDOUT,
        timeout=timeout, input=input, text=True)
    return p.returncode, p.stdout


def lake_build(targets: List[str]) -> Tuple[bool, str]:
    rc, out = run(['lake', 'build'] + targets, cwd=LEAN, timeout=3600)
    return rc == 0, out


def failing_decls(output: str) -> List[str]:
    """Map `error: File.lean:LINE:COL` lines of a failed build to declaration names."""
    names = []
    for m in re.finditer(r'error: (?:\./)?([\w/\.]+\.lean):(\d+):(\d+)', output):
        f = LEAN / m.group(1)
        line = int(m.group(2))
        name = f'{m.group(1)}:{line}'
        try:
            src = f.read_text().splitlines()
            for i in range(min(line, len(src)) - 1, -1, -1):
                mm = re.match(r'\s*(?:@\[[^\]]*\]\s*)?(?:private\s+|protected\s+)?(theorem|lemma|def|example|instance|abbrev)\s+([\w\.\']+)?', src[i])
                if mm:
                    name = f'{mm.group(2) or mm.group(1)} ({m.group(1)}:{line})'
                    break
        except OSError:
            pass
        if name not in names:
            names.append(name)
    return names


def strip_comments(src: str) -> str:
    src = re.sub(r'/-.*?-/', '', src, flags=re.S)
    src = re.sub(r'--.*', '', src)
    return src


def import_closure(modules: List[str]) -> List[Path]:
    """Lean source files of our package reachable from `modules` through `import CylcModel.…`."""
    seen, todo = {}, list(modules)
    while todo:
        m = todo.pop()
        if m in seen or not m.startswith('CylcModel'):
            continue
        f = LEAN / (m.replace('.', '/') + '.lean')
        if not f.exists():
            continue
        seen[m] = f
        for mm in re.findall(r'^\s*import\s+([\w\.]+)', f.read_text(), flags=re.M):
            todo.append(mm)
    return sorted(seen.values())


def leanchecker(modules: List[str]) -> Tuple[bool, str]:
    """Lean's independent re-checker (replays the compiled declarations of the modules and of their imports
    through the kernel).  Thorough tier only: 40-120 s."""
    with build_lock():
        try:
            r = subprocess.run(['lake', 'env', 'leanchecker'] + list(modules), cwd=str(LEAN), capture_output=True,
                               text=True, timeout=1800)
        except subprocess.TimeoutExpired:
            raise Infra('leanchecker timed out')
    return r.returncode == 0, (r.stdout + r.stderr)


def forbidden_hits(modules: Optional[List[str]] = None) -> List[str]:
    """Forbidden tokens in the Lean sources this property depends on (all sources if modules is None)."""
    files = import_closure(modules) if modules else sorted((LEAN / 'CylcModel').rglob('*.lean'))
    hits = []
    for f in files:
        body = strip_comments(f.read_text())
        for pat in FORBIDDEN:
            for m in re.finditer(pat, body, flags=re.M):
                hits.append(f'{f.relative_to(LEAN)}: {m.group(0).strip()}')
    return hits


def audit_axioms(pid: str, modules: List[str], theorems: List[str]) -> Dict[str, Any]:
    """`#print axioms` for every property theorem.  Returns name -> list of axioms
    (or a string starting with 'ERROR')."""
    d = LEAN / 'Audit'
    d.mkdir(exist_ok=True)
    src = ''.join(f'import {m}\n' for m in modules)
    src += ''.join(f'#print axioms {t}\n' for t in theorems)
    f = d / f'{pid}.lean'
    f.write_text(src)
    rc, out = run(['lake', 'env', 'lean', str(f)], cwd=LEAN, timeout=1800)
    res: Dict[str, Any] = {}
    flat = re.sub(r'\s+', ' ', out)
    for t in theorems:
        short = t
        m = re.search(r"'" + re.escape(short) + r"' depends on axioms: \[([^\]]*)\]", flat)
        if m:
            res[t] = [a.strip() for a in m.group(1).split(',') if a.strip()]
        elif re.search(r"'" + re.escape(short) + r"' does not depend on any axioms", flat):
            res[t] = []
        else:
            res[t] = 'ERROR: ' + out[-400:]
    return res


PRIVATE_EXE: Dict[str, Path] = {}


def privatise_driver(name: str) -> None:
    """Called under the build lock right after the driver was built: this process keeps its own copy of the
    executable, so that a concurrent check of the same property against another source tree (VERIF_REPO), which
    regenerates Generated/*.lean and relinks drv_<name>, cannot swap the model under a running check."""
    import atexit
    import shutil
    src = LEAN / '.lake' / 'build' / 'bin' / f'drv_{name}'
    if not src.exists():
        return
    d = VERIF / '.locks' / 'drv'
    d.mkdir(parents=True, exist_ok=True)
    for old in d.glob('drv_*.*'):          # copies left behind by killed runs
        pid = old.suffix[1:]
        if pid.isdigit() and not Path(f'/proc/{pid}').exists():
            old.unlink(missing_ok=True)
    dst = d / f'drv_{name}.{os.getpid()}'
    shutil.copy2(src, dst)
    PRIVATE_EXE[name] = dst
    atexit.register(lambda: dst.unlink(missing_ok=True))


class Driver:
    """Batch interface to a compiled Lean driver executable."""

    def __init__(self, name: str):
        self.exe = PRIVATE_EXE.get(name) or LEAN / '.lake' / 'build' / 'bin' / f'drv_{name}'

    def batch(self, pairs: List[Tuple[Any, Any]]) -> List[Dict[str, Any]]:
        if not pairs:
            return []
        if not self.exe.exists():
            raise Infra(f'driver executable {self.exe} missing')
        data = ''.join(
            json.dumps({'i': i, 'o': o}, separators=(',', ':')) + '\n' for i, o in pairs)
        p = subprocess.run([str(self.exe)], input=data, stdout=subprocess.PIPE,
                           stderr=subprocess.PIPE, text=True, timeout=3600)
        lines = p.stdout.splitlines()
        if p.returncode != 0 or len(lines) != len(pairs):
            raise Infra(f'driver {self.exe.name}: rc={p.returncode}, {len(lines)} replies '
                        f'for {len(pairs)} requests; stderr: {p.stderr[-500:]}')
        return [json.loads(ln) for ln in lines]


# ---------------------------------------------------------------------------
# property base class

class Prop:
    id: str = ''
    drv: Optional[str] = None            # Drv module (defaults to id)
    props_modules: List[str] = []        # Lean modules holding the property theorems
    theorems: List[str] = []             # fully qualified names, each one obligation
    statement_note: str = ''             # full / partial, what is missing
    trusted: List[str] = []              # property-specific trusted base
    unmodelled: List[str] = []           # parts of the code modelled-not-verified / not covered
    rule: str = ''                       # how cases are generated, what makes one non-trivial
    exhaustive: bool = False
    workers: int = 1                     # processes for impl()

    # -- K-T ---------------------------------------------------------------
    def translate(self) -> Dict[str, str]:
        """Generated Lean files: {file name under CylcModel/Generated: content}."""
        return {}

    # -- K-C ---------------------------------------------------------------
    def corpus(self) -> List[Any]:
        return []

    def gen(self, tier: str, rng: random.Random) -> Iterable[Any]:
        return []

    def impl(self, inp: Any) -> Any:
        raise NotImplementedError

    def impl_batch(self, inputs: List[Any]) -> List[Any]:
        if self.workers <= 1 or len(inputs) < 64:
            return [self.impl(i) for i in inputs]
        import multiprocessing as mp
        ctx = mp.get_context('fork')
        with ctx.Pool(self.workers) as pool:
            return pool.map(self.impl, inputs, chunksize=max(1, len(inputs) // (self.workers * 8)))

    def classify(self, inp: Any, obs: Any) -> Optional[str]:
        """Label of the non-trivial class this case exercises (None = trivial)."""
        return 'case'

    def finding_key(self, inp: Any, why: str) -> Optional[str]:
        m = re.match(r'([a-z0-9][a-z0-9\-]+):', why or '')
        return m.group(1) if m else None

    def neighbours(self, inp: Any, rng: random.Random) -> List[Any]:
        return []

    def equal(self, model_out: Any, obs: Any) -> bool:
        return model_out == obs

    # hooks for properties whose driver case is derived from the implementation run
    def driver_input(self, inp: Any, raw: Any) -> Any:
        return inp

    def driver_obs(self, inp: Any, raw: Any) -> Any:
        return raw

    def skip_case(self, inp: Any, raw: Any) -> bool:
        return False

    def replay_input(self, inp: Any, driver_inp: Any) -> Any:
        """What is stored as the case (must be re-runnable through impl())."""
        return inp

    def setup(self):
        """One-time preparation before impl() calls (imports etc.)."""


def load_prop(pid: str) -> Prop:
    import importlib
    sys.path.insert(0, str(VERIF / 'harness'))
    mod = importlib.import_module(f'props.{pid.lower()}')
    return mod.PROP


def all_prop_ids() -> List[str]:
    return sorted(p.stem.upper() for p in (VERIF / 'harness' / 'props').glob('c[0-9]*.py'))


def known_findings(pid: str) -> List[Dict[str, Any]]:
    """Entries of /verif/findings/<pid>.json (committed; never written at run time).

    kind "finding": {"property", "kind", "key", "witness", "what"} - a recorded genuine defect:
        judge failures whose finding_key() equals "key" print KNOWN-FINDING instead of VIOLATION.
    kind "fixed":   {"property", "kind", "commit", "what"} - for the record, suppresses nothing.
    """
    f = VERIF / 'findings' / f'{pid}.json'
    if not f.exists():
        return []
    return [e for e in json.loads(f.read_text()) if e.get('property') == pid]


def sha(obj: Any) -> str:
    return hashlib.sha1(json.dumps(obj, sort_keys=True).encode()).hexdigest()[:12]
