"""C25 (additive, used by runner.py only when the case policy sets 'obs_ds'): observation of the real
DataStoreMgr of a running Scheduler.

* every batch of deltas the scheduler PUBLISHES (what it puts on `schd.server.publish_queue`; plus the initial
  snapshot `Scheduler.run_scheduler` publishes before its first main loop, which the in-process runner does
  not execute) is captured in canonical JSON;
* a CLIENT store is kept by the real `cylc.flow.data_store_mgr.apply_delta`: it starts from the initial
  published snapshot and applies every published per-type delta in published order (a delta flagged
  `reloaded` first clears that type, as cylc-uiserver does);
* after every `DataStoreMgr.update_data_structure` (the data-store update of the main loop) the pool and the
  task-proxy entries of the scheduler's store are snapshotted side by side;
* the scheduler's store and the client's store are dumped in canonical JSON after every op (only when changed).

Canonical element = {"s": {path: text}, "r": {path: [text..]}, "m": {path: [[key, text]..]}}: singular scalar
fields (sub-messages flattened with dotted paths), repeated fields (sub-messages rendered as compact sorted
JSON text), map fields (sorted by key; message values rendered as JSON text).  Only fields that are *set*
(protobuf ListFields) appear, so presence is preserved.
"""
from __future__ import annotations

import inspect
import json
import re
from copy import deepcopy

from cylc.flow import data_store_mgr as dsm_mod
from cylc.flow.data_store_mgr import (
    DATA_TEMPLATE, EDGES, FAMILIES, FAMILY_PROXIES, JOBS, TASKS, TASK_PROXIES, WORKFLOW, ALL_DELTAS,
    apply_delta, generate_checksum,
)
from cylc.flow.util import deserialise_set

KEYS = [EDGES, FAMILIES, FAMILY_PROXIES, JOBS, TASKS, TASK_PROXIES]


def _scal(fd, v):
    t = fd.type
    if t == fd.TYPE_BOOL:
        return 'true' if v else 'false'
    if t in (fd.TYPE_DOUBLE, fd.TYPE_FLOAT):
        return repr(float(v))
    if t in (fd.TYPE_STRING, fd.TYPE_BYTES):
        return v if isinstance(v, str) else v.decode('utf-8', 'replace')
    return str(int(v))


def _is_map(fd):
    return fd.message_type is not None and fd.message_type.GetOptions().map_entry


def _is_rep(fd):
    try:
        return bool(fd.is_repeated)
    except AttributeError:
        return fd.label == fd.LABEL_REPEATED


def canon(msg, prefix='', out=None):
    """Canonical JSON of a protobuf message (see module docstring)."""
    if out is None:
        out = {'s': {}, 'r': {}, 'm': {}}
    for fd, v in msg.ListFields():
        path = prefix + fd.name
        if _is_map(fd):
            vfd = fd.message_type.fields_by_name['value']
            if vfd.message_type is not None:
                out['m'][path] = [[str(k), _text(v[k])] for k in sorted(v)]
            else:
                out['m'][path] = [[str(k), _scal(vfd, v[k])] for k in sorted(v)]
        elif _is_rep(fd):
            if fd.message_type is not None:
                out['r'][path] = [_text(x) for x in v]
            else:
                out['r'][path] = [_scal(fd, x) for x in v]
        elif fd.message_type is not None:
            canon(v, path + '.', out)
        else:
            out['s'][path] = _scal(fd, v)
    return out


def _text(msg):
    return json.dumps(canon(msg), sort_keys=True, separators=(',', ':'))


def canon_store(data):
    return {
        **{k: [[i, canon(e)] for i, e in data[k].items()] for k in KEYS},
        WORKFLOW: canon(data[WORKFLOW]),
    }


def fingerprint(data):
    out = []
    for k in KEYS:
        out.append([(i, e.SerializeToString(deterministic=True)) for i, e in data[k].items()])
    out.append(data[WORKFLOW].SerializeToString(deterministic=True))
    return out


def canon_delta(key, delta):
    d = {'key': key, 'reloaded': bool(delta.reloaded)}
    if key == WORKFLOW:
        d['added'] = canon(delta.added)
        d['updated'] = canon(delta.updated)
        d['pruned'] = bool(delta.HasField('pruned'))
        d['checksum'] = None
    else:
        d['added'] = [canon(e) for e in delta.added]
        d['updated'] = [canon(e) for e in delta.updated]
        d['pruned'] = [str(x) for x in delta.pruned]
        d['checksum'] = int(delta.checksum) if delta.HasField('checksum') else None
    return d


def store_checksum(key, data):
    att = 'id' if key == EDGES else 'stamp'
    return int(generate_checksum([getattr(e, att) for e in data[key].values()]))


def startup_mode():
    """'unconditional' | 'conditional': how Scheduler.run_scheduler makes its start-up publication."""
    from cylc.flow.scheduler import Scheduler
    src = inspect.getsource(Scheduler.run_scheduler)
    if re.search(r'publish_queue\.put\(\s*self\.data_store_mgr\.publish_deltas\s*\)', src):
        return 'unconditional'
    if re.search(r'self\._publish_deltas\(\)', src):
        return 'conditional'
    raise ValueError('Scheduler.run_scheduler: start-up publication not recognised')


class Client:
    """A subscriber: real apply_delta on its own store."""

    def __init__(self):
        self.data = deepcopy(DATA_TEMPLATE)

    def apply(self, key, delta):
        if delta.reloaded:
            self.data[key] = deepcopy(DATA_TEMPLATE[key])
        apply_delta(key, delta, self.data)


def _proj_store_tp(tp):
    """What the property compares, read off a PbTaskProxy of the store."""
    pre = []
    for p in tp.prerequisites:
        pre.append({'sat': bool(p.satisfied),
                    'conds': sorted([c.task_proxy, c.req_state, bool(c.satisfied)] for c in p.conditions)})
    pre.sort(key=lambda a: json.dumps(a, sort_keys=True))
    return {
        'st': tp.state if tp.HasField('state') else None,
        'held': bool(tp.is_held), 'q': bool(tp.is_queued), 'rh': bool(tp.is_runahead),
        'fl': sorted(deserialise_set(tp.flow_nums)) if tp.HasField('flow_nums') else None,
        'out': sorted(k for k, o in tp.outputs.items() if o.satisfied),
        'outs': sorted(tp.outputs),
        'pre': pre,
    }


def _proj_pool_task(itask):
    pre = []
    for p in itask.state.prerequisites:
        if not p._satisfied:
            continue        # a prerequisite without atoms has no representation in the store (api_dump)
        pre.append({'sat': bool(p.is_satisfied()),
                    'conds': sorted([k.get_id(), k.output, bool(v)] for k, v in p.items())})
    pre.sort(key=lambda a: json.dumps(a, sort_keys=True))
    return {
        'st': itask.state.status,
        'held': bool(itask.state.is_held), 'q': bool(itask.state.is_queued), 'rh': bool(itask.state.is_runahead),
        'fl': sorted(itask.flow_nums),
        'out': sorted(t for t, _m, done in itask.state.outputs if done),
        'outs': sorted(t for t, _m, _d in itask.state.outputs),
        'pre': pre,
    }


class DsObs:
    def __init__(self, run):
        self.run = run
        self.pub = []            # batches published during the current op
        self.upd = []            # pool / store snapshots after each update_data_structure of the current op
        self.ev = []             # call-site conditions of recorded findings met during the current op: [key, id]
        self.fresh = False
        self.client = None
        self.last_store = None
        self.last_client = None
        self.cur_store = None

    # -- hooks -------------------------------------------------------------
    def pre_start(self, schd):
        """Before Scheduler.start(): the publish queue is wrapped as soon as the server object exists."""
        obs = self
        orig_init = schd.initialise

        async def initialise():
            ret = await orig_init()
            q = schd.server.publish_queue
            orig_put = q.put

            def put(item, *a, **k):
                try:
                    obs.feed(item)
                except Exception:        # pragma: no cover - reported through the observation
                    import traceback
                    obs.error = traceback.format_exc()[-800:]
                return orig_put(item, *a, **k)
            q.put = put
            return ret
        schd.initialise = initialise
        self.client = Client()
        self.fresh = True
        self.last_store = self.last_client = None

    def post_start(self, schd):
        """After Scheduler.start(): what run_scheduler does before its first main loop (the in-process runner does
        not execute run_scheduler).  Which of the two forms the code under test has is read off its source:
        `self.server.publish_queue.put(self.data_store_mgr.publish_deltas)` (unconditional, publish_pending stays
        up) or `self._publish_deltas()` (only when a batch is pending)."""
        mode = startup_mode()
        if mode == 'conditional':
            before = len(self.pub)
            schd._publish_deltas()              # goes through the wrapped queue
            for b in self.pub[before:]:
                b['src'] = 'startup'
        else:
            self.feed(schd.data_store_mgr.publish_deltas, src='startup')
        dsm = schd.data_store_mgr
        obs = self
        orig = dsm.update_data_structure

        def update_data_structure(*a, **k):
            ret = orig(*a, **k)
            try:
                obs.upd.append(obs.snapshot())
            except Exception:            # pragma: no cover
                import traceback
                obs.error = traceback.format_exc()[-800:]
            return ret
        dsm.update_data_structure = update_data_structure
        self._watch_findings(schd)

    def _watch_findings(self, schd):
        """Record WHEN the exact call-site condition of a recorded finding is met (observation key 'ev'); nothing is
        changed.  The judge files a pool / store difference of a task under a finding only after such an event.

        remove-flow-stale      delta_remove_task_flow_nums(task, ..) while a flow_nums delta of that task is pending that
                               differs from the store (the method starts from the store value)
        set-pre-no-delta       `cylc set --pre` forced prerequisites of a POOLED proxy and the command ended without a
                               delta_task_prerequisite for it
        unpooled-object-deltas a delta_* method was handed a TaskProxy object that is not the pool's object of that id
                               while the pool holds another one (findings/C28.json: unpooled-object-triggered)
        """
        obs, dsm, pool = self, schd.data_store_mgr, schd.pool

        def rel(itask):
            return f'{int(itask.point)}/{itask.tdef.name}'

        orig_rm = dsm.delta_remove_task_flow_nums

        def delta_remove_task_flow_nums(task, removed, *a, **k):
            try:
                from cylc.flow.id import Tokens
                tp_id = Tokens(task, relative=True).duplicate(**dsm.id_).id
                node = dsm.data[dsm.workflow_id][TASK_PROXIES].get(tp_id)
                pend = dsm.updated[TASK_PROXIES].get(tp_id)
                if (node is not None and pend is not None and pend.HasField('flow_nums')
                        and pend.flow_nums != node.flow_nums):
                    tok = Tokens(task, relative=True)
                    obs.ev.append(['remove-flow-stale', f"{int(tok['cycle'])}/{tok['task']}"])
            except Exception:
                pass
            return orig_rm(task, removed, *a, **k)
        dsm.delta_remove_task_flow_nums = delta_remove_task_flow_nums

        # deltas computed from an object that is not the pooled one
        def watch(name):
            orig = getattr(dsm, name)

            def wrapped(itask, *a, **k):
                try:
                    cur = pool._get_task_by_id(itask.identity)
                    if cur is not None and cur is not itask:
                        obs.ev.append(['unpooled-object-deltas', rel(itask)])
                    obs.pre_calls.append(id(itask)) if name == 'delta_task_prerequisite' else None
                except Exception:
                    pass
                return orig(itask, *a, **k)
            setattr(dsm, name, wrapped)
        self.pre_calls = []
        for name in ('delta_task_state', 'delta_task_prerequisite', 'delta_task_outputs', 'delta_task_flow_nums',
                     'delta_from_task_proxy'):
            watch(name)
        orig_out = dsm.delta_task_output

        def delta_task_output(itask, message, *a, **k):
            try:
                cur = pool._get_task_by_id(itask.identity)
                if cur is not None and cur is not itask:
                    obs.ev.append(['unpooled-object-deltas', rel(itask)])
            except Exception:
                pass
            return orig_out(itask, message, *a, **k)
        dsm.delta_task_output = delta_task_output

        # cylc set --pre on pooled proxies
        orig_set, orig_spi = pool.set_prereqs_and_outputs, pool._set_prereqs_itask

        def _set_prereqs_itask(itask, *a, **k):
            ret = orig_spi(itask, *a, **k)
            try:
                if pool._get_task_by_id(itask.identity) is itask:
                    obs.set_pre.append((itask, len(obs.pre_calls)))
            except Exception:
                pass
            return ret

        def set_prereqs_and_outputs(*a, **k):
            obs.set_pre = []
            try:
                return orig_set(*a, **k)
            finally:
                for itask, mark in obs.set_pre:
                    if id(itask) not in obs.pre_calls[mark:]:
                        obs.ev.append(['set-pre-no-delta', rel(itask)])
                obs.set_pre = []
        self.set_pre = []
        pool._set_prereqs_itask = _set_prereqs_itask
        pool.set_prereqs_and_outputs = set_prereqs_and_outputs

    # -- capture --------------------------------------------------------------
    def feed(self, articles, src='queue'):
        batch = []
        for topic, delta, _ser in articles:
            key = topic.decode()
            if key == ALL_DELTAS:
                continue
            # canonical form FIRST: applying a delta may change it (apply_delta stores the `added` elements
            # themselves and merges later updates into them)
            cd = canon_delta(key, delta)
            self.client.apply(key, deepcopy(delta))
            # the checksum a subscriber computes over its own store after applying this delta
            cd['client_checksum'] = store_checksum(key, self.client.data) if key != WORKFLOW else None
            batch.append(cd)
        self.pub.append({'src': src, 'deltas': batch})

    def snapshot(self):
        schd = self.run.schd
        dsm = schd.data_store_mgr
        tps = dsm.data[dsm.workflow_id][TASK_PROXIES]
        tdefs = dsm.data[dsm.workflow_id][TASKS]
        rows = []
        for itask in schd.pool.get_tasks():
            tp_id = dsm.id_.duplicate(itask.tokens).id
            tp = tps.get(tp_id)
            rows.append({
                'id': f'{int(itask.point)}/{itask.tdef.name}',
                'pool': _proj_pool_task(itask),
                'store': None if tp is None else _proj_store_tp(tp),
                # is the task DEFINITION element of this task in the store
                'def': dsm.definition_id(itask.tdef.name) in tdefs,
            })
        rows.sort(key=lambda r: r['id'])
        return rows

    def observe(self):
        schd = self.run.schd
        dsm = schd.data_store_mgr
        # dumped only when changed since the previous observation (null = unchanged); the change test is a
        # fingerprint over the serialised elements (cheap), the dump itself is the canonical JSON
        fp_s = fingerprint(dsm.data[dsm.workflow_id])
        fp_c = fingerprint(self.client.data)
        store = client = None
        if self.fresh or fp_s != self.last_store:
            store = canon_store(dsm.data[dsm.workflow_id])
        if self.fresh or fp_c != self.last_client:
            client = canon_store(self.client.data)
            if client == (store if store is not None else self.cur_store):
                client = 'same'         # = the scheduler's store of this observation
        if store is not None:
            self.cur_store = store
        out = {
            'fresh': self.fresh,
            'pub': self.pub,
            'upd': self.upd,
            'ev': self.ev,
            'store': store,
            'client': client,
            'pending': bool(dsm.publish_pending),
            'error': self.__dict__.pop('error', None),
        }
        self.last_store, self.last_client = fp_s, fp_c
        self.pub, self.upd, self.ev, self.fresh = [], [], [], False
        self.pre_calls = []
        return out
