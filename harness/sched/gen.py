"""Seeded generator of small cycling workflows (integer cycling) + outcome policies.

A workflow is generated as an abstract spec (tasks, sections, dependency
expressions over triggers) and rendered to flow.cylc text.  Same-cycle triggers
only point from lower to higher task index, so every graph is acyclic.
"""
from __future__ import annotations

import random

NAMES = ['a', 'b', 'c', 'd', 'e', 'f', 'g']


def render_trigger(t, prof):
    s = t['t']
    off = t.get('off')
    if off is not None:
        s += f'[{off}]'
    out = t['out']
    p = prof[t['t']]
    if out == 'succeeded':
        if p['opt_fail']:
            s += '?'
    elif out == 'failed':
        s += ':fail?'
    elif out == 'started':
        s += ':start'
    elif out == 'submitted':
        s += ':submit'
    else:
        s += ':' + out + ('?' if out in p['opt_custom'] else '')
    return s


def render_expr(e, prof):
    if e[0] == 'atom':
        return render_trigger(e[1], prof)
    l, r = render_expr(e[1], prof), render_expr(e[2], prof)
    op = ' & ' if e[0] == 'and' else ' | '
    if e[0] == 'and':
        if e[1][0] == 'or':
            l = f'({l})'
        if e[2][0] == 'or':
            r = f'({r})'
    return l + op + r


def gen_expr(rng, atoms):
    """Random and/or tree using every atom exactly once (a repeated trigger in one
    expression hits a separate cylc defect, see findings/C13)."""
    if len(atoms) == 1:
        return ['atom', atoms[0]]
    k = rng.randint(1, len(atoms) - 1)
    return [rng.choice(['and', 'or']), gen_expr(rng, atoms[:k]), gen_expr(rng, atoms[k:])]


def gen_workflow(rng: random.Random, opts=None):
    opts = opts or {}
    n = rng.randint(2, opts.get('max_tasks', 6))
    names = NAMES[:n]
    prof = {}
    for t in names:
        custom = []
        if rng.random() < opts.get('p_custom', 0.35):
            custom = ['x'] if rng.random() < 0.7 else ['x', 'y']
        prof[t] = {
            'opt_fail': rng.random() < opts.get('p_optfail', 0.3),
            'custom': custom,
            'opt_custom': [c for c in custom if rng.random() < 0.4],
            # (C03Q, additive: options exec_retry_choices / sub_retry_choices = the numbers to draw from; same draws)
            'exec_retries': rng.choice(opts.get('exec_retry_choices') or [0, 0, 0, 1, 2]) if opts.get('retries', True) else 0,
            'sub_retries': rng.choice(opts.get('sub_retry_choices') or [0, 0, 0, 1]) if opts.get('retries', True) else 0,
        }
    # C46 (additive): option icp_choices = other initial points (e.g. 8, so that the cycle points cross 9 -> 10
    # and compare differently as strings and as numbers); default: the old list, same single draw
    icp = rng.choice(opts.get('icp_choices') or [1, 1, 3])
    fcp = icp + rng.randint(1, opts.get('max_span', 4))
    offs = ['-P1', '-P1', '-P2'] if icp >= 3 else ['-P1']
    if opts.get('offsets') and icp >= 3:
        # C46 (additive): option offsets = the inter-cycle offsets on offer (longer than one step, e.g. -P2, -P3)
        offs = list(opts['offsets'])

    def rhs_text(t):
        return t + ('?' if prof[t]['opt_fail'] else '')
    sections = {}
    rec_choices = ['P1', 'P1', 'P1', 'R1', 'P2', '+P1/P2', 'R1/$', 'R1/+P1']
    recs = ['P1'] if rng.random() < 0.5 else sorted({rng.choice(rec_choices) for _ in range(rng.randint(1, 3))})
    used = set()
    for rec in recs:
        lines = []
        for _ in range(rng.randint(1, max(1, n))):
            j = rng.randrange(n)
            rhs = names[j]
            # candidate triggers: same-cycle from lower index, inter-cycle from anyone
            cands = []
            for i, t in enumerate(names):
                outs = ['succeeded', 'succeeded']
                if prof[t]['opt_fail']:
                    outs.append('failed')
                outs += prof[t]['custom']
                if rng.random() < 0.2:
                    outs.append('started')
                for out in outs:
                    if i < j:
                        cands.append({'t': t, 'out': out})
                        if rec not in ('R1', 'R1/$', 'R1/+P1') and rng.random() < opts.get('p_abs', 0.08):
                            # C45 (additive): option abs_forms = other spellings of an absolute trigger
                            # ('^+P1', 'icp+1' -> the literal point); default: '^' only, no extra draw
                            # (only in a workflow whose single recurrence is P1, see the runahead note below)
                            form = rng.choice(opts['abs_forms']) if opts.get('abs_forms') and recs == ['P1'] else '^'
                            cands.append({'t': t, 'out': out, 'off': str(icp + 1) if form == 'icp+1' else form})
                    if rec not in ('R1', 'R1/$', 'R1/+P1') and rng.random() < opts.get('p_intercycle', 0.35):
                        cands.append({'t': t, 'out': out, 'off': rng.choice(offs)})
                    if opts.get('p_future') and rng.random() < opts['p_future']:
                        # C04F / C07F (additive, only with option p_future; no draw otherwise): FUTURE triggers
                        # 'foo[+P1] => bar' from any task (also bar itself) in any section, one-off ones included
                        # (at the final cycle point they refer beyond the final point)
                        cands.append({'t': t, 'out': out, 'off': rng.choice(['+P1', '+P1', '+P2'])})
                    if opts.get('p_future_icp') and rng.random() < opts['p_future_icp']:
                        # C04F (additive, only with option p_future_icp; no draw otherwise): future triggers written
                        # relative to the INITIAL cycle point, 'foo[^+P2] => bar' (for bar before cycle icp+2 a future
                        # prerequisite offset that shrinks with the cycle), in any section, mixed with the others
                        cands.append({'t': t, 'out': out, 'off': rng.choice(['^+P1', '^+P2', '^+P2', '^+P3'])})
            if not cands or rng.random() < 0.15:
                lines.append(rhs_text(rhs))      # lone node
                used.add(rhs)
                continue
            picks = []
            for c in rng.sample(cands, min(len(cands), rng.randint(1, 3))):
                if c not in picks:
                    picks.append(c)
            expr = gen_expr(rng, picks)
            lines.append(render_expr(expr, prof) + ' => ' + rhs_text(rhs))
            used.add(rhs)
            fails = [c for c in cands if c['out'] == 'failed' and c.get('off') is None]
            if fails and not prof[rhs]['opt_fail'] and rng.random() < opts.get('p_suicide', 0.25):
                lines.append(render_trigger(fails[0], prof) + ' => !' + rhs)
            for pk in picks:
                used.add(pk['t'])
                if pk.get('off') and rhs_text(pk['t']) not in lines:
                    # a task used in an offset trigger must itself be on a sequence
                    lines.append(rhs_text(pk['t']))
        sections[rec] = lines
    if opts.get('p_future_icp'):
        # C04F (additive): the parent of an ICP-relative future trigger must exist at that later cycle: it is put on P1
        import re as _re
        for par in sorted({m for lines in sections.values() for ln in lines
                           for m in _re.findall(r'(?<![\w:])([a-g])\[\^\+P\d\]', ln)}):
            if 'P1' not in sections:
                sections['P1'] = []
                recs = sorted(set(recs) | {'P1'})
            if rhs_text(par) not in sections['P1']:
                sections['P1'].append(rhs_text(par))
    # every task mentioned must be placed on some sequence: add lone nodes for trigger-only tasks
    first = recs[0]
    mentioned = set()
    for rec, lines in sections.items():
        for ln in lines:
            for t in names:
                if any(tok.split('[')[0].split(':')[0].rstrip('?') == t for tok in ln.replace('(', ' ').replace(')', ' ').split()):
                    mentioned.add(t)
    if opts.get('p_multirec') and rng.random() < opts['p_multirec']:
        # C01 (additive, no random draw unless the option is set): one parentless task `m` on two recurrences whose
        # points interleave (different step or phase), optionally with one child per recurrence; the cycle range is
        # widened so that a successor of an instance lies on the other recurrence
        ra, rb = rng.choice([('P2', '+P1/P2'), ('P2', 'P3'), ('P3', '+P1/P3'), ('+P1/P2', 'P3'), ('P2', '+P2/P3')])
        with_kids = rng.random() < 0.5
        for r, kid in ((ra, 'ma'), (rb, 'mb')):
            if r not in sections:
                sections[r] = []
                recs = sorted(set(recs) | {r})
            sections[r].append(f'm => {kid}' if with_kids else 'm')
        if fcp - icp < 4:
            fcp = icp + rng.randint(4, 6)
    if opts.get('p_boundrec') and rng.random() < opts['p_boundrec']:
        # C01 (additive, no random draw unless the option is set): a task `rb` on a long recurrence (P1, trigger
        # `ra => rb`) and also on a bounded stepped recurrence (Rn/<icp or icp+1>/Pk, trigger `rc => rb`): beyond the
        # bounds of the short recurrence `rb` must not depend on `rc`
        short = f"R{rng.choice([2, 2, 3])}/{rng.choice([icp, icp, icp + 1])}/P{rng.choice([1, 1, 2])}"
        for r, line in (('P1', 'ra => rb'), (short, 'rc => rb')):
            if r not in sections:
                sections[r] = []
                recs = sorted(set(recs) | {r})
            sections[r].append(line)
        if fcp - icp < 3:
            fcp = icp + rng.randint(3, 5)
    graph_txt = ''
    for rec in recs:
        body = '\n'.join('            ' + ln for ln in sections[rec])
        graph_txt += f'        {rec} = """\n{body}\n        """\n'
    runtime = ''
    for t in sorted(mentioned):
        body = ''
        if prof[t]['exec_retries']:
            body += f"        execution retry delays = {prof[t]['exec_retries']}*PT0S\n"
        if prof[t]['sub_retries']:
            body += f"        submission retry delays = {prof[t]['sub_retries']}*PT0S\n"
        if prof[t]['custom']:
            outs = '\n'.join(f'            {c} = {c}{c}' for c in prof[t]['custom'])
            body += f'        [[[outputs]]]\n{outs}\n'
        if body:
            runtime += f'    [[{t}]]\n{body}'
    runahead = rng.choice([0, 1, 1, 2, 3])
    future_abs = bool(opts.get('abs_forms')) and ('[^+' in graph_txt or f'[{icp + 1}]' in graph_txt)
    if future_abs:
        # C45 (additive, only with option abs_forms): 'foo[^+P1] => bar' gives bar a future prerequisite offset
        # at the initial point; the future-offset extension of the runahead limit and the "prerequisite beyond
        # the stop point" rule of spawn_task are outside Sched v1, so: every point is a sequence point (P1 only),
        # the limit is wide enough never to bind, and no early stop point is configured
        runahead = max(runahead, fcp - icp)
    special = ''
    seq_tasks = [t for t in sorted(mentioned) if rng.random() < opts.get('p_sequential', 0.12)]
    if seq_tasks:
        special = '    [[special tasks]]\n        sequential = ' + ', '.join(seq_tasks) + '\n'
    if seq_tasks and opts.get('p_seqfam') and rng.random() < opts['p_seqfam']:
        # C31 (additive, no random draw unless the option is set): the tasks are declared sequential through a FAMILY
        # name; each of them inherits the family SEQ as first, second or only parent (multiple inheritance with BATCH)
        special = '    [[special tasks]]\n        sequential = SEQ\n'
        fam_txt = '    [[BATCH]]\n    [[SEQ]]\n'
        for t in seq_tasks:
            inh = rng.choice(['BATCH, SEQ', 'BATCH, SEQ', 'SEQ, BATCH', 'SEQ'])
            head = f'    [[{t}]]\n'
            line = f'        inherit = {inh}\n'
            if head in runtime:
                runtime = runtime.replace(head, head + line, 1)
            else:
                runtime += head + line
        runtime = fam_txt + runtime
    stop_line = ''
    if fcp - icp >= 2 and rng.random() < opts.get('p_stop', 0.15):
        stop_line = f'    stop after cycle point = {rng.randint(icp, fcp - 1)}\n'
    if future_abs:
        stop_line = ''
    run_opts = {}
    if fcp - icp >= 2 and rng.random() < opts.get('p_startcp', 0.15):
        run_opts['startcp'] = str(rng.randint(icp + 1, fcp - 1))
    queues_txt = ''
    if opts.get('queues'):
        # C05S (additive, only with option queues; drawn after everything else): internal queues with limits 1-3
        # and overlapping memberships (a task listed by several queues belongs to the last one), sometimes a
        # limit on the default queue
        qlines = []
        if rng.random() < opts.get('p_default_limit', 0.4):
            qlines.append(f'        [[[default]]]\n            limit = '
                          f'{rng.choice(opts.get("default_queue_limits") or [1, 2, 3])}\n')
        pool_names = sorted(mentioned)
        for qi in range(rng.randint(1, 3)):
            mem = rng.sample(pool_names, rng.randint(1, len(pool_names)))
            # (C03Q, additive: option queue_limits / default_queue_limits = the limits to draw from; same draws)
            qlines.append(f'        [[[q{qi}]]]\n            limit = {rng.choice(opts.get("queue_limits") or [1, 1, 2, 3])}\n'
                          f'            members = {", ".join(mem)}\n')
        queues_txt = '    [[queues]]\n' + ''.join(qlines)
        # a wider runahead window: several cycles compete for the same queue
        runahead = max(runahead, rng.choice([1, 2, 3, 4]))
    if opts.get('p_start_hold'):
        # C06 (additive, only with option p_start_hold; drawn last): a hold point given at start-up
        # (`cylc play --hold-after=N`, run option holdcp; the runner does not repeat it on restarts)
        if rng.random() < opts['p_start_hold']:
            run_opts['holdcp'] = str(rng.randint(icp, max(icp, fcp - 1)))
    flow = f'''[scheduler]
    allow implicit tasks = True
[scheduling]
    cycling mode = integer
    initial cycle point = {icp}
    final cycle point = {fcp}
    runahead limit = P{runahead}
{stop_line}{special}{queues_txt}    [[graph]]
{graph_txt}[runtime]
    [[root]]
        [[[simulation]]]
            default run length = PT0S
{runtime}'''
    return {'flow': flow, 'prof': prof, 'tasks': sorted(mentioned), 'icp': icp, 'fcp': fcp, 'runahead': runahead,
            'opts': run_opts,
            # additive (C27, read only by genreload.py): the abstract spec the text was rendered from
            'spec': {'names': names, 'recs': recs, 'sections': sections, 'seq_tasks': seq_tasks,
                     'stop_line': stop_line, 'offs': offs}}


def gen_policy(rng, wf, kind='complete', opts=None):
    """kind 'complete': every finished task completes its required outputs;
    'any': failures / missing outputs allowed (stalls, incomplete tasks)."""
    outcomes = {}
    for t in wf['tasks']:
        p = wf['prof'][t]
        oc = {'custom': [c + c for c in p['custom']], 'p_custom': 1.0, 'p_fail': 0.0,
              'exec_retries': p['exec_retries'], 'sub_retries': p['sub_retries'],
              'p_retry_fail': 0.6}
        if kind in ('complete', 'cmd', 'cmdtrigc', 'set', 'cmdrmc', 'cmdrmr', 'cmdrmf', 'cmdrl', 'qc', 'cmdqc', 'cmdqtc', 'crash', 'cmdcrash', 'fut'):   # ('fut': C04F/C07F, 'cmdtrigc': C28, 'set': C29/C08S, 'cmdrm*': C30, 'cmdrl': C27, additive)
            if p['opt_fail']:
                oc['p_fail'] = 0.4
            # optional custom outputs may be skipped; required ones are always produced
            # (succeeded requires the required custom outputs, failure excuses them only if optional)
            if p['opt_fail'] and any(c not in p['opt_custom'] for c in p['custom']):
                oc['p_fail'] = 0.0
        else:
            oc['p_fail'] = rng.choice([0.0, 0.3, 0.6])
            oc['p_custom'] = rng.choice([1.0, 0.5])
            oc['p_submit_fail'] = rng.choice([0.0, 0.0, 0.2])
        outcomes[t] = oc
    extra = {}
    if kind.startswith('cmd'):
        extra = {'cmds': ['hold', 'release', 'hold', 'release', 'set_hold_point', 'release_hold_point',
                          'stop_point', 'stop_task', 'stop_clean', 'stop_now', 'pause', 'resume'],
                 'p_cmd': 0.12, 'restarts': rng.choice([0, 1, 2])}
    pol = {
        **extra,
        'max_steps': 260,
        'p_msg': rng.choice([0.4, 0.6, 0.8]),
        'p_noise': 0.0 if kind == 'complete' else rng.choice([0.0, 0.15]),
        'outcomes': outcomes,
    }
    opts = opts or {}
    if opts.get('polls'):
        # C09/C10: the polls the scheduler requests are answered, routine polls happen, and (poll_late)
        # a poll result may be overtaken by job messages.  Drawn after all other choices.
        pol['p_poll'] = rng.choice([0.3, 0.6, 0.9])
        pol['p_spoll'] = rng.choice([0.0, 0.05, 0.15])
        pol['poll_late'] = rng.random() < opts.get('p_poll_late', 0.0)
    if opts.get('fail_signals'):
        pol['fail_signals'] = True
    if opts.get('silent_kill'):
        pol['silent_kill'] = True
    if opts.get('p_lose'):
        pol['p_lose'] = opts['p_lose']
    if opts.get('p_vacate'):
        pol['p_vacate'] = opts['p_vacate']
    if opts.get('noise') is not None and kind != 'complete':
        pol['p_noise'] = opts['noise']
    if opts.get('prep_fail') is not None and kind != 'complete':
        # C02 (additive, no random draw): job-file preparation fails for some submissions (runner: p_prep_fail)
        pol['p_prep_fail'] = opts['prep_fail']
    if opts.get('late') is not None and kind != 'complete':
        # C02 (additive, no random draw): late duplicates of the last message of finished jobs
        pol['p_late'] = opts['late']
    if kind.startswith('cmd'):
        # C06 (additive, default = the values above): another command mix / rate / number of restarts;
        # applied after all draws, so the random sequence of a case is unchanged
        for key in ('cmds', 'p_cmd', 'p_hold_queued'):
            if opts.get(key) is not None:
                pol[key] = opts[key]
        if opts.get('restarts') is not None:
            choices = list(opts['restarts'])
            pol['restarts'] = choices[pol['restarts'] % len(choices)]
    if kind in ('qf', 'cmdqf'):
        # C03Q (additive; new kinds, applied after all draws): every task may fail / skip custom outputs, so that
        # finished-but-incomplete tasks stay in the pool while other members of their queue are queued
        for oc in outcomes.values():
            oc['p_fail'] = max(oc['p_fail'], 0.3)
    if kind in ('cmdq', 'cmdqc', 'cmdqf'):
        # C05S (additive; applied after all draws): holds / releases (often of a task that sits in a queue), hold
        # point, pause, stop + restart over workflows with limited queues ('cmdqc': complete outcomes)
        pol['cmds'] = ['hold', 'release', 'hold', 'release', 'hold', 'release', 'set_hold_point', 'release_hold_point',
                       'stop_point', 'stop_clean', 'stop_now', 'pause', 'resume']
        pol['p_cmd'] = {0.4: 0.1, 0.6: 0.16, 0.8: 0.22}.get(pol.get('p_msg'), 0.16)
        pol['p_hold_queued'] = 0.6
    if kind in ('qr', 'cmdqtr'):
        # C03Q (additive; new kinds, applied after all draws): retry delays that are not over at once - the runner keeps
        # a virtual clock for the retry timers (policy vclock) that only the op 'tick' advances (p_tick: chance of a
        # tick per op while some task waits for its retry delay); every task may fail for good as well, so that
        # finished-but-incomplete tasks share the pool with tasks waiting for a retry.  'cmdqtr': with manual
        # triggers, and the prepared jobs go through the real submit_livelike_task_jobs (policy live_submit)
        for oc in outcomes.values():
            oc['p_fail'] = max(oc['p_fail'], 0.3)
            oc['p_retry_fail'] = 0.75
        pol['vclock'] = True
        pol['p_tick'] = 0.2
        pol['live_submit'] = True
    if kind in ('cmdqt', 'cmdqtc', 'cmdqtr'):
        # C05S (additive; new kinds, applied after all draws): manual triggers against the queue limits - `cylc trigger`
        # of several pooled members of one limited queue at once, of queued tasks, of members of a free queue while
        # another queue is full (policy command 'trigger_q') - mixed with holds / releases and pause / resume (so that
        # ready tasks pile up unqueued or queued); no stop, no restart ('cmdqtc': complete outcomes)
        pol['cmds'] = ['trigger_q', 'trigger_q', 'trigger_q', 'hold', 'release', 'trigger_q', 'pause', 'resume',
                       'trigger_q', 'set_hold_point', 'release_hold_point', 'trigger_q']
        pol['p_cmd'] = {0.4: 0.12, 0.6: 0.18, 0.8: 0.25}.get(pol.get('p_msg'), 0.18)
        pol['p_hold_queued'] = 0.3
        pol['restarts'] = 0
    if kind in ('cmdtrig', 'cmdtrigc'):
        # C28 (additive; applied after all draws): group triggers mixed with holds / pause; no restarts;
        # the task_states / task_outputs tables are part of the observation ('cmdtrigc': complete outcomes)
        pol['cmds'] = ['trigger', 'trigger', 'trigger', 'trigger', 'hold', 'release', 'set_hold_point',
                       'release_hold_point', 'pause', 'resume', 'trigger', 'trigger', 'hold_member', 'hold_member']
        pol['p_trig_held'] = 0.4      # groups built around a member held while outside the pool
        pol['p_cmd'] = 0.1
        pol['restarts'] = 0
        pol['obs_db'] = True
    if kind == 'cmdrmf':
        # C30 (additive; applied after all draws): multi-flow HISTORIES -- finished tasks are run again in a new flow
        # ('retrig_done'), so that their children are spawned again while the rows of the earlier flow are in the DB;
        # then a parent that satisfied a waiting child is removed ('remove_parent'); pauses keep children waiting
        pol['cmds'] = ['retrig_done', 'retrig_done', 'remove_parent', 'remove_parent', 'pause', 'retrig_done',
                       'remove_parent', 'resume', 'remove', 'hold', 'release', 'remove_parent', 'retrig_done', 'pause']
        pol['p_cmd'] = 0.25
        pol['restarts'] = 0
        pol['obs_db'] = True
    if kind in ('cmdrm', 'cmdrmc', 'cmdrmr'):
        # C30 (additive; applied after all draws): `cylc remove` (with / without --flow) mixed with group triggers
        # (--flow=new / N: several flows in the pool) and holds / pause; the task_states / task_outputs tables are
        # part of the observation.  'cmdrm': any outcomes, 'cmdrmc': complete outcomes, both without restarts;
        # 'cmdrmr': complete outcomes, removals without triggers, with stop + restart
        pol['cmds'] = ['remove', 'remove', 'remove', 'trigger', 'trigger', 'remove', 'hold', 'release', 'remove',
                       'set_hold_point', 'release_hold_point', 'pause', 'resume', 'remove', 'trigger', 'remove']
        pol['p_cmd'] = [0.1, 0.16, 0.22][seed_mod3(pol)]
        pol['restarts'] = 0
        pol['obs_db'] = True
        if kind == 'cmdrmr':
            pol['cmds'] = ['remove', 'remove', 'remove', 'hold', 'release', 'remove', 'stop_clean', 'stop_now',
                           'pause', 'resume', 'remove', 'remove']
            pol['restarts'] = 2
    if kind.startswith('set'):
        # C29 / C08S (additive; new kinds, drawn after everything else): `cylc set` of outputs / prerequisites with
        # --flow / --wait on pooled and future instances, mixed with holds, stop + restart
        # ('set': complete outcomes, 'setany': failures / noise as in 'any')
        pol['cmds'] = ['set_out', 'set_out', 'set_out', 'set_pre', 'set_pre', 'set_out', 'set_pre', 'hold', 'release',
                       'set_hold_point', 'release_hold_point', 'stop_clean', 'stop_now', 'pause', 'resume']
        pol['p_cmd'] = rng.choice([0.1, 0.18, 0.25])
        pol['restarts'] = rng.choice([0, 0, 1, 2])
    if kind in ('cmdrl', 'cmdrla'):
        # C27 (additive; applied after all draws): `cylc reload` of unchanged / extended / shrunk / broken definitions
        # (the variants of the case, see genreload.py) mixed with holds, pause, stop points and stop + restart;
        # 'cmdrl': complete outcomes, 'cmdrla': failures / noise as in 'any'.  opts['reload_cmds'] / ['p_reload']
        # override the command mix / rate (e.g. a reload at nearly every main loop in the thorough tier)
        pol['cmds'] = (opts or {}).get('reload_cmds') or [
            'reload', 'reload', 'reload', 'reload', 'hold', 'release', 'reload', 'set_hold_point',
            'release_hold_point', 'reload', 'pause', 'resume', 'reload', 'stop_point', 'stop_clean', 'stop_now',
            'stop_point', 'pause', 'stop_task',
            'rl_remove', 'rl_set_custom', 'rl_remove', 'rl_set_custom', 'rl_remove']
        pol['p_cmd'] = (opts or {}).get('p_reload') or {0.4: 0.12, 0.6: 0.2, 0.8: 0.3}.get(pol.get('p_msg'), 0.2)
        pol['inst_off'] = True          # instance graph also for off-sequence points (see runner.extract_graph)
        # a reload right behind another command (same command batch, no main loop in between), e.g. pause /
        # stop point / hold followed at once by a reload
        pol['p_reload_after_cmd'] = (opts or {}).get('p_reload_after_cmd', 0.4)
        # share of reloads aimed at a definition without a pooled task that has already started
        pol['p_orphan_started'] = (opts or {}).get('p_orphan_started', 0.3)
    if kind in ('crash', 'crashany', 'cmdcrash', 'cmdcrashany'):
        # C20 (additive; new kinds, drawn after everything else): the scheduler is killed 1-4 times per run - between
        # ops (k = -1) or inside a main loop at its k-th database commit boundary, before the transaction (j null) or
        # inside it (after j statements, at the latest right before COMMIT) - and restarted from the database;
        # 'crash': complete outcomes, 'crashany': failures / noise as in 'any'; 'cmdcrash*': with holds, stop
        # point / task, pause and clean stop + restart as well.  opts['crash_loops']: the range of main-loop
        # numbers the kill points are drawn from
        lo, hi = (opts or {}).get('crash_loops') or (1, 16)
        n = rng.choice([1, 2, 2, 3, 4])
        loops = sorted(rng.sample(range(lo, hi + 1), min(n, hi - lo + 1)))
        pol['crash_plan'] = [[L, rng.choice([-1, 0, 0, 0, 1, 1, 1, 2, 2, 3]), rng.choice([None, None, 0, 1, 2, 3, 4, 5, 6, 8])]
                             for L in loops]
        if kind in ('crash', 'cmdcrash'):
            pol['p_noise'] = 0.0        # complete outcomes, no duplicate / stale / out-of-order messages (as 'complete')
        if kind.startswith('cmdcrash'):
            pol['cmds'] = ['hold', 'release', 'hold', 'release', 'set_hold_point', 'release_hold_point',
                           'stop_point', 'stop_task', 'stop_clean', 'stop_now', 'pause', 'resume']
            pol['p_cmd'] = 0.12
    if kind in ('fut', 'futany', 'futcmd'):
        # C04F / C07F (additive; new kinds, drawn after everything else): workflows with future triggers (gen_case sets
        # option p_future); 'fut': complete outcomes, no noise; 'futany': failures / noise as in 'any'; 'futcmd': any
        # outcomes + stop points set by command (often), holds, hold point, pause, stop + restart
        if kind == 'fut':
            pol['p_noise'] = 0.0
        if kind == 'futcmd':
            pol['cmds'] = ['stop_point', 'stop_point', 'stop_point', 'hold', 'release', 'set_hold_point',
                           'release_hold_point', 'stop_point', 'stop_clean', 'stop_now', 'pause', 'resume']
            pol['p_cmd'] = rng.choice([0.08, 0.14, 0.2])
            pol['restarts'] = rng.choice([0, 1, 2])
    return pol


def seed_mod3(pol):
    # C30 (additive, no random draw): a choice among three command rates derived from the drawn message rate
    return {0.4: 0, 0.6: 1, 0.8: 2}.get(pol.get('p_msg'), 1)


def gen_case(seed: int, kind='complete', opts=None):
    if kind.startswith('exp'):
        # C32 (additive): datetime cycling + clock-expire tasks + virtual clock (kinds exp / expany / expcmd / exptrig)
        import gendt
        return gendt.gen_case(seed, kind, opts)
    rng = random.Random(seed)
    if kind in ('qr', 'cmdqtr'):
        # C03Q (additive): queues with limits 1-3, most tasks with execution / submission retries; about half of the
        # retry delays are PT1H instead of PT0S (own random stream below)
        opts = dict({'exec_retry_choices': [0, 1, 1, 2], 'sub_retry_choices': [0, 0, 1], 'p_optfail': 0.15},
                    **(opts or {}), queues=True)
    if kind in ('qc', 'qa', 'cmdq', 'cmdqc', 'cmdqt', 'cmdqtc'):
        # C05S (additive): the queue kinds generate workflows with limited internal queues
        # ('qc' complete outcomes, 'qa' failures / noise, 'cmdq' / 'cmdqc' with holds and stop + restart,
        # 'cmdqt' / 'cmdqtc' with manual triggers)
        opts = dict(opts or {}, queues=True)
    if kind in ('qf', 'cmdqf'):
        # C03Q (additive): queues with limits 1-2, no retries, mostly required success, any outcomes
        # ('qf' intervention-free, 'cmdqf' with holds / pause / stop point / stop + restart as 'cmdq')
        opts = dict({'queue_limits': [1, 1, 2], 'default_queue_limits': [1, 2], 'retries': False, 'p_optfail': 0.12,
                     'p_default_limit': 0.5}, **(opts or {}), queues=True)
    if kind in ('fut', 'futany', 'futcmd'):
        # C04F / C07F (additive): the future-trigger kinds generate workflows with '[+P1]' / '[+P2]' triggers
        opts = dict({'p_future': 0.3, 'p_future_icp': 0.12}, **(opts or {}))
    if kind.startswith('set') and (opts or {}).get('suic'):
        # C29 (additive, option 'suic'): more suicide triggers (`a:fail? => !b` next to `... a ... => b`), and the
        # runner aims `cylc set --pre=all` at instances that have suicide prerequisites
        opts = dict({'p_suicide': 0.6}, **opts)
    wf = gen_workflow(rng, opts)
    case = {'id': f'{kind}{seed}', 'flow': wf['flow'], 'seed': seed, 'opts': wf['opts'],
            'policy': gen_policy(rng, wf, kind, opts), 'ops': None, 'kind': kind}
    if kind.startswith('set') and (opts or {}).get('suic'):
        case['policy']['suic'] = True
    if kind.startswith('set') and (opts or {}).get('nf2'):
        # C29 (additive, option 'nf2'): a `cylc set --out --flow=none` of an instance that is not in the pool is followed
        # (p = 0.6 at the next --out command) by the same outputs on the same instance in a real flow
        case['policy']['nf2'] = True
    if kind.startswith('set') and (opts or {}).get('xtrig'):
        # C29 (additive, option 'xtrig', own random stream so that nothing else of the case changes): long retry
        # delays - a task that fails (or fails to submit) with a retry left keeps waiting on its retry xtrigger
        # `_cylc_retry_<p>_<name>` / `_cylc_submit_retry_<p>_<name>` - and `cylc set --pre=xtrigger/<label> | xtrigger/all`
        # in the command mix
        xr = random.Random(f'xtrig/{seed}')
        lines = []
        for ln in case['flow'].split('\n'):
            if ('execution retry delays' in ln or 'submission retry delays' in ln) and xr.random() < 0.6:
                ln = ln.replace('*PT0S', '*PT1H')
            lines.append(ln)
        case['flow'] = '\n'.join(lines)
        case['policy']['xtrig'] = True
    if kind in ('qr', 'cmdqtr'):
        # C03Q (additive, own random stream): non-zero retry delays
        xr = random.Random(f'c03q-slow/{seed}')
        p_slow = (opts or {}).get('p_slow_retry', 0.55)
        lines = []
        for ln in case['flow'].split('\n'):
            if ('execution retry delays' in ln or 'submission retry delays' in ln) and xr.random() < p_slow:
                ln = ln.replace('*PT0S', '*PT1H')
            lines.append(ln)
        case['flow'] = '\n'.join(lines)
    if kind in ('cmdrl', 'cmdrla'):
        # C27 (additive, drawn after everything else): the definitions the run is reloaded with
        import genreload
        case['variants'] = genreload.gen_variants(rng, wf, opts)
    return case


if __name__ == '__main__':
    import json
    import sys
    kind = sys.argv[3] if len(sys.argv) > 3 else 'complete'
    for s in range(int(sys.argv[1]), int(sys.argv[2])):
        print(json.dumps(gen_case(s, kind)))
