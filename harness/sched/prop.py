"""Base class of the scheduler-level properties: runs generated workflows through the
real Scheduler (harness/sched/runner.py, worker subprocesses) and hands the recorded
(instance graph, op list, observations) to the property's Lean driver (Sched model + judge)."""
from __future__ import annotations

import json
import os
import subprocess
import sys
from pathlib import Path
from typing import Any, List

from core import Infra, Prop, REPO, VERIF

sys.path.insert(0, str(Path(__file__).resolve().parent))
import gen as sgen  # noqa: E402

RUNNER = Path(__file__).resolve().parent / 'runner.py'


def run_workers(cases: List[dict], workers: int = 16, timeout: int = 1500, _retry: bool = True) -> List[dict]:
    """Run cases on `workers` runner processes; results in input order.  A worker process that dies
    (overloaded machine, killed by the timeout) has its unanswered cases re-run once on fewer workers."""
    if not cases:
        return []
    workers = max(1, min(workers, len(cases)))
    chunks = [cases[i::workers] for i in range(workers)]
    env = dict(os.environ, VERIF_REPO=str(REPO), PYTHONHASHSEED='0')
    procs = []
    for ch in chunks:
        p = subprocess.Popen(
            ['timeout', '-k', '10', str(timeout), sys.executable, '-B', str(RUNNER)],
            stdin=subprocess.PIPE, stdout=subprocess.PIPE, stderr=subprocess.PIPE, text=True, env=env)
        procs.append((p, ch))
    # feed all, then collect (inputs are small; outputs are read fully by communicate)
    import threading
    outs = [None] * len(procs)

    errs = [''] * len(procs)

    def comm(k, p, ch):
        outs[k], errs[k] = p.communicate(''.join(json.dumps(c) + '\n' for c in ch))
    threads = [threading.Thread(target=comm, args=(k, p, ch)) for k, (p, ch) in enumerate(procs)]
    for t in threads:
        t.start()
    for t in threads:
        t.join()
    by_id = {}
    lost: List[dict] = []
    why = ''
    for (p, ch), out, err in zip(procs, outs, errs):
        lines = []
        for ln in (out or '').splitlines():
            try:
                lines.append(json.loads(ln))
            except ValueError:
                pass                      # a line cut short by the death of the worker
        fatal = [r for r in lines if 'fatal' in r]
        for r in lines:
            if 'fatal' not in r and 'id' in r:
                by_id[r['id']] = r
        missing = [c for c in ch if c['id'] not in by_id]
        if missing:
            lost += missing
            why = (f'scheduler worker returned {len(lines) - len(fatal)} of {len(ch)} results (rc={p.returncode}): '
                   + (fatal[0]['fatal'][-600:] if fatal else (err or '').strip()[-600:]))
    if lost:
        if not _retry:
            raise Infra(why + f'; missing {[c["id"] for c in lost][:3]}')
        for r in run_workers(lost, max(1, min(4, workers // 4)), timeout, _retry=False):
            by_id[r['id']] = r
    return [by_id[c['id']] for c in cases]


class SchedProp(Prop):
    """inp = a case for the runner: {"id","flow","seed","policy","ops"(None|list),"kind"}."""
    kinds = ('complete', 'any')
    n_quick = 48
    n_thorough = 600
    gen_opts: dict = {}
    workers = 16
    unmodelled = [
        'job submission / platforms / remote init (stub job runner: real prep_submit_task_jobs, launch recorded, '
        'outcome delivered by explicit ops)',
        'the static instance graph (prerequisites, graph children, parentless points) is read off the real '
        'TaskDef/TaskProxy objects and is an input of the model (C13-C16 cover that part)',
        'datetime cycling, xtriggers, clock-expiry, queue limits, several flows, stop points other than the final point',
    ]

    def gen(self, tier, rng):
        n = self.n_quick if tier == 'quick' else self.n_thorough if tier == 'thorough' else self.n_thorough
        base = rng.randrange(1 << 30)
        for k in range(n):
            kind = self.kinds[k % len(self.kinds)]
            yield sgen.gen_case(base + k, kind, self.gen_opts)

    def impl_batch(self, inputs):
        return run_workers(inputs, self.workers)

    def impl(self, inp):
        return self.impl_batch([inp])[0]

    def skip_case(self, inp, raw):
        # a generated flow.cylc that cylc rejects at load time is not a scheduler run
        if 'error' in raw and raw.get('stage') == 'load':
            self.rejected = getattr(self, 'rejected', 0) + 1
            return True
        if 'error' in raw and raw.get('stage') == 'infra':
            # start-up / teardown timeouts of the real scheduler on an overloaded machine: never a verdict
            self.infra = getattr(self, 'infra', 0) + 1
            if self.infra > 25:
                raise Infra(f'{self.infra} scheduler runs hit start-up/teardown timeouts (machine overloaded?): '
                            + raw['error'].strip().splitlines()[-1][:200])
            return True
        return False

    def driver_input(self, inp, raw):
        if 'error' in raw:
            # the real scheduler raised while running: never a behaviour of the model
            return {'crash': raw['error'].strip().splitlines()[-1][:300]}
        return {'graph': raw['graph'], 'ops': raw['ops'], 'kind': inp.get('kind')}

    def driver_obs(self, inp, raw):
        if 'error' in raw:
            return {'crash': raw['error'][-1500:]}
        return raw['obs']

    def replay_input(self, inp, driver_inp):
        if 'crash' in driver_inp:
            return inp
        return self._replay_input(inp, driver_inp)

    def _replay_input(self, inp, driver_inp):
        # exact replay: same flow, the recorded op list
        d = dict(inp)
        d['ops'] = driver_inp['ops']
        return d

    def equal(self, model_out, obs):
        # the model predicts a subset of the observation keys; extra keys are for the judges only
        if not isinstance(model_out, list) or not isinstance(obs, list) or len(model_out) != len(obs):
            return False
        return all(all(m.get(k) == o.get(k) for k in m) for m, o in zip(model_out, obs))

    def classify(self, inp, obs):
        if isinstance(obs, dict):
            return 'crash'
        tags = [inp.get('kind', '?')]
        last = obs[-1]
        tags.append('stop' if last['stop'] else ('stalled' if last['stalled'] else 'cut'))
        n = sum(len(o['launch']) for o in obs)
        tags.append('launch<5' if n < 5 else 'launch<15' if n < 15 else 'launch>=15')
        if any(o['polls'] for o in obs):
            tags.append('polls')
        return '/'.join(tags)
