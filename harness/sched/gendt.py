"""C32 (additive): datetime-cycling variant of the generated workflows with clock-expire tasks and a virtual clock.

A workflow of gen.gen_workflow is re-rendered on the hourly grid  p <-> 2000-01-01T00:00Z + p hours
(P1 -> PT1H, P2 -> PT2H, [-P1] -> [-PT1H], initial / final / stop points -> CCYYMMDDThhmmZ), some of its tasks are
declared `clock-expire` with an offset, and triggers off the `expired` output are added (`t:expire? => u`,
`t[-PT1H]:expire? => u`, `t:expire? => !u`; same-cycle ones only towards a later task name, so the graph stays
acyclic).  The policy gets the virtual-clock settings (start time, tick sizes and rates; see runner_dt.py).

kinds:  exp      complete outcomes, no noise          expany   failures / missing outputs / duplicate + stale messages
        expcmd   + hold / release / hold point / stop point / pause / stop + restart
        exptrig  + `cylc trigger` of single waiting tasks (manual submission), holds, pause, stop + restart
        expq     limited internal queues (limits 1-2, often on the default queue) + `cylc trigger` of waiting tasks that are
                 not queued (a full queue can only queue them: manually triggered AND queued) + holds / pause; most tasks
                 clock-expire                                              [judged on the real trace only: no queue limits
        exprl    `cylc reload` with definitions that differ ONLY in the     in the Sched3Exp model, no reload op]
                 clock-expire declaration (offsets lengthened / shortened / dropped / added; case['variants'], each with
                 its offsets for the judge) + holds / pause
"""
from __future__ import annotations

import random
import re
from datetime import datetime, timedelta, timezone

import gen as sgen

ORIGIN = datetime(2000, 1, 1, tzinfo=timezone.utc)
UNIT = 3600
REC = {'P1': 'PT1H', 'P2': 'PT2H', '+P1/P2': '+PT1H/PT2H', 'R1': 'R1', 'R1/$': 'R1/$', 'R1/+P1': 'R1/+PT1H'}
def iso_seconds(text: str) -> int:
    """Seconds of an ISO8601 duration [-]PnWnDTnHnMnS - the generator's own arithmetic (week = 7 days, day = 86400 s,
    hour = 3600 s, minute = 60 s), exact for the units used here; '' = no offset.  The judge gets these numbers: the
    expiry time it demands is cycle point + this, independent of TaskProxy.get_offset_as_seconds / expire_time."""
    if not text:
        return 0
    m = re.fullmatch(r'(-)?P(?:(\d+)W)?(?:(\d+)D)?(?:T(?:(\d+)H)?(?:(\d+)M)?(?:(\d+)S)?)?', text)
    assert m and text not in ('P', '-P'), text
    w, d, h, mi, sec = (int(x or 0) for x in m.groups()[1:])
    total = ((w * 7 + d) * 24 + h) * 3600 + mi * 60 + sec
    return -total if m.group(1) else total


# clock-expire offsets as written in flow.cylc: sub-day ones, and a day or more (days, weeks, mixed, hours > 24)
_OFFSET_TEXTS = ['', 'PT30M', 'PT1H', 'PT1H', 'PT2H', '-PT1H', 'PT90M', 'PT3H', 'PT0M',
                 'P1D', 'P2D', 'P1DT6H', 'PT36H', 'P1W']
OFFSETS = [(t, iso_seconds(t)) for t in _OFFSET_TEXTS]
BASE_KIND = {'exp': 'complete', 'expany': 'any', 'expcmd': 'cmd', 'exptrig': 'cmd', 'expq': 'cmd', 'exprl': 'cmd'}
JUDGE_ONLY = ('expq', 'exprl')


def p2s(p: int) -> str:
    return (ORIGIN + timedelta(seconds=UNIT * int(p))).strftime('%Y%m%dT%H%MZ')


def clock_expire_decl(exp):
    return ', '.join(f'{t}({o[0]})' if o[0] else t for t, o in sorted(exp.items()))


def reload_variants(rng: random.Random, flow, exp, tasks):
    """Definitions that differ from `flow` only in the clock-expire declaration: [{'tag', 'flow', 'offsets'}]."""
    out = [{'tag': 'same', 'flow': flow, 'offsets': {t: o[1] for t, o in exp.items()}}]
    for k in range(rng.choice([2, 3])):
        new = {}
        for t in tasks:
            cur = exp.get(t)
            r = rng.random()
            if cur is None:
                if r < 0.15:
                    new[t] = rng.choice(OFFSETS)            # newly declared clock-expire
            elif r < 0.12 and len(exp) > 1:
                pass                                        # declaration dropped
            elif r < 0.7:
                # another offset: mostly a longer one (the natural way to stop an impending expiry)
                longer = [o for o in OFFSETS if o[1] > cur[1]]
                new[t] = rng.choice(longer) if longer and rng.random() < 0.7 else rng.choice(OFFSETS)
            else:
                new[t] = cur
        if not new:
            new = dict(exp)
        text = re.sub(r'^        clock-expire = .*$', '        clock-expire = ' + clock_expire_decl(new), flow, flags=re.M)
        out.append({'tag': f'v{k}', 'flow': text, 'offsets': {t: o[1] for t, o in new.items()}})
    return out


def to_datetime(wf, rng: random.Random, opts=None):
    """-> (flow text, run options, {task: expiry offset in seconds})"""
    opts = opts or {}
    spec = wf['spec']
    names, recs = spec['names'], spec['recs']
    tasks = list(wf['tasks'])
    # clock-expire tasks and their offsets
    exp = {}
    for t in tasks:
        if rng.random() < opts.get('p_expire', 0.5):
            exp[t] = rng.choice(OFFSETS)
    if not exp:
        exp[rng.choice(tasks)] = rng.choice(OFFSETS)
    # triggers off the expired output
    extra = {rec: [] for rec in recs}
    for t in sorted(exp):
        i = names.index(t)
        later = [u for u in tasks if names.index(u) > i]
        for _ in range(rng.choice([0, 1, 1, 2])):
            rec = rng.choice(recs)
            cyc = rec not in ('R1', 'R1/$', 'R1/+P1')
            r = rng.random()
            if later and r < 0.6:
                u = rng.choice(later)
                extra[rec].append(f'{t}:expire? => {u}' + ('?' if wf['prof'][u]['opt_fail'] else ''))
            elif later and r < 0.75:
                extra[rec].append(f'{t}:expire? => !{rng.choice(later)}')
            elif cyc:
                u = rng.choice(tasks)
                extra[rec].append(f'{t}[-P1]:expire? => {u}' + ('?' if wf['prof'][u]['opt_fail'] else ''))
                extra[rec].append(t + ('?' if wf['prof'][t]['opt_fail'] else ''))
    text = wf['flow']
    text = text.replace('    cycling mode = integer\n', '')
    text = text.replace('[scheduler]\n', '[scheduler]\n    UTC mode = True\n    cycle point format = CCYYMMDDThhmmZ\n', 1)
    text = re.sub(r'(initial cycle point|final cycle point|stop after cycle point) = (\d+)',
                  lambda m: f'{m.group(1)} = {p2s(int(m.group(2)))}', text)

    def header(m):
        rec = m.group(2)
        more = ''.join(f'            {ln}\n' for ln in extra.get(rec, []))
        return f'{m.group(1)}{REC[rec]}{m.group(3)}\n{more}'
    text = re.sub(r'^(        )([^ =\n]+)( = """)\n', header, text, flags=re.M)
    text = text.replace('[-P1]', '[-PT1H]').replace('[-P2]', '[-PT2H]')
    decl = clock_expire_decl(exp)
    if '    [[special tasks]]\n' in text:
        text = text.replace('    [[special tasks]]\n', f'    [[special tasks]]\n        clock-expire = {decl}\n', 1)
    else:
        text = text.replace('    [[graph]]\n', f'    [[special tasks]]\n        clock-expire = {decl}\n    [[graph]]\n', 1)
    run_opts = dict(wf['opts'])
    if 'startcp' in run_opts:
        run_opts['startcp'] = p2s(int(run_opts['startcp']))
    if opts.get('_exp_out') is not None:
        opts['_exp_out'].update(exp)
    return text, run_opts, {t: o[1] for t, o in exp.items()}


def gen_case(seed: int, kind='exp', opts=None):
    rng = random.Random(seed)
    opts = dict(opts or {})
    if kind == 'expq':
        opts = dict({'queue_limits': [1, 1, 2], 'default_queue_limits': [1, 1, 2], 'p_default_limit': 0.7,
                     'p_expire': 0.8}, **opts, queues=True)
    if kind == 'exprl':
        opts = dict({'p_expire': 0.7}, **opts)
    wf = sgen.gen_workflow(rng, opts)
    base = BASE_KIND.get(kind, 'complete')
    pol = sgen.gen_policy(rng, wf, base, opts)
    exp_full = {}
    flow, run_opts, offsets = to_datetime(wf, rng, dict(opts, _exp_out=exp_full))
    icp = wf['icp']
    now0 = rng.choice([(icp - 2) * UNIT, icp * UNIT, icp * UNIT + 1800, (icp + 1) * UNIT, (icp + 2) * UNIT,
                       (icp + 1) * UNIT + 900])
    pol['p_tick'] = rng.choice([0.08, 0.15, 0.25])
    pol['p_tick_idle'] = 0.7
    pol['ticks'] = rng.choice([[600, 1800, 3600], [1800, 3600, 3600, 5400], [3600, 7200], [900, 2700, 3600]])
    if kind == 'expcmd':
        pol['p_cmd'] = rng.choice([0.08, 0.12, 0.18])
    if kind == 'exptrig':
        pol['cmds'] = ['hold', 'release', 'hold', 'release', 'set_hold_point', 'release_hold_point',
                       'pause', 'resume', 'stop_clean', 'stop_now']
        pol['p_cmd'] = 0.08
        pol['p_trig'] = rng.choice([0.05, 0.1, 0.15])
        pol['restarts'] = rng.choice([0, 0, 1])
    case = {'id': f'{kind}{seed}', 'flow': flow, 'seed': seed, 'opts': run_opts, 'policy': pol, 'ops': None,
            'kind': kind, 'dt': {'now0': now0, 'unit': UNIT},
            'spec_exp': {'offsets': offsets, 'unit': UNIT}}
    if kind == 'expq':
        # (drawn after everything else) triggers of waiting, not queued tasks against full queues; the clock starts
        # before the first expiry time so that triggered tasks are still queued when it passes
        pol['cmds'] = ['hold', 'release', 'pause', 'resume']
        pol['p_cmd'] = 0.06
        pol['p_trig'] = rng.choice([0.15, 0.2, 0.3])
        pol['trig_unqueued'] = True
        pol['restarts'] = 0
        case['dt']['now0'] = rng.choice([(icp - 1) * UNIT, icp * UNIT, icp * UNIT + 1800])
        case['judge_only'] = True
    if kind == 'exprl':
        pol['cmds'] = ['reload', 'reload', 'reload', 'reload', 'hold', 'release', 'pause', 'resume']
        pol['p_cmd'] = rng.choice([0.15, 0.22, 0.3])
        pol['restarts'] = 0
        case['dt']['now0'] = rng.choice([(icp - 1) * UNIT, icp * UNIT, icp * UNIT + 1800])
        case['variants'] = reload_variants(rng, flow, exp_full, wf['tasks'])
        case['spec_exp']['variants'] = {v['tag']: v['offsets'] for v in case['variants']}
        case['judge_only'] = True
    return case


if __name__ == '__main__':
    import json
    import sys
    kind = sys.argv[3] if len(sys.argv) > 3 else 'exp'
    for s in range(int(sys.argv[1]), int(sys.argv[2])):
        print(json.dumps(gen_case(s, kind)))
