"""Datetime cycling + virtual clock for the scheduler runner (C32, clock expiry).  Additive: used only for cases that
carry a "dt" entry (runner.run_case dispatches here); integer-cycling cases never load this module.

Points.  The scheduler model keeps integer cycle points.  A datetime case uses the fixed grid
    point p  <->  2000-01-01T00:00Z + p hours          (cycle point format CCYYMMDDThhmmZ, UTC mode)
and everything the runner records (observations, op lists, instance graph) is expressed in grid integers:
the names `int` and `get_point` are rebound *in the runner module's namespace* to versions that map
ISO8601 points / point strings to grid integers and back, so that runner.observe / extract_graph / the policy run
unchanged.  Ops are recorded with integer ids ("3/a") and translated to real ids on the way into the scheduler.

Clock.  `time` of cylc.flow.task_proxy (the only clock TaskProxy.clock_expire reads) is replaced by a virtual clock
that only the op {"op": "tick", "dt": seconds} advances.  Times are reported in seconds relative to the grid origin.

Extra observation keys:  now (virtual time), man / trig_now (manually triggered proxies, tasks_to_trigger_now),
exp = the expiry events of the op: every TaskProxy.state_reset that moved a proxy into `expired`, with the state
of the proxy immediately before (status, is_manual_submit, held / queued / runahead, expire_time), the virtual time,
whether the object was still the pooled one, and what the processing of its `expired` output did to the pool
(keys added, keys removed, children whose prerequisite on the output is satisfied afterwards).
Extra instance-graph key: inst[p]["expire"] = TaskProxy.expire_time of that instance (null = no clock-expire).
"""
from __future__ import annotations

import calendar
import os
import re
import sys
import time as _time_mod
from datetime import datetime, timedelta, timezone


def _runner_module():
    m = sys.modules.get('__main__')
    if m is not None and os.path.basename(getattr(m, '__file__', '') or '') == 'runner.py' and hasattr(m, 'Run'):
        return m
    import runner
    return runner


R = _runner_module()

import cylc.flow.task_proxy as _tpm  # noqa: E402
from cylc.flow.cycling import PointBase  # noqa: E402
from cylc.flow.cycling.loader import get_point as _real_get_point  # noqa: E402
from cylc.flow.task_proxy import TaskProxy  # noqa: E402

ORIGIN = datetime(2000, 1, 1, tzinfo=timezone.utc)
ORIGIN_EPOCH = calendar.timegm(ORIGIN.timetuple())      # 946684800
UNIT = 3600                                            # seconds per grid step
SEQ_EXT = 12                                           # sequence points are listed this far beyond the final point
_builtin_int = int
_DT_RE = re.compile(r'^(-?\d{4,})(\d\d)(\d\d)T(\d\d)(\d\d)Z$')
_ACTIVE = [False]       # a datetime case is running in this process
_NOW = [float(ORIGIN_EPOCH)]


def s2p(s: str) -> int:
    """'20000101T0300Z' -> 3"""
    m = _DT_RE.match(s)
    if not m:
        raise ValueError(f'not a grid point: {s!r}')
    y, mo, d, h, mi = (_builtin_int(x) for x in m.groups())
    secs = calendar.timegm((y, mo, d, h, mi, 0)) - ORIGIN_EPOCH
    if secs % UNIT:
        raise ValueError(f'off-grid point: {s!r}')
    return secs // UNIT


def p2s(p: int) -> str:
    return (ORIGIN + timedelta(seconds=UNIT * _builtin_int(p))).strftime('%Y%m%dT%H%MZ')


def pint(x, *a):
    """`int` of the runner module: grid integer of a datetime point / point string, builtin int otherwise."""
    if a:
        return _builtin_int(x, *a)
    if isinstance(x, PointBase):
        s = str(x)
        return s2p(s) if 'T' in s else _builtin_int(x)
    if isinstance(x, str) and 'T' in x:
        return s2p(x.strip())
    return _builtin_int(x)


def pget_point(value, *a, **k):
    """`get_point` of the runner module: accepts a grid integer string while a datetime case runs."""
    if _ACTIVE[0] and isinstance(value, str) and re.match(r'^-?\d{1,6}$', value):
        return _real_get_point(p2s(_builtin_int(value)), *a, **k).standardise()
    return _real_get_point(value, *a, **k)


def _pparse_bool(expr, atom_re, ops=('&', '|')):
    # prerequisite expression atoms are "<point>/<task> <output>"
    if atom_re.startswith(r'-?\d+/'):
        atom_re = r'-?\d+T?\d*Z?/' + atom_re[len(r'-?\d+/'):]
    return _orig_parse_bool(expr, atom_re, ops)


_orig_parse_bool = R.parse_bool
_orig_extract_graph = R.extract_graph


def vtime():
    return _NOW[0] if _ACTIVE[0] else _time_mod.time()


def _tid(t: str) -> str:
    """'3/a' -> '20000101T0300Z/a'"""
    p, n = t.split('/', 1)
    return f'{p2s(_builtin_int(p))}/{n}' if re.match(r'^-?\d+$', p) else t


def extract_graph_dt(schd, case, flow_text=None):
    g = _orig_extract_graph(schd, case, flow_text)
    if not _ACTIVE[0]:
        return g
    cfg = schd.config
    for name, t in g['tasks'].items():
        tdef = cfg.get_taskdef(name)
        for key in ('inst', 'inst_off'):
            for p, d in (t.get(key) or {}).items():
                saved = tdef.max_future_prereq_offset
                itask = TaskProxy(schd.tokens, tdef, pget_point(p), {1})
                tdef.max_future_prereq_offset = saved
                d['expire'] = (None if itask.expire_time is None
                               else _builtin_int(itask.expire_time) - ORIGIN_EPOCH)
    # ISO8601 sequences are not cut off at the final cycle point when walked with get_next_point (as
    # compute_runahead does; the limit is clipped to the stop point afterwards): list their points some way
    # beyond the final point (the window listing of runner.extract_graph stops at the final point)
    seqs = []
    for seq in cfg.sequences:
        pts, p = [], seq.get_first_point(cfg.initial_point)
        while p is not None and pint(p) <= g['fcp'] + SEQ_EXT and len(pts) < 400:
            pts.append(pint(p))
            p = seq.get_next_point(p)
        seqs.append(pts)
    g['seqs'] = seqs
    g['dt'] = {'unit': UNIT, 'now0': _builtin_int((case.get('dt') or {}).get('now0', 0))}
    return g


def install():
    """Rebind the names in the runner module (idempotent; harmless for integer cases)."""
    R.int = pint
    R.get_point = pget_point
    R.parse_bool = _pparse_bool
    R.extract_graph = extract_graph_dt
    _tpm.time = vtime


_state_reset_prev = TaskProxy.state_reset


def _exp_state_reset(self, status=None, *a, **k):
    run = R._CUR
    before = None
    if _ACTIVE[0] and run is not None and status == 'expired' and hasattr(run, 'exp_events'):
        try:
            st = self.state
            before = {
                'p': pint(self.point), 'n': self.tdef.name, 'from': st.status,
                'man': bool(self.is_manual_submit), 'held': bool(st.is_held), 'q': bool(st.is_queued),
                'rh': bool(st.is_runahead), 'sn': self.submit_num,
                'exp': None if self.expire_time is None else _builtin_int(self.expire_time) - ORIGIN_EPOCH,
                'now': _builtin_int(_NOW[0]) - ORIGIN_EPOCH,
                'tr': bool(self.transient),
                'fl': sorted(self.flow_nums),
            }
            pooled = run.schd.pool._get_task_by_id(self.identity) is self
        except Exception:
            before = None
    ret = _state_reset_prev(self, status, *a, **k)
    # (objects that are neither pooled nor a removed pool member are the data store's history copies: ignored)
    if before is not None and ret and self.state.status == 'expired' and (pooled or before['tr']):
        run.exp_events.append(before)
        run.exp_open.append(before)
    return ret


class RunDT(R.Run):
    def __init__(self, case):
        super().__init__(case)
        dt = case.get('dt') or {}
        self.exp_events = []
        self.exp_open = []
        self.exp_extra = []     # per event: [p, n, [[p, n, reason of removal]..]] (for the judge; not predicted)
        _NOW[0] = float(ORIGIN_EPOCH + _builtin_int(dt.get('now0', 0)))
        self.idle = False
        self._prev_key = None
        self.old_exp = {}       # (point, name) -> expiry time under a definition replaced by a reload

    async def start(self, restart=False):
        schd = await super().start(restart)
        self._instrument_exp(schd)
        return schd

    def _instrument_exp(self, schd):
        """The effect of processing an `expired` output on the pool: recorded around the real
        TaskEventsManager.spawn_children call for that output (instance attribute; behaviour unchanged)."""
        run = self
        tem = schd.task_events_mgr
        orig = tem.spawn_children

        def spawn_children(itask, output, forced=False):
            ev = None
            if output == 'expired' and run.exp_open:
                for e in run.exp_open:
                    if e['p'] == pint(itask.point) and e['n'] == itask.tdef.name:
                        ev = e
                run.exp_open = []
            if ev is None:
                return orig(itask, output, forced)
            if itask.transient:
                # a removed object: its outputs reach the DB, nothing is spawned
                ev.update(pooled_kids=[], added=[], removed=[], sat=[])
                return orig(itask, output, forced)
            n_add, n_rem = len(run.adds), len(run.removed)
            before = {(pint(t.point), t.tdef.name) for t in schd.pool.get_tasks()}
            kids = [[c.name, pint(c.point)] for c in itask.graph_children.get('expired', [])]
            ev['pooled_kids'] = sorted(map(list, {(p, n) for n, p in kids if (p, n) in before}))
            try:
                return orig(itask, output, forced)
            finally:
                # keys that entered the pool during the call (add_to_pool of a key already pooled is a no-op)
                ev['added'] = sorted(map(list, {(a[0], a[1]) for a in run.adds[n_add:]} - before))
                ev['removed'] = sorted(map(list, {(r[0], r[1]) for r in run.removed[n_rem:]}))
                run.exp_extra.append([ev['p'], ev['n'], sorted([r[0], r[1], r[4]] for r in run.removed[n_rem:])])
                sat = []
                for n, p in kids:
                    c = schd.pool._get_task_by_id(f'{p2s(p)}/{n}')
                    if c is None:
                        continue
                    for pre in (*c.state.prerequisites, *c.state.suicide_prerequisites):
                        for key, v in pre.items():
                            if (key.task == itask.tdef.name and key.output == 'expired'
                                    and pint(str(key.point)) == pint(itask.point) and v):
                                sat.append([p, n])
                ev['sat'] = sorted(map(list, {tuple(x) for x in sat}))
        tem.spawn_children = spawn_children

    def observe(self, after_loop=False):
        obs = super().observe(after_loop)
        pool = self.schd.pool
        obs['now'] = _builtin_int(_NOW[0]) - ORIGIN_EPOCH
        obs['man'] = sorted([pint(t.point), t.tdef.name] for t in pool.get_tasks() if t.is_manual_submit)
        obs['trig_now'] = sorted([pint(t.point), t.tdef.name] for t in pool.tasks_to_trigger_now)
        for ev in self.exp_events:
            # (an expiry whose `expired` output was never processed has no recorded effect)
            for key in ('pooled_kids', 'added', 'removed', 'sat'):
                ev.setdefault(key, [])
        obs['exp'] = self.exp_events
        obs['exp_x'] = self.exp_extra
        self.exp_events = []
        self.exp_extra = []
        self.exp_open = []
        key = (obs['pool'], obs['stalled'], obs['stop'])
        self.idle = (self._last_kind == 'loop' and not obs['launch'] and key == self._prev_key)
        self._prev_key = key
        return obs

    _last_kind = None

    async def apply(self, op):
        self._last_kind = op['op']
        if op['op'] == 'tick':
            _NOW[0] += _builtin_int(op['dt'])
            return
        if op['op'] == 'reload':
            # (policy only) the expiry times the pooled tasks had under the definition that is being replaced: the clock
            # is later also stepped to these, so that an expiry time that is NOT recomputed by the reload shows
            for t in self.schd.pool.get_tasks():
                if t.expire_time is not None:
                    self.old_exp[(pint(t.point), t.tdef.name)] = _builtin_int(t.expire_time)
        real = dict(op)
        if 'task' in real and isinstance(real['task'], str):
            real['task'] = _tid(real['task'])
        if isinstance(real.get('args'), dict):
            args = dict(real['args'])
            if 'tasks' in args:
                args['tasks'] = [_tid(t) for t in args['tasks']]
            for key in ('point', 'cycle_point'):
                if isinstance(args.get(key), str) and re.match(r'^-?\d+$', args[key]):
                    args[key] = p2s(_builtin_int(args[key]))
            if isinstance(args.get('task'), str):
                args['task'] = _tid(args['task'])
            real['args'] = args
        try:
            await super().apply(real)
        finally:
            for key, val in real.items():       # hints written back by the runner
                if key not in op or (op['op'] == 'reload' and key in ('graph', 'failed', 'skipped')):
                    op[key] = val
            if op['op'] == 'reload':
                for key in ('graph', 'failed', 'skipped'):
                    if key not in real:
                        op.pop(key, None)

    def next_op(self, rng, pol, step):
        if self.stop_reason is None:
            pool = self.schd.pool
            waiting = [t for t in pool.get_tasks() if t.state.status == 'waiting']
            pend = sorted({_builtin_int(t.expire_time) for t in waiting
                           if t.expire_time is not None and t.expire_time > _NOW[0]} |
                          {v for t in waiting for v in [self.old_exp.get((pint(t.point), t.tdef.name))]
                           if v is not None and v > _NOW[0]})
            p_tick = pol.get('p_tick_idle', 0.7) if (self.idle and pend) else pol.get('p_tick', 0.15)
            if rng.random() < p_tick:
                choices = list(pol.get('ticks') or [600, 1800, 3600, 3600, 5400])
                r = rng.random()
                if pend and r < 0.45:
                    dt = pend[0] - _builtin_int(_NOW[0])            # exactly the next expiry time
                elif pend and r < 0.6:
                    dt = pend[0] - _builtin_int(_NOW[0]) - 1        # one second short of it
                else:
                    dt = rng.choice(choices)
                return {'op': 'tick', 'dt': max(1, _builtin_int(dt))}
            if pol.get('p_trig') and rng.random() < pol['p_trig']:
                # `cylc trigger` of ONE pooled waiting task, default flow (the case the expiry guard is about)
                cands = sorted((pint(t.point), t.tdef.name) for t in waiting)
                if pol.get('trig_unqueued'):
                    # (queue-limit runs) tasks that are not queued: a full queue can only queue them
                    unq = sorted((pint(t.point), t.tdef.name) for t in waiting
                                 if not t.state.is_queued and not t.is_manual_submit)
                    if unq and rng.random() < 0.85:
                        cands = unq
                        waiting = [t for t in waiting if not t.state.is_queued and not t.is_manual_submit]
                if cands:
                    # prefer a task whose expiry is pending or due
                    due = sorted((pint(t.point), t.tdef.name) for t in waiting if t.expire_time is not None)
                    p, n = rng.choice(due if due and rng.random() < 0.7 else cands)
                    return {'op': 'cmd', 'name': 'force_trigger_tasks',
                            'args': {'tasks': [f'{p}/{n}'], 'flow': [], 'flow_wait': False}}
        return super().next_op(rng, pol, step)


def make_run(case):
    install()
    if TaskProxy.state_reset is not _exp_state_reset:
        TaskProxy.state_reset = _exp_state_reset
    _ACTIVE[0] = True
    return RunDT(case)


def done():
    _ACTIVE[0] = False
