"""C27: variants of a generated workflow definition for `cylc reload` (unchanged / extended / shrunk / broken).

`gen_variants(rng, wf, opts)` takes the dict returned by gen.gen_workflow (its 'spec' key = the abstract spec the
text was rendered from) and returns a list of {"tag", "flow"}: the definitions a run is reloaded with.  Every variant
is a mutation of the ORIGINAL spec (not cumulative), so a sequence of reloads removes tasks and brings them back.
Initial / final cycle point, start point and the `stop after cycle point` line never change (a reload cannot change
them).  A variant cylc rejects is a failed reload (the scheduler keeps the old definition) - also a case.

Mutations:  same | add_sink (new task triggered by existing outputs) | add_source (new parentless task that an
existing task now depends on) | add_dep (new dependency between existing tasks: a NEW prerequisite of pooled
instances, satisfiable from outputs already recorded) | del_task (every graph line naming the task goes) |
del_line (one dependency / node line goes; tasks no longer named disappear) | runahead (another limit) |
retries (another number of retry delays) | bad (graph syntax error).
"""
from __future__ import annotations

import copy

import gen as sgen


def _mentions(line, t):
    return any(tok.lstrip('!').split('[')[0].split(':')[0].rstrip('?') == t
               for tok in line.replace('(', ' ').replace(')', ' ').split())


def _plain(line, t):
    """t occurs as a node of this section's own cycle (no offset)."""
    return any('[' not in tok and tok.lstrip('!').split(':')[0].rstrip('?') == t
               for tok in line.replace('(', ' ').replace(')', ' ').split())


def render_flow(wf, sp, prof, runahead):
    """Same rendering as gen.gen_workflow (kept in step by the self-test in gen_variants)."""
    names = sp['names']
    mentioned = set()
    for rec in sp['recs']:
        for ln in sp['sections'][rec]:
            for t in names:
                if any(tok.split('[')[0].split(':')[0].rstrip('?') == t
                       for tok in ln.replace('(', ' ').replace(')', ' ').split()):
                    mentioned.add(t)
    graph_txt = ''
    for rec in sp['recs']:
        body = '\n'.join('            ' + ln for ln in sp['sections'][rec])
        graph_txt += f'        {rec} = """\n{body}\n        """\n'
    runtime = ''
    for t in sorted(mentioned):
        body = ''
        if prof[t]['exec_retries']:
            body += f"        execution retry delays = {prof[t]['exec_retries']}*PT0S\n"
        if prof[t]['sub_retries']:
            body += f"        submission retry delays = {prof[t]['sub_retries']}*PT0S\n"
        if prof[t]['custom']:
            outs = '\n'.join(f'            {c} = {c}{c}' for c in prof[t]['custom'])
            body += f'        [[[outputs]]]\n{outs}\n'
        if body:
            runtime += f'    [[{t}]]\n{body}'
    special = ''
    seq_tasks = [t for t in sp['seq_tasks'] if t in mentioned]
    if seq_tasks:
        special = '    [[special tasks]]\n        sequential = ' + ', '.join(seq_tasks) + '\n'
    icp, fcp = wf['icp'], wf['fcp']
    flow = f'''[scheduler]
    allow implicit tasks = True
[scheduling]
    cycling mode = integer
    initial cycle point = {icp}
    final cycle point = {fcp}
    runahead limit = P{runahead}
{sp['stop_line']}{special}    [[graph]]
{graph_txt}[runtime]
    [[root]]
        [[[simulation]]]
            default run length = PT0S
{runtime}'''
    return flow, sorted(mentioned)


def _rhs(t, prof):
    return t + ('?' if prof[t]['opt_fail'] else '')


def _fix(sp, prof):
    """Drop empty sections; a task named only with an offset gets a node line in that section."""
    for rec in list(sp['recs']):
        lines = sp['sections'][rec]
        for t in sp['names']:
            if any(_mentions(ln, t) for ln in lines) and not any(
                    _plain(ln, t) for r in sp['recs'] for ln in sp['sections'][r]):
                lines.append(_rhs(t, prof))
        if not lines:
            sp['recs'].remove(rec)
            del sp['sections'][rec]
    return bool(sp['recs'])


def _triggers(rng, sp, prof, rec, tasks, lower_than=None):
    cands = []
    cyc = rec not in ('R1', 'R1/$', 'R1/+P1')
    for i, t in enumerate(sp['names']):
        if t not in tasks:
            continue
        outs = ['succeeded', 'succeeded']
        if prof[t]['opt_fail']:
            outs.append('failed')
        outs += prof[t]['custom']
        if rng.random() < 0.3:
            outs.append('started')
        for out in outs:
            if lower_than is None or i < lower_than:
                cands.append({'t': t, 'out': out})
            if cyc and rng.random() < 0.4:
                cands.append({'t': t, 'out': out, 'off': rng.choice(sp['offs'])})
    return cands


def mutate(rng, wf, kind):
    sp = copy.deepcopy(wf['spec'])
    sp['names'] = list(sp['names'])
    sp['recs'] = list(sp['recs'])
    prof = copy.deepcopy(wf['prof'])
    runahead = wf['runahead']
    tasks = list(wf['tasks'])
    free = [n for n in sgen.NAMES + ['h', 'i'] if n not in sp['names']]

    def new_task():
        t = free.pop(0)
        sp['names'].append(t)
        prof[t] = {'opt_fail': rng.random() < 0.3, 'custom': [], 'opt_custom': [],
                   'exec_retries': rng.choice([0, 0, 1]), 'sub_retries': 0}
        return t
    if kind == 'same':
        pass
    elif kind == 'add_sink':
        rec = rng.choice(sp['recs'])
        cands = _triggers(rng, sp, prof, rec, tasks)
        z = new_task()
        if not cands:
            return None
        picks = []
        for c in rng.sample(cands, min(len(cands), rng.randint(1, 2))):
            if c not in picks:
                picks.append(c)
        sp['sections'][rec].append(sgen.render_expr(sgen.gen_expr(rng, picks), prof) + ' => ' + _rhs(z, prof))
    elif kind == 'add_source':
        rec = rng.choice(sp['recs'])
        x = rng.choice(tasks)
        z = new_task()
        out = rng.choice(['succeeded', 'succeeded', 'started'])
        sp['sections'][rec].append(sgen.render_trigger({'t': z, 'out': out}, prof) + ' => ' + _rhs(x, prof))
    elif kind == 'add_dep':
        rec = rng.choice(sp['recs'])
        x = rng.choice(tasks)
        j = sp['names'].index(x)
        cands = [c for c in _triggers(rng, sp, prof, rec, tasks, lower_than=j)]
        if not cands:
            return None
        picks = []
        for c in rng.sample(cands, min(len(cands), rng.randint(1, 2))):
            if c not in picks and not (c['t'] == x and c.get('off') is None):
                picks.append(c)
        if not picks:
            return None
        sp['sections'][rec].append(sgen.render_expr(sgen.gen_expr(rng, picks), prof) + ' => ' + _rhs(x, prof))
    elif kind == 'del_task':
        if len(tasks) < 2:
            return None
        t = rng.choice(tasks)
        for rec in sp['recs']:
            sp['sections'][rec] = [ln for ln in sp['sections'][rec] if not _mentions(ln, t)]
    elif kind == 'del_line':
        rec = rng.choice(sp['recs'])
        lines = sp['sections'][rec]
        if not lines:
            return None
        lines.pop(rng.randrange(len(lines)))
    elif kind == 'runahead':
        runahead = rng.choice([r for r in (0, 1, 2, 3) if r != runahead])
    elif kind == 'retries':
        t = rng.choice(tasks)
        prof[t]['exec_retries'] = rng.choice([r for r in (0, 1, 2) if r != prof[t]['exec_retries']])
    elif kind == 'bad':
        rec = rng.choice(sp['recs'])
        sp['sections'][rec].append(rng.choice(['a => => b', '(a & b => c', 'a[-P1 => b']))
    else:
        raise ValueError(kind)
    if not _fix(sp, prof):
        return None
    flow, mentioned = render_flow(wf, sp, prof, runahead)
    return flow, mentioned


KINDS = ['same', 'add_sink', 'add_source', 'add_dep', 'add_dep', 'del_task', 'del_task', 'del_line', 'runahead',
         'retries', 'bad']


def gen_variants(rng, wf, opts=None):
    opts = opts or {}
    # the re-rendering must reproduce the text the case starts from
    flow0, _ = render_flow(wf, wf['spec'], wf['prof'], wf['runahead'])
    assert flow0 == wf['flow'], 'genreload.render_flow is out of step with gen.gen_workflow'
    out = [{'tag': 'same', 'flow': wf['flow'], 'tasks': list(wf['tasks'])}]
    kinds = opts.get('variant_kinds') or KINDS
    for _ in range(opts.get('n_variants', 5)):
        kind = rng.choice(kinds)
        res = mutate(rng, wf, kind)
        if res is None:
            continue
        flow, mentioned = res
        if flow == wf['flow']:
            kind = 'same'
        # ('tasks': the tasks of the definition - the policy can aim a reload at the definition of a started task)
        out.append({'tag': kind, 'flow': flow, 'tasks': mentioned})
    return out
