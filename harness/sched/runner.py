"""In-process driver of the real cylc Scheduler (worker process).

    python runner.py  < cases.jsonl  > results.jsonl

One JSON case per input line, one JSON result per output line.  A case is
    {"id": str, "flow": <flow.cylc text>, "policy": {...}, "ops": [...] | null}
If "ops" is null the schedule is *generated adaptively* by the seeded policy
(which message / main loop comes next depends on the jobs the scheduler has
launched) and recorded; otherwise the given op list is replayed verbatim.

Result: {"id", "ops": [...], "obs": [<observation after start>, <after op 1>, ...],
         "graph": <instance graph extracted from the loaded config>, "error": str?}

The job runner is a stub (no subprocess, no platform code): the real
TaskJobManager.prep_submit_task_jobs runs (submit_num += 1, -> preparing), only
`_prep_submit_task_job` is replaced; a launch is recorded, and its outcome
arrives later as a "subres" op (the job-submit callback) followed by job
messages through the real message queue.
"""
from __future__ import annotations

import asyncio
import json
import logging
import os
import random
import re
import shutil
import sys
import tempfile
import traceback
from pathlib import Path

_SCRATCH = tempfile.mkdtemp(prefix='vsched-')
os.environ['HOME'] = _SCRATCH
os.environ.pop('CYLC_CONF_PATH', None)
REPO = os.environ.get('VERIF_REPO', '/repo')
sys.path.insert(0, REPO)

from cylc.flow import commands  # noqa: E402
from cylc.flow.cycling.loader import get_point  # noqa: E402
from cylc.flow.run_modes import RunMode  # noqa: E402
from cylc.flow.scheduler import Scheduler, SchedulerStop  # noqa: E402
from cylc.flow.scheduler_cli import RunOptions  # noqa: E402
from cylc.flow.task_events_mgr import TaskEventsManager  # noqa: E402
from cylc.flow.task_job_mgr import TaskJobManager  # noqa: E402
from cylc.flow.task_proxy import TaskProxy  # noqa: E402
from cylc.flow.network.resolvers import TaskMsg  # noqa: E402
from cylc.flow.id import Tokens  # noqa: E402
import cylc.flow.scheduler as _sched_mod  # noqa: E402

assert os.path.realpath(_sched_mod.__file__).startswith(os.path.realpath(REPO)), _sched_mod.__file__

_sched_mod.sim_time_check = lambda *a, **k: False
logging.getLogger('cylc').setLevel(logging.CRITICAL)


# ---------------------------------------------------------------------------
# expression strings -> JSON trees  ("a & (b | c)" / "a and (b or c)")

def parse_bool(expr: str, atom_re: str, ops=('&', '|')):
    """Parse an and/or expression into ["and", l, r] / ["or", l, r] / ["atom", text].
    Python precedence: and binds tighter than or."""
    toks = re.findall(r'\(|\)|' + re.escape(ops[0]) + '|' + re.escape(ops[1]) + '|' + atom_re, expr)
    pos = 0

    def peek():
        return toks[pos] if pos < len(toks) else None

    def eat():
        nonlocal pos
        pos += 1
        return toks[pos - 1]

    def p_or():
        left = p_and()
        while peek() == ops[1]:
            eat()
            left = ['or', left, p_and()]
        return left

    def p_and():
        left = p_atom()
        while peek() == ops[0]:
            eat()
            left = ['and', left, p_atom()]
        return left

    def p_atom():
        t = eat()
        if t == '(':
            e = p_or()
            assert eat() == ')'
            return e
        return ['atom', t]
    e = p_or()
    assert pos == len(toks), (expr, toks, pos)
    return e


def flows_of(itask):
    return sorted(itask.flow_nums)


# ---------------------------------------------------------------------------

class Run:
    def __init__(self, case):
        self.case = case
        self.id = 'w' + re.sub(r'[^A-Za-z0-9]', '', str(case['id']))
        self.launched = []       # launches of the current op
        self.jobs = {}           # (id, submit_num) -> job dict (policy bookkeeping)
        self.stop_reason = None
        self.schd = None
        self.fails = {}

    # -- set up ------------------------------------------------------------
    async def start(self, restart=False):
        run_dir = Path(_SCRATCH) / 'cylc-run' / self.id
        if not restart:
            run_dir.mkdir(parents=True, exist_ok=True)
            (run_dir / 'flow.cylc').write_text(self.case['flow'])
        opts = dict(paused_start=False, run_mode='simulation')
        opts.update(self.case.get('opts') or {})
        schd = Scheduler(self.id, RunOptions(**opts))
        self.schd = schd
        await schd.install()
        await schd.start()
        schd.INTERVAL_MAIN_LOOP = 0
        schd.INTERVAL_MAIN_LOOP_QUICK = 0
        tjm = schd.task_job_mgr
        run = self

        def _prep(itask, check_syntax=True):
            TaskJobManager._set_retry_timers(itask)
            itask.waiting_on_job_prep = False
            itask.run_mode = RunMode.LIVE
            return itask
        tjm._prep_submit_task_job = _prep

        def submit(itasks, *a, **k):
            good, _bad = tjm.prep_submit_task_jobs(list(itasks))
            for itask in good:
                run.launched.append([int(itask.point), itask.tdef.name, itask.submit_num])
            return good
        schd.submit_task_jobs = submit
        # polls requested by the scheduler are recorded, not executed
        self.polls = []
        tjm.poll_task_jobs = lambda itasks, msg=None: run.polls.extend(
            [int(t.point), t.tdef.name] for t in itasks)
        return schd

    # -- observation ---------------------------------------------------------
    def observe(self, after_loop=False):
        schd = self.schd
        tp = schd.pool
        # bookkeeping of the pool, read before get_tasks() refreshes the cache (C26)
        flat = [t for m in tp.active_tasks.values() for t in m.values()]
        book = {
            'cache_ok': bool(tp.active_tasks_changed) or (
                [id(t) for t in tp._active_tasks_list] == [id(t) for t in flat]),
            'empty_bucket': any(not m for m in tp.active_tasks.values()),
            'key_ok': all(t.identity == k and t.point == p
                          for p, m in tp.active_tasks.items() for k, t in m.items()),
            'dup': len({(str(t.point), t.tdef.name) for t in flat}) != len(flat),
        }
        db = None
        if after_loop and self.stop_reason is None:
            import sqlite3
            con = sqlite3.connect(schd.workflow_db_mgr.pri_path, timeout=5)
            try:
                db = sorted(
                    [int(c), n, json.loads(f), st, bool(h)]
                    for c, n, f, st, h in con.execute(
                        'SELECT cycle, name, flow_nums, status, is_held FROM task_pool'))
            finally:
                con.close()
        pool = []
        for itask in schd.pool.get_tasks():
            prereqs = []
            for pre in itask.state.prerequisites:
                prereqs.append(sorted(
                    [int(str(k.point)), k.task, k.output, bool(v)] for k, v in pre.items()))
            pool.append({
                'p': int(itask.point), 'n': itask.tdef.name, 'st': itask.state.status,
                'held': bool(itask.state.is_held), 'q': bool(itask.state.is_queued),
                'rh': bool(itask.state.is_runahead), 'fl': flows_of(itask),
                'sn': itask.submit_num,
                'out': sorted(t for t, _m, done in itask.state.outputs if done),
                'pre': sorted(prereqs, key=lambda a: json.dumps(a, separators=(',', ':'))),
            })
        pool.sort(key=lambda d: (d['p'], d['n']))
        rl = schd.pool.runahead_limit_point
        obs = {
            'pool': pool,
            'launch': sorted(self.launched),
            'polls': sorted(self.polls),
            'stalled': bool(schd.is_stalled),
            'stop': self.stop_reason,
            'rl': None if rl is None else int(rl),
            'book': book,
            'db': db,
        }
        self.launched = []
        self.polls = []
        return obs

    # -- ops -------------------------------------------------------------------
    async def apply(self, op):
        schd = self.schd
        kind = op['op']
        if kind == 'loop':
            try:
                await schd._main_loop()
            except SchedulerStop as exc:
                self.stop_reason = str(exc.args[0]) if exc.args else 'stop'
        elif kind == 'subres':
            itask = schd.pool._get_task_by_id(op['task'])
            if itask is not None:
                schd.task_events_mgr.process_message(
                    itask, 'INFO' if op['ok'] else 'CRITICAL',
                    'submitted' if op['ok'] else 'submission failed',
                    None, TaskEventsManager.FLAG_INTERNAL, op.get('sn'))
        elif kind == 'msg':
            point, name = op['task'].split('/')
            job_id = Tokens(cycle=point, task=name, job=f'{op["sn"]:02d}')
            schd.message_queue.put(TaskMsg(job_id, '2000-01-01T00:00:00Z', op.get('sev', 'INFO'), op['msg']))
        elif kind == 'poll':
            itask = schd.pool._get_task_by_id(op['task'])
            if itask is not None:
                schd.task_events_mgr.process_message(
                    itask, 'INFO', op['msg'], None, TaskEventsManager.FLAG_POLLED, op.get('sn'))
        elif kind == 'cmd':
            name, kwargs = op['name'], dict(op.get('args') or {})
            fn = getattr(commands, name)
            if 'tasks' in kwargs:
                kwargs['tasks'] = list(kwargs['tasks'])
            await commands.run_cmd(fn(schd, **kwargs))
        else:
            raise ValueError(kind)

    # -- adaptive policy -------------------------------------------------------
    def next_op(self, rng, pol, step):
        """Choose the next op from the scheduler's visible state (seeded)."""
        schd = self.schd
        # register new launches as jobs
        cands = []
        for key, job in self.jobs.items():
            if job['next'] < len(job['plan']):
                cands.append(key)
        if cands and rng.random() < pol.get('p_msg', 0.6):
            key = rng.choice(sorted(cands))
            job = self.jobs[key]
            kind, payload = job['plan'][job['next']]
            job['next'] += 1
            tid = f'{key[0]}/{key[1]}'
            if kind == 'subres':
                return {'op': 'subres', 'task': tid, 'ok': payload, 'sn': key[2]}
            return {'op': 'msg', 'task': tid, 'msg': payload, 'sn': key[2],
                    'sev': 'CRITICAL' if payload == 'failed' else 'INFO'}
        if cands and rng.random() < pol.get('p_noise', 0.0):
            # duplicate / stale / out-of-order delivery
            key = rng.choice(sorted(cands))
            job = self.jobs[key]
            done = [pl for k, pl in job['plan'][:job['next']] if k == 'msg']
            tid = f'{key[0]}/{key[1]}'
            r = rng.random()
            if done and r < 0.5:
                return {'op': 'msg', 'task': tid, 'msg': rng.choice(done), 'sn': key[2]}
            if key[2] > 1 and r < 0.8:
                return {'op': 'msg', 'task': tid, 'msg': rng.choice(['started', 'succeeded', 'failed']), 'sn': key[2] - 1}
            later = [pl for k, pl in job['plan'][job['next']:] if k == 'msg']
            if later:
                return {'op': 'msg', 'task': tid, 'msg': later[-1], 'sn': key[2]}
        return {'op': 'loop'}

    def plan_job(self, rng, pol, point, name, sn):
        """Outcome of one job, decided when it is launched."""
        oc = (pol.get('outcomes') or {}).get(name) or {}
        plan = []
        fails = self.fails.setdefault((point, name), [0, 0])
        # with retries configured a job may fail while a retry remains ('complete' runs keep the final try good)
        if fails[1] < oc.get('sub_retries', 0) and rng.random() < oc.get('p_retry_fail', 0.0):
            fails[1] += 1
            return [('subres', False)]
        if rng.random() < oc.get('p_submit_fail', 0.0):
            return [('subres', False)]
        plan.append(('subres', True))
        plan.append(('msg', 'started'))
        for out in oc.get('custom', []):
            if rng.random() < oc.get('p_custom', 1.0):
                plan.append(('msg', out))
        if fails[0] < oc.get('exec_retries', 0) and rng.random() < oc.get('p_retry_fail', 0.0):
            fails[0] += 1
            plan.append(('msg', 'failed'))
            return plan
        plan.append(('msg', 'failed' if rng.random() < oc.get('p_fail', 0.0) else 'succeeded'))
        return plan

    async def drive(self):
        case = self.case
        rng = random.Random(case.get('seed', 0))
        pol = case.get('policy') or {}
        ops_out, obs = [], []
        try:
            await self.start()
        except Exception:
            self.load_error = traceback.format_exc()[-1500:]
            if self.schd is not None:
                await self.shutdown()
            raise
        try:
            obs.append(self.observe())
            given = case.get('ops')
            max_steps = pol.get('max_steps', 150)
            step = 0
            idle_loops = 0
            while True:
                if given is not None:
                    if step >= len(given):
                        break
                    op = given[step]
                else:
                    if step >= max_steps or self.stop_reason is not None:
                        break
                    op = self.next_op(rng, pol, step)
                step += 1
                await self.apply(op)
                ob = self.observe(after_loop=(op['op'] == 'loop'))
                for point, name, sn in ob['launch']:
                    self.jobs[(point, name, sn)] = {
                        'plan': self.plan_job(rng, pol, point, name, sn), 'next': 0}
                ops_out.append(op)
                obs.append(ob)
                if given is None:
                    # stop early when nothing can happen any more
                    busy = any(j['next'] < len(j['plan']) for j in self.jobs.values())
                    if op['op'] == 'loop' and not ob['launch'] and not busy and ob == obs[-2]:
                        idle_loops += 1
                        if idle_loops >= 2:
                            break
                    else:
                        idle_loops = 0
            graph = extract_graph(self.schd, case)
        finally:
            await self.shutdown()
        return {'id': case['id'], 'ops': ops_out, 'obs': obs, 'graph': graph}

    async def shutdown(self):
        try:
            async with asyncio.timeout(10):
                await self.schd.shutdown(SchedulerStop('verif teardown'))
        except Exception:
            pass
        shutil.rmtree(Path(_SCRATCH) / 'cylc-run' / self.id, ignore_errors=True)


# ---------------------------------------------------------------------------
# instance graph of the loaded configuration, read off the real objects

def extract_graph(schd, case):
    cfg = schd.config
    icp, fcp = int(cfg.initial_point), int(cfg.final_point)
    start = int(cfg.start_point)
    tokens = schd.tokens
    tasks = {}
    for name in schd.pool.task_name_list:
        tdef = cfg.get_taskdef(name)
        comp = None
        inst = {}
        for p in range(icp, fcp + 1):
            pt = get_point(str(p))
            if not tdef.is_valid_point(pt):
                continue
            saved = tdef.max_future_prereq_offset
            itask = TaskProxy(tokens, tdef, pt, {1})
            tdef.max_future_prereq_offset = saved

            def conv(pre):
                atoms = [[int(str(k.point)), k.task, k.output, bool(v)] for k, v in pre.items()]
                keys = [pre.MESSAGE_TEMPLATE % k for k in pre.keys()]
                expr_s = pre.get_raw_conditional_expression()
                tree = None
                if expr_s is not None:
                    tree = parse_bool(expr_s, r'-?\d+/[A-Za-z_][\w]* [\w\-]+')

                    def idx(t):
                        if t[0] == 'atom':
                            return ['atom', keys.index(t[1])]
                        return [t[0], idx(t[1]), idx(t[2])]
                    tree = idx(tree)
                return {'atoms': atoms, 'expr': tree}
            nxt = tdef.next_point_parentless(cfg.start_point, pt)
            inst[str(p)] = {
                'pre': [conv(x) for x in itask.state.prerequisites],
                'sui': [conv(x) for x in itask.state.suicide_prerequisites],
                'children': {out: sorted([c.name, int(c.point), bool(c.is_abs)] for c in cs)
                             for out, cs in itask.graph_children.items()},
                'next_parentless': None if nxt is None else int(nxt),
            }
            if comp is None:
                comp = parse_bool(itask.state.outputs._completion_expression.replace('_', '-') if False else itask.state.outputs._completion_expression,
                                  r'[A-Za-z_][\w]*', ops=('and', 'or'))
                outs = [[t, m, r] for t, (m, r) in tdef.outputs.items()]
        fp = tdef.next_point_parentless(cfg.start_point)
        tasks[name] = {
            'inst': inst,
            'first_parentless': None if fp is None else int(fp),
            'completion': comp,
            'outputs': outs if inst else [],
            'exec_retries': len(tdef.rtconfig['execution retry delays'] or []),
            'sub_retries': len(tdef.rtconfig['submission retry delays'] or []),
            'has_abs': bool(tdef.has_abs_triggers),
            'sequential': bool(tdef.sequential),
        }
    seqs = []
    for seq in cfg.sequences:
        seqs.append([p for p in range(icp, fcp + 1) if seq.is_valid(get_point(str(p)))])
    return {
        'icp': icp, 'fcp': fcp, 'start': start,
        'runahead': str(cfg.runahead_limit),
        'tasks': tasks, 'order': list(schd.pool.task_name_list), 'seqs': seqs,
        'stop_point': None if schd.pool.stop_point is None else int(schd.pool.stop_point),
    }


async def run_case(case):
    run = Run(case)
    try:
        return await run.drive()
    except Exception:
        stage = 'load' if getattr(run, 'load_error', None) else 'run'
        return {'id': case['id'], 'error': traceback.format_exc()[-3000:], 'stage': stage}


def main():
    out = os.fdopen(os.dup(1), 'w')
    devnull = os.open(os.devnull, os.O_WRONLY)
    os.dup2(devnull, 1)
    os.dup2(devnull, 2)
    code = 0
    try:
        for line in sys.stdin:
            line = line.strip()
            if not line:
                continue
            case = json.loads(line)
            res = asyncio.run(run_case(case))
            out.write(json.dumps(res, separators=(',', ':')) + '\n')
            out.flush()
    except Exception:
        out.write(json.dumps({'fatal': traceback.format_exc()[-2000:]}) + '\n')
        out.flush()
        code = 3
    finally:
        shutil.rmtree(_SCRATCH, ignore_errors=True)
        out.flush()
        os._exit(code)


if __name__ == '__main__':
    main()
