"""In-process driver of the real cylc Scheduler (worker process).

    python runner.py  < cases.jsonl  > results.jsonl

One JSON case per input line, one JSON result per output line.  A case is
    {"id": str, "flow": <flow.cylc text>, "policy": {...}, "ops": [...] | null}
If "ops" is null the schedule is *generated adaptively* by the seeded policy
(which message / main loop comes next depends on the jobs the scheduler has
launched) and recorded; otherwise the given op list is replayed verbatim.

Result: {"id", "ops": [...], "obs": [<observation after start>, <after op 1>, ...],
         "graph": <instance graph extracted from the loaded config>, "error": str?}

The job runner is a stub (no subprocess, no platform code): the real
TaskJobManager.prep_submit_task_jobs runs (submit_num += 1, -> preparing), only
`_prep_submit_task_job` is replaced; a launch is recorded, and its outcome
arrives later as a "subres" op (the job-submit callback) followed by job
messages through the real message queue.
"""
from __future__ import annotations

import asyncio
import json
import logging
import os
import random
import re
import shutil
import sys
import tempfile
import traceback
from pathlib import Path

_SCRATCH = tempfile.mkdtemp(prefix='vsched-')
os.environ['HOME'] = _SCRATCH
os.environ.pop('CYLC_CONF_PATH', None)
REPO = os.environ.get('VERIF_REPO', '/repo')
sys.path.insert(0, REPO)

from cylc.flow import commands  # noqa: E402
from cylc.flow.cycling.loader import get_point  # noqa: E402
from cylc.flow.run_modes import RunMode  # noqa: E402
from cylc.flow.scheduler import Scheduler, SchedulerStop  # noqa: E402
from cylc.flow.scheduler_cli import RunOptions  # noqa: E402
from cylc.flow.task_events_mgr import TaskEventsManager  # noqa: E402
from cylc.flow.task_job_mgr import TaskJobManager  # noqa: E402
from cylc.flow.task_proxy import TaskProxy  # noqa: E402
from cylc.flow.network.resolvers import TaskMsg  # noqa: E402
from cylc.flow.id import Tokens  # noqa: E402
import cylc.flow.scheduler as _sched_mod  # noqa: E402

assert os.path.realpath(_sched_mod.__file__).startswith(os.path.realpath(REPO)), _sched_mod.__file__

_sched_mod.sim_time_check = lambda *a, **k: False
logging.getLogger('cylc').setLevel(logging.CRITICAL)

# -- additive instrumentation (C09/C10): every status change and every processed message is logged
# into the live Run (observation keys "trans" and "msgs"); behaviour is unchanged.
_CUR = None
_orig_state_reset = TaskProxy.state_reset


def _logged_state_reset(self, *a, **k):
    old = self.state.status
    ret = _orig_state_reset(self, *a, **k)
    run = _CUR
    if run is not None and self.state.status != old:
        try:
            run.trans.append([int(self.point), self.tdef.name, old, self.state.status,
                              self.submit_num, run.msg_top, bool(self.transient),
                              run.schd.pool._get_task_by_id(self.identity) is self])
        except Exception:
            pass
    return ret


TaskProxy.state_reset = _logged_state_reset


# -- additive instrumentation (C20, crash-restart): the harness kills the scheduler at a database commit
# boundary (the k-th call of WorkflowDatabaseManager.process_queued_ops of a main loop) or inside that
# transaction (after j statements / right before COMMIT) by raising a BaseException that no handler of
# cylc-flow catches; see Run.crash_loop / Run.crash_restart.  Unused unless an op asks for it.
class _CrashNow(BaseException):
    pass


class _DyingConn:
    """A private-database connection that dies once `j` statements of the batch have been executed: on the next
    statement, or on the COMMIT that would make the j-th statement durable (`j` is at most the number of statements
    of the batch, so the one COMMIT that ends the batch is never reached; a COMMIT issued earlier passes)."""

    def __init__(self, conn, j):
        self._c, self._j, self._done = conn, j, 0

    def executemany(self, *a, **k):
        if self._done >= self._j:
            raise _CrashNow()
        self._done += 1
        return self._c.executemany(*a, **k)

    def execute(self, *a, **k):
        return self._c.execute(*a, **k)

    def commit(self):
        if self._done >= self._j:
            raise _CrashNow()
        return self._c.commit()

    def rollback(self):
        return self._c.rollback()

    def close(self):
        return self._c.close()


# ---------------------------------------------------------------------------
# expression strings -> JSON trees  ("a & (b | c)" / "a and (b or c)")

def parse_bool(expr: str, atom_re: str, ops=('&', '|')):
    """Parse an and/or expression into ["and", l, r] / ["or", l, r] / ["atom", text].
    Python precedence: and binds tighter than or."""
    toks = re.findall(r'\(|\)|' + re.escape(ops[0]) + '|' + re.escape(ops[1]) + '|' + atom_re, expr)
    pos = 0

    def peek():
        return toks[pos] if pos < len(toks) else None

    def eat():
        nonlocal pos
        pos += 1
        return toks[pos - 1]

    def p_or():
        left = p_and()
        while peek() == ops[1]:
            eat()
            left = ['or', left, p_and()]
        return left

    def p_and():
        left = p_atom()
        while peek() == ops[0]:
            eat()
            left = ['and', left, p_atom()]
        return left

    def p_atom():
        t = eat()
        if t == '(':
            e = p_or()
            assert eat() == ')'
            return e
        return ['atom', t]
    e = p_or()
    assert pos == len(toks), (expr, toks, pos)
    return e


def flows_of(itask):
    return sorted(itask.flow_nums)


# ---------------------------------------------------------------------------

class Run:
    def __init__(self, case):
        self.case = case
        self.id = 'w' + re.sub(r'[^A-Za-z0-9]', '', str(case['id']))
        self.launched = []       # launches of the current op
        self.jobs = {}           # (id, submit_num) -> job dict (policy bookkeeping)
        self.stop_reason = None
        self.schd = None
        self.fails = {}
        self.msgs = []           # processed messages of the current op (C09/C10 judges)
        self.trans = []          # status changes of the current op
        self.msg_depth = 0
        self.msg_top = -1
        self.poll_reqs = []      # polls requested by the scheduler, to be answered (policy p_poll)

    # -- set up ------------------------------------------------------------
    async def start(self, restart=False):
        run_dir = Path(_SCRATCH) / 'cylc-run' / self.id
        if not restart:
            run_dir.mkdir(parents=True, exist_ok=True)
            (run_dir / 'flow.cylc').write_text(self.case['flow'])
        opts = dict(paused_start=False, run_mode='simulation')
        opts.update(self.case.get('opts') or {})
        if restart:
            opts.pop('startcp', None)       # not valid for a restart (restored from the DB)
            # additive (C06): a start-up hold point (`--hold-after`, only set by generator option p_start_hold)
            # is given once; a restart is a plain `cylc play` and takes the hold point from the DB
            opts.pop('holdcp', None)
        schd = Scheduler(self.id, RunOptions(**opts))
        self.schd = schd
        # additive (C25, off unless the policy sets obs_ds): capture the published data-store deltas, keep a
        # subscriber store by the real apply_delta, snapshot pool vs store after every data-store update
        # (observation key 'ds', see dsobs.py)
        if (self.case.get('policy') or {}).get('obs_ds'):
            import dsobs
            if getattr(self, 'dsobs', None) is None:
                self.dsobs = dsobs.DsObs(self)
            self.dsobs.pre_start(schd)
        await schd.install()
        await schd.start()
        if getattr(self, 'dsobs', None) is not None:
            self.dsobs.post_start(schd)
        schd.INTERVAL_MAIN_LOOP = 0
        schd.INTERVAL_MAIN_LOOP_QUICK = 0
        tjm = schd.task_job_mgr
        run = self

        real_prep = TaskJobManager._prep_submit_task_job

        def _prep(itask, check_syntax=True):
            key = [int(itask.point), itask.tdef.name, itask.submit_num]
            if run._prep_fails(key):
                # additive (C02, off unless the policy sets p_prep_fail or a loop op lists "prepfail"): job-file
                # preparation raises for this submission.  The REAL _prep_submit_task_job runs, with
                # JobFileWriter.write raising, so the real '(prepare job file)' exception handler and
                # _prep_submit_task_job_error (submit-failed via the preparation path) are exercised
                jfw = tjm.job_file_writer
                orig_write = jfw.write

                def boom(*a, **k):
                    raise IOError('verif: job file preparation failure')
                jfw.write = boom
                itask.run_mode = RunMode.LIVE
                try:
                    ret = real_prep(tjm, itask, check_syntax)
                finally:
                    jfw.write = orig_write
                run.__dict__.setdefault('prepfail', []).append(key)
                return ret
            TaskJobManager._set_retry_timers(itask)
            itask.waiting_on_job_prep = False
            itask.run_mode = RunMode.LIVE
            return itask
        tjm._prep_submit_task_job = _prep

        def submit(itasks, *a, **k):
            itasks = list(itasks)
            # additive (C06 judge, observation key 'prep'): every proxy handed to job preparation,
            # with its held / manual-submit flags at that moment
            run.__dict__.setdefault('prepped', []).extend(
                [int(t.point), t.tdef.name, bool(t.state.is_held), bool(t.is_manual_submit)] for t in itasks)
            good, _bad = tjm.prep_submit_task_jobs(list(itasks))
            for itask in good:
                run.launched.append([int(itask.point), itask.tdef.name, itask.submit_num])
                # additive (C28, observation key 'launch_x'): the flows and manual-submit flag of every launch;
                # as in live mode (submit_livelike_task_jobs) the manual-submit flag is cleared once the job
                # is handed over (only ever set by `cylc trigger`, so runs without triggers are unaffected)
                run.__dict__.setdefault('launch_x', []).append(
                    [int(itask.point), itask.tdef.name, itask.submit_num, flows_of(itask),
                     bool(itask.is_manual_submit)])
                itask.is_manual_submit = False
            return good
        schd.submit_task_jobs = submit
        if (self.case.get('policy') or {}).get('live_submit'):
            # additive (C03Q, off unless the policy sets live_submit): the prepared jobs go through the REAL
            # TaskJobManager.submit_livelike_task_jobs (platform bookkeeping, task_jobs row, the reset of
            # is_manual_submit at hand-over); nothing reaches the process pool because job preparation (stub
            # above) has already cleared waiting_on_job_prep.  The stub no longer clears the manual-submit flag.
            def submit_live(itasks, *a, **k):
                itasks = list(itasks)
                run.__dict__.setdefault('prepped', []).extend(
                    [int(t.point), t.tdef.name, bool(t.state.is_held), bool(t.is_manual_submit)] for t in itasks)
                real_psj = tjm.prep_submit_task_jobs
                seen = {}

                def psj(its, *aa, **kk):
                    good, bad = real_psj(its, *aa, **kk)
                    seen['good'] = list(good)
                    for t in good:
                        if not t.summary.get('job_runner_name'):
                            t.summary['job_runner_name'] = 'background'
                        run.launched.append([int(t.point), t.tdef.name, t.submit_num])
                        run.__dict__.setdefault('launch_x', []).append(
                            [int(t.point), t.tdef.name, t.submit_num, flows_of(t), bool(t.is_manual_submit)])
                    return good, bad
                tjm.prep_submit_task_jobs = psj
                try:
                    TaskJobManager.submit_livelike_task_jobs(tjm, itasks)
                finally:
                    tjm.__dict__.pop('prep_submit_task_jobs', None)
                return seen.get('good', [])
            schd.submit_task_jobs = submit_live
        if (self.case.get('policy') or {}).get('vclock'):
            # additive (C03Q, off unless the policy sets vclock): a virtual clock for the retry timers - the `time`
            # read by TaskActionTimer (retry delay -> time-out) and by the wall_clock xtrigger (retry xtriggers) is
            # the real time plus an offset that only the op 'tick' advances
            self._install_vclock()
        # polls requested by the scheduler are recorded, not executed
        self.polls = []
        tjm.poll_task_jobs = lambda itasks, msg=None: run.polls.extend(
            [int(t.point), t.tdef.name] for t in itasks)
        self._instrument(schd)
        self._instrument_pool(schd)
        self._instrument_db(schd)
        return schd

    # -- additive instrumentation (C20): count the calls of process_queued_ops (the commit boundaries of the
    #    private database) per op: observation key 'ncommit'; behaviour unchanged
    def _instrument_db(self, schd):
        run = self
        mgr = schd.workflow_db_mgr
        orig = mgr.process_queued_ops
        self.ncommit = getattr(self, 'ncommit', 0)

        def process_queued_ops(*a, **k):
            run.ncommit += 1
            run.nstmt_cur = 0
            try:
                return orig(*a, **k)
            finally:
                # observation key 'nstmts': the number of statements of each private-database transaction of the op
                run.__dict__.setdefault('nstmts', []).append(run.nstmt_cur)
        mgr.process_queued_ops = process_queued_ops
        dao = mgr.pri_dao
        if dao is not None:
            orig_stmt = dao._execute_stmt

            def _execute_stmt(*a, **k):
                run.nstmt_cur = getattr(run, 'nstmt_cur', 0) + 1
                return orig_stmt(*a, **k)
            dao._execute_stmt = _execute_stmt

    # -- additive (C03Q): virtual clock for retry timers, see start(); pending retry timers
    def _install_vclock(self):
        import time as _t
        import cylc.flow.task_action_timer as _tat
        import cylc.flow.xtriggers.wall_clock as _wc
        run = self
        self.clock_off = getattr(self, 'clock_off', 0.0)
        if not hasattr(self, '_vclock_saved'):
            self._vclock_saved = (_tat.time, _wc.time)

        def vtime():
            return _t.time() + run.clock_off
        _tat.time = vtime
        _wc.time = vtime
        self.vtime = vtime

    def _remove_vclock(self):
        saved = self.__dict__.pop('_vclock_saved', None)
        if saved is not None:
            import cylc.flow.task_action_timer as _tat
            import cylc.flow.xtriggers.wall_clock as _wc
            _tat.time, _wc.time = saved

    def retry_waiting(self):
        """Pooled tasks with an unsatisfied retry xtrigger whose trigger time has not been reached yet (under the
        clock in use): [[point, name], ...] sorted.  Empty with zero retry delays."""
        import time as _t
        now = getattr(self, 'vtime', _t.time)()
        out = []
        xm = self.schd.xtrigger_mgr
        for itask in self.schd.pool.get_tasks():
            for label, sat in itask.state.xtriggers.items():
                if sat or not (label.startswith('_cylc_retry') or label.startswith('_cylc_submit_retry')):
                    continue
                try:
                    tt = xm.xtriggers.functx_map[label].func_kwargs.get('trigger_time')
                except Exception:
                    tt = None
                if tt is not None and not now > tt:
                    out.append([int(itask.point), itask.tdef.name])
                    break
        return sorted(out)

    def _prep_fails(self, key):
        """additive (C02): does job-file preparation fail for submission [point, name, submit_num]?
        Replay: exactly the submissions listed under "prepfail" of the current loop op; adaptive: a seeded function of
        the case seed and the submission (policy p_prep_fail), so no draw from the schedule's random sequence."""
        cur = getattr(self, 'cur_prepfail', None)
        if cur is not None:
            return [f'{key[0]}/{key[1]}', key[2]] in cur
        p = (self.case.get('policy') or {}).get('p_prep_fail')
        if not p or self.case.get('ops') is not None:
            return False
        return random.Random(f'{self.case.get("seed", 0)}/pf/{key[0]}/{key[1]}/{key[2]}').random() < p

    # -- additive instrumentation for the C07 / C11S / C03 judges (extra observation keys
    #    'adds', 'removed', 'stall_at'; the model does not predict them; behaviour unchanged)
    def _snap_pool(self, with_flows=False):
        out = []
        for itask in self.schd.pool.get_tasks():
            out.append({
                **({'fl': flows_of(itask)} if with_flows else {}),
                'p': int(itask.point), 'n': itask.tdef.name, 'st': itask.state.status,
                'held': bool(itask.state.is_held), 'q': bool(itask.state.is_queued),
                'rh': bool(itask.state.is_runahead), 'sn': itask.submit_num,
                'out': sorted(t for t, _m, done in itask.state.outputs if done),
                'pre': [sorted([int(str(k.point)), k.task, k.output, bool(v)] for k, v in pre.items())
                        for pre in itask.state.prerequisites],
            })
        out.sort(key=lambda d: (d['p'], d['n']))
        return out

    def _instrument_pool(self, schd):
        run = self
        pool = schd.pool
        # (C20, additive: what a scheduler that died in this op had added / removed before it died stays in the
        # observation of the op; observe() empties the lists after every op, so nothing else changes)
        self.adds, self.removed, self.stall_at = getattr(self, 'adds', []), getattr(self, 'removed', []), None
        _add, _remove, _stalled = pool.add_to_pool, pool.remove, pool.is_stalled

        def add_to_pool(itask, *a, **k):
            run.adds.append([int(itask.point), itask.tdef.name])
            return _add(itask, *a, **k)

        def remove(itask, reason=None, *a, **k):
            # additive (C30 policy 'retrig_done'): cumulative record of the proxies that left the pool
            run.__dict__.setdefault('all_removed', []).append(
                [int(itask.point), itask.tdef.name, itask.state.status, None, reason])
            run.removed.append([
                int(itask.point), itask.tdef.name, itask.state.status,
                sorted(t for t, _m, done in itask.state.outputs if done), reason])
            return _remove(itask, reason, *a, **k)

        def is_stalled(*a, **k):
            res = _stalled(*a, **k)
            if res:
                rl = pool.runahead_limit_point
                run.stall_at = {'pool': run._snap_pool(), 'rl': None if rl is None else int(rl)}
                if (run.case.get('policy') or {}).get('vclock'):
                    run.stall_at['rwait'] = run.retry_waiting()      # additive (C03Q)
            return res
        pool.add_to_pool, pool.remove, pool.is_stalled = add_to_pool, remove, is_stalled

    def _instrument(self, schd):
        """Log every process_message call (flag, message, state before/after, return value)."""
        global _CUR
        _CUR = self
        run = self
        tem = schd.task_events_mgr
        orig = tem.process_message
        flags = {tem.FLAG_INTERNAL: 'internal', tem.FLAG_RECEIVED: 'received', tem.FLAG_POLLED: 'polled'}

        def snap(itask):
            tries = []
            for key in ('submission-retry', 'execution-retry'):     # TimerFlags
                timer = itask.try_timers.get(key)
                tries.append(0 if timer is None else int(timer.num))
            return [itask.state.status, itask.submit_num,
                    sorted(t for t, _m, done in itask.state.outputs if done), tries]

        def pm(itask, severity, message, event_time=None, flag=tem.FLAG_INTERNAL,
               submit_num=None, forced=False):
            rec = None
            try:
                rec = {
                    'p': int(itask.point), 'n': itask.tdef.name, 'fl': flags.get(flag, str(flag)),
                    'sn': itask.submit_num if submit_num is None else submit_num, 'm': message,
                    'd': run.msg_depth, 'tr': bool(itask.transient), 'forced': bool(forced),
                    'in': schd.pool._get_task_by_id(itask.identity) is itask,
                    'b': snap(itask), 'a': None, 'r': None}
                if run.msg_depth == 0:
                    run.msg_top = len(run.msgs)
                run.msgs.append(rec)
            except Exception:
                rec = None
            run.msg_depth += 1
            try:
                ret = orig(itask, severity, message, event_time, flag, submit_num, forced)
            finally:
                run.msg_depth -= 1
                if run.msg_depth == 0:
                    run.msg_top = -1
            if rec is not None:
                try:
                    rec['a'] = snap(itask)
                    rec['r'] = bool(ret)
                except Exception:
                    pass
            return ret
        tem.process_message = pm

    # -- observation ---------------------------------------------------------
    def observe(self, after_loop=False):
        schd = self.schd
        tp = schd.pool
        # bookkeeping of the pool, read before get_tasks() refreshes the cache (C26)
        flat = [t for m in tp.active_tasks.values() for t in m.values()]
        book = {
            'cache_ok': bool(tp.active_tasks_changed) or (
                [id(t) for t in tp._active_tasks_list] == [id(t) for t in flat]),
            'empty_bucket': any(not m for m in tp.active_tasks.values()),
            'key_ok': all(t.identity == k and t.point == p
                          for p, m in tp.active_tasks.items() for k, t in m.items()),
            'dup': len({(str(t.point), t.tdef.name) for t in flat}) != len(flat),
        }
        db = None
        if after_loop and self.stop_reason is None:
            import sqlite3
            con = sqlite3.connect(schd.workflow_db_mgr.pri_path, timeout=5)
            try:
                db = sorted(
                    [int(c), n, json.loads(f), st, bool(h)]
                    for c, n, f, st, h in con.execute(
                        'SELECT cycle, name, flow_nums, status, is_held FROM task_pool'))
            finally:
                con.close()
        pool = []
        for itask in schd.pool.get_tasks():
            prereqs = []
            for pre in itask.state.prerequisites:
                prereqs.append(sorted(
                    [int(str(k.point)), k.task, k.output, bool(v)] for k, v in pre.items()))
            pool.append({
                'p': int(itask.point), 'n': itask.tdef.name, 'st': itask.state.status,
                'held': bool(itask.state.is_held), 'q': bool(itask.state.is_queued),
                'rh': bool(itask.state.is_runahead), 'fl': flows_of(itask),
                'sn': itask.submit_num,
                'out': sorted(t for t, _m, done in itask.state.outputs if done),
                'pre': sorted(prereqs, key=lambda a: json.dumps(a, separators=(',', ':'))),
            })
        pool.sort(key=lambda d: (d['p'], d['n']))
        rl = schd.pool.runahead_limit_point
        obs = {
            'pool': pool,
            'launch': sorted(self.launched),
            'polls': sorted(self.polls),
            'stalled': bool(schd.is_stalled),
            'stop': self.stop_reason,
            'rl': None if rl is None else int(rl),
            'book': book,
            'db': db,
            'msgs': self.msgs,
            'trans': self.trans,
            'hold': {'tasks': sorted([int(pt), n] for n, pt in tp.tasks_to_hold),
                     'point': None if tp.hold_point is None else int(tp.hold_point)},
            'stop_point': None if tp.stop_point is None else int(tp.stop_point),
            'paused': bool(schd.is_paused),
            'stop_mode': None if schd.stop_mode is None else schd.stop_mode.value,
            'adds': sorted(getattr(self, 'adds', [])),
            'removed': sorted(getattr(self, 'removed', []), key=lambda r: (r[0], r[1])),
            'stall_at': getattr(self, 'stall_at', None),
            # additive (C03Q, only with policy vclock): tasks waiting for a retry delay that is not over yet
            **({'rwait': self.retry_waiting()} if (self.case.get('policy') or {}).get('vclock') else {}),
            'prep': sorted(getattr(self, 'prepped', [])),
            # additive (C02): submissions whose job-file preparation failed in this op, in processing order
            'prepfail': list(getattr(self, 'prepfail', [])),
            # additive (C43 judge): the stop task and its finished flag; after a 'restart' op the
            # workflow_params rows (stopcp, stop_task) the stopped scheduler left in the database
            'stop_task': tp.stop_task_id,
            'stop_task_fin': bool(tp.stop_task_finished),
            'db_shutdown': self.__dict__.pop('db_shutdown', None),
            # additive (C19 judge): the record of completed absolute outputs and the flow counter
            'abs_done': sorted([int(str(c)), str(n), str(o)] for c, n, o in tp.abs_outputs_done),
            'flow_counter': int(schd.flow_mgr.counter),
            # additive (C19 broadcasts): the broadcast store, one entry per item [point, namespace, key, value]
            # (key as in the broadcast_states table: [section]item), sorted
            'bcast': _flat_broadcasts(schd.broadcast_mgr.broadcasts),
        }
        # additive (C28, group trigger): launches with flows / manual flag; per-proxy trigger state
        # (manual-submit, flow-wait, waiting-on-job-prep, how each prerequisite atom was satisfied);
        # the trigger-now and pre-start sets; with policy 'obs_db' the task_states / task_outputs tables
        obs['launch_x'] = sorted(self.__dict__.pop('launch_x', []))
        obs['xt'], obs['xdb'] = self._observe_trig()
        # additive (C29 / C08S, `cylc set` + flows): pooled instances with the flow-wait flag up, the flows the
        # flow manager knows, and the committed rows of task_states joined with task_outputs (queued DB
        # operations are not visible until the scheduler flushes its queue)
        obs['fw'] = sorted([int(t.point), t.tdef.name] for t in schd.pool.get_tasks() if t.flow_wait)
        # additive (C29): the xtriggers of the pooled proxies (incl. the dynamic retry xtriggers) and whether satisfied
        obs['xtr'] = sorted([int(t.point), t.tdef.name, str(lb), bool(v)]
                            for t in schd.pool.get_tasks() for lb, v in t.state.xtriggers.items())
        # additive (C29): the suicide prerequisites of the pooled proxies that have any: [p, name, [[atom..]..]]
        obs['suip'] = sorted(
            [int(t.point), t.tdef.name,
             sorted((sorted([int(str(k.point)), k.task, k.output, bool(v)] for k, v in pre.items())
                     for pre in t.state.suicide_prerequisites), key=lambda a: json.dumps(a, separators=(',', ':')))]
            for t in schd.pool.get_tasks() if t.state.suicide_prerequisites)
        obs['flows_known'] = sorted(int(f) for f in schd.flow_mgr.flows)
        obs['ts'] = self._observe_ts() if self.stop_reason is None else None
        # additive (C27): pool snapshots immediately before / after the reload command of this op (and the queued
        # set after the sweep of the same main loop); for a main loop right after a reload: the queued set after its sweep
        obs['reload'] = self.__dict__.pop('reload_snaps', None)
        sw = self.__dict__.pop('swept_snaps', None)
        obs['reload_swept'] = None if sw is None else sw['swept']
        # additive (C30 judge): the suicide prerequisites of the pooled proxies that have any, with the way each
        # atom was satisfied (0 no / 1 naturally / 2 from database / 3 forced): [point, name, [[atom..]..]]
        _sat = {False: 0, 'satisfied naturally': 1, 'satisfied from database': 2, 'force satisfied': 3}
        _jkey = lambda a: json.dumps(a, separators=(',', ':'))     # noqa: E731
        # additive (C05S, queue limits at scheduler level): the pool in get_tasks() order (= queue push order), the
        # internal queues [name, limit, [[point, name]..]] with each deque listed head first (next to be released
        # first), and the proxies waiting on job preparation
        # additive (C26S, pool bookkeeping under `cylc set` / flows / restart): the look-up paths of the pool against
        # the objects filed in `active_tasks` (`flat`, read above before get_tasks() refreshed the cache):
        # _get_task_by_id / get_task return the filed object itself, identities are unique, no pooled object is
        # marked transient, the refreshed task list is exactly the filed objects, get_task_ids() are their ids,
        # every proxy sitting in an internal queue / in the trigger-now set is the pooled object of its id
        obs['idx'] = {
            'n': len(flat),
            'byid': all(tp._get_task_by_id(t.identity) is t for t in flat),
            'get_task': all(tp.get_task(t.point, t.tdef.name) is t for t in flat),
            'ids': len({t.identity for t in flat}) == len(flat),
            'list': [id(t) for t in tp.get_tasks()] == [id(t) for t in flat],
            'task_ids': tp.get_task_ids() == {t.identity for t in flat},
            'transient': sorted([int(t.point), t.tdef.name] for t in flat if t.transient),
            'queued_out': sorted([int(t.point), t.tdef.name] for q in tp.task_queue_mgr.queues.values()
                                 for t in q.deque if tp._get_task_by_id(t.identity) is not t),
            'now_out': sorted([int(t.point), t.tdef.name] for t in tp.tasks_to_trigger_now
                              if tp._get_task_by_id(t.identity) is not t),
        }
        obs['order'] = [[int(t.point), t.tdef.name] for t in schd.pool.get_tasks()]
        obs['qs'] = [[qn, int(q.limit), [[int(t.point), t.tdef.name] for t in reversed(q.deque)]]
                     for qn, q in tp.task_queue_mgr.queues.items()]
        obs['wjp'] = sorted([int(t.point), t.tdef.name] for t in schd.pool.get_tasks() if t.waiting_on_job_prep)
        # additive (C05S, manual triggers against queue limits): the proxies with the manual-submit flag up
        obs['man'] = sorted([int(t.point), t.tdef.name] for t in schd.pool.get_tasks() if t.is_manual_submit)
        # additive (C04F / C07F, future triggers): the cached TaskPool.max_future_offset and the lazily raised
        # max_future_prereq_offset of the task definitions that have one
        obs['mfo'] = None if tp.max_future_offset is None else int(tp.max_future_offset)
        # (and the base point the limit was last computed from: TaskPool._prev_runahead_base_point)
        obs['pb'] = None if tp._prev_runahead_base_point is None else int(tp._prev_runahead_base_point)
        obs['toff'] = sorted([n, int(d.max_future_prereq_offset)] for n, d in schd.config.taskdefs.items()
                             if d.max_future_prereq_offset is not None)
        obs['xsui'] = sorted((
            [int(t.point), t.tdef.name, sorted((
                sorted([int(str(k.point)), k.task, k.output, _sat.get(v, 9)] for k, v in pre.items())
                for pre in t.state.suicide_prerequisites), key=_jkey)]
            for t in schd.pool.get_tasks() if t.state.suicide_prerequisites), key=_jkey)
        # additive (C20): number of database commit boundaries (process_queued_ops calls) the op went through (up to
        # the one it died at, for a crashed main loop); whether the op ended with a crash + restart
        obs['ncommit'] = getattr(self, 'ncommit', 0)
        self.ncommit = 0
        obs['nstmts'] = self.__dict__.pop('nstmts', [])
        obs['crashed'] = bool(self.__dict__.pop('just_crashed', False))
        obs['dead_db'] = self.__dict__.pop('dead_db', None)
        self.prepped = []
        self.prepfail = []
        self.adds, self.removed, self.stall_at = [], [], None
        self.launched = []
        self.polls = []
        self.msgs = []
        self.trans = []
        if getattr(self, 'dsobs', None) is not None:
            obs['ds'] = self.dsobs.observe()        # additive (C25, only with policy obs_ds; see dsobs.py)
        return obs

    def _observe_ts(self):
        """additive (C29 / C08S): observation key 'ts' = rows of task_states with the outputs of the
        task_outputs row of the same key: [point, name, flows, status, submit_num, flow_wait,
        [[trigger, forced]..] | null], sorted."""
        import sqlite3
        from cylc.flow.task_outputs import FORCED_COMPLETION_MSG
        con = sqlite3.connect(self.schd.workflow_db_mgr.pri_path, timeout=5)
        try:
            outs = {(c, n, f): json.loads(o) for c, n, f, o in con.execute(
                'SELECT cycle, name, flow_nums, outputs FROM task_outputs')}
            rows = []
            for n, c, f, sn, fw, st in con.execute(
                    'SELECT name, cycle, flow_nums, submit_num, flow_wait, status FROM task_states'):
                o = outs.get((c, n, f))
                if isinstance(o, dict):
                    o = sorted([t, m == FORCED_COMPLETION_MSG] for t, m in o.items())
                rows.append([int(c), n, json.loads(f), st, int(sn or 0), bool(fw), o])
            return sorted(rows, key=lambda r: (r[0], r[1], r[2]))
        finally:
            con.close()

    def _observe_trig(self):
        """additive (C28): observation key 'xt' (see observe)."""
        schd = self.schd
        tp = schd.pool
        _SAT = {False: 0, 'satisfied naturally': 1, 'satisfied from database': 2,
                'force satisfied': 3, 'satisfied by skip mode': 4}
        pool = []
        for itask in tp.get_tasks():
            pre = []
            for p in itask.state.prerequisites:
                pre.append(sorted([int(str(k.point)), k.task, k.output, _SAT.get(v, 9)] for k, v in p.items()))
            pool.append({
                'p': int(itask.point), 'n': itask.tdef.name, 'man': bool(itask.is_manual_submit),
                'fw': bool(itask.flow_wait), 'wjp': bool(itask.waiting_on_job_prep),
                'pre': sorted(pre, key=lambda a: json.dumps(a, separators=(',', ':')))})
        pool.sort(key=lambda d: (d['p'], d['n']))
        out = {
            'pool': pool,
            'now': sorted([int(t.point), t.tdef.name] for t in tp.tasks_to_trigger_now),
            'pre_start': sorted([int(pt), n] for n, pt in tp.pre_start_tasks_to_trigger),
            # the connected groups the trigger command of this op was split into
            'groups': sorted(sorted(grp) for grp in self.__dict__.pop('trig_groups', [])),
        }
        xdb = None
        if (self.case.get('policy') or {}).get('obs_db') and self.stop_reason is None:
            import sqlite3
            con = sqlite3.connect(schd.workflow_db_mgr.pri_path, timeout=5)
            try:
                xdb = {}
                xdb['states'] = sorted(
                    [int(c), n, json.loads(f), int(sn or 0), bool(fw), st, bool(man)]
                    for n, c, f, sn, fw, st, man in con.execute(
                        'SELECT name, cycle, flow_nums, submit_num, flow_wait, status, is_manual_submit '
                        'FROM task_states'))
                xdb['outputs'] = sorted(
                    [int(c), n, json.loads(f), sorted(json.loads(o))]
                    for c, n, f, o in con.execute('SELECT cycle, name, flow_nums, outputs FROM task_outputs'))
            finally:
                con.close()
        return out, xdb

    # -- ops -------------------------------------------------------------------
    async def apply(self, op):
        schd = self.schd
        kind = op['op']
        if kind != 'loop':
            self.__dict__.pop('reload_pending_sweep', None)
        if kind == 'loop' and op.get('crash_at') is not None:
            # additive (C20): a main loop in which the scheduler dies at its crash_at-th commit boundary
            await self.crash_loop(op)
        elif kind == 'crash':
            # additive (C20): the scheduler dies between two ops; a new Scheduler restarts from the database
            await self.crash_restart()
        elif kind == 'loop':
            # additive (C19 policies 'stops' / 'redeliver'): count main loops; a loop that did not shut
            # down has processed the message queue
            self.loops_done = getattr(self, 'loops_done', 0) + 1
            pend = self.__dict__.pop('reload_pending_sweep', None)
            if pend is not None:
                # additive (C27): the op before was a reload run between main loops: its observation is completed
                # by the queued set after this loop's sweep (reported under key 'reload_swept' of this op)
                self.swept_snaps = {'swept': None}
                self._hook_sweep(self.swept_snaps)
            # additive (C02): the preparation failures of this loop: given by the op on replay, else decided by the
            # policy and recorded into the op afterwards
            self.cur_prepfail = (op.get('prepfail') or []) if self.case.get('ops') is not None else None
            n_pf = len(getattr(self, 'prepfail', []))
            try:
                await schd._main_loop()
                self.unprocessed = []
            except SchedulerStop as exc:
                self.stop_reason = str(exc.args[0]) if exc.args else 'stop'
            finally:
                schd.pool.__dict__.pop('clock_expire_tasks', None)
            new_pf = getattr(self, 'prepfail', [])[n_pf:]
            if new_pf and self.case.get('ops') is None:
                op['prepfail'] = [[f'{k[0]}/{k[1]}', k[2]] for k in new_pf]
        elif kind == 'tick':
            # additive (C03Q, policy vclock): the virtual clock of the retry timers moves on (past every pending delay)
            self.clock_off = getattr(self, 'clock_off', 0.0) + float(op.get('dt', 4000))
        elif kind == 'subres':
            itask = schd.pool._get_task_by_id(op['task'])
            if itask is not None:
                schd.task_events_mgr.process_message(
                    itask, 'INFO' if op['ok'] else 'CRITICAL',
                    'submitted' if op['ok'] else 'submission failed',
                    None, TaskEventsManager.FLAG_INTERNAL, op.get('sn'))
        elif kind == 'msg':
            point, name = op['task'].split('/')
            job_id = Tokens(cycle=point, task=name, job=f'{op["sn"]:02d}')
            schd.message_queue.put(TaskMsg(job_id, '2000-01-01T00:00:00Z', op.get('sev', 'INFO'), op['msg']))
        elif kind == 'poll':
            itask = schd.pool._get_task_by_id(op['task'])
            if itask is not None:
                schd.task_events_mgr.process_message(
                    itask, 'INFO', op['msg'], None, TaskEventsManager.FLAG_POLLED, op.get('sn'))
        elif kind == 'pollres':
            # the result of a jobs-poll command for job (task, sn), fed through the REAL callback chain:
            # TaskJobManager._poll_task_jobs_callback -> _manip_task_jobs_callback (output lines are matched to
            # task proxies by point/name/CURRENT submit number) -> _poll_task_job_callback (job status ->
            # message) -> process_message(FLAG_POLLED).  op['state']: submitted | started | succeeded | failed |
            # submission failed | <a message text found in the job status file>
            itask = schd.pool._get_task_by_id(op['task'])
            if itask is not None:
                self.poll_result(itask, op)
        elif kind == 'cmd':
            name, kwargs = op['name'], dict(op.get('args') or {})
            fn = getattr(commands, name)
            if 'tasks' in kwargs:
                kwargs['tasks'] = list(kwargs['tasks'])
            if name == 'stop':
                from cylc.flow.workflow_status import StopMode
                kwargs['mode'] = StopMode(kwargs['mode']) if kwargs.get('mode') else None
            if name == 'force_trigger_tasks':
                # additive (C28): record the connected groups in the order the command handles them (a Python
                # set order; the hint 'groups' is written back into the op for the model)
                # (likewise 'hints': per group the iteration orders of the active members, of the ids handed
                # to the removal and of the respawns -- pool-bucket / set orders the model does not predict)
                orig_ftt, orig_rm, orig_sp = (
                    commands._force_trigger_tasks, commands._remove_matched_tasks, schd.pool._set_prereqs_tdef)
                groups, hints, run = [], [], self

                def _ftt(schd_, group_ids, *a, **k):
                    groups.append([[int(t['cycle']), t['task']] for t in group_ids])
                    hints.append({'act': [f'{int(t.point)}/{t.tdef.name}' for t in schd_.pool.get_itasks(group_ids)],
                                  'rm': [], 'sp': []})
                    return orig_ftt(schd_, group_ids, *a, **k)

                def _rm(schd_, ids, flow_nums, *a, **k):
                    if hints:
                        hints[-1]['rm'] = [f"{int(t['cycle'])}/{t['task']}" for t in ids]
                        hints[-1]['fn'] = sorted(flow_nums)     # the flow numbers the group is triggered in
                    # additive (C30, hint 'ch'): per removed id the order in which its graph children (a set) are walked
                    orig_ggc = commands.generate_graph_children
                    child_order = []

                    def _ggc(tdef, point):
                        import itertools
                        res = orig_ggc(tdef, point)
                        child_order.append([f'{int(point)}/{tdef.name}', [
                            f'{int(c.point)}/{c.name}' for c in set(itertools.chain.from_iterable(res.values()))]])
                        return res
                    commands.generate_graph_children = _ggc
                    try:
                        return orig_rm(schd_, ids, flow_nums, *a, **k)
                    finally:
                        commands.generate_graph_children = orig_ggc
                        if hints:
                            hints[-1]['ch'] = child_order

                def _sp(point, taskdef, *a, **k):
                    if hints:
                        hints[-1]['sp'].append(f'{int(point)}/{taskdef.name}')
                    return orig_sp(point, taskdef, *a, **k)
                commands._force_trigger_tasks = _ftt
                commands._remove_matched_tasks = _rm
                schd.pool._set_prereqs_tdef = _sp
                try:
                    await commands.run_cmd(fn(schd, **kwargs))
                finally:
                    commands._force_trigger_tasks = orig_ftt
                    commands._remove_matched_tasks = orig_rm
                    schd.pool._set_prereqs_tdef = orig_sp
                    self.trig_groups = groups
                    op['groups'] = [sorted(f'{p}/{n}' for p, n in grp) for grp in groups]
                    op['hints'] = hints
                    # the jobs of proxies removed by the command are killed: nothing more is heard of them
                    for p, n, _st, _outs, reason in getattr(self, 'removed', []):
                        if reason == 'request':
                            for key in [k for k in self.jobs if k[0] == p and k[1] == n]:
                                self.jobs.pop(key)
                return
            if name == 'remove_tasks':
                # additive (C30): `cylc remove`.  The matched ids are a Python set: the order in which
                # _remove_matched_tasks walks them is written back into the op (hint 'rm') for the model
                orig_rm = commands._remove_matched_tasks
                orig_ggc = commands.generate_graph_children
                order, child_order = [], []

                def _rm(schd_, ids, flow_nums, *a, **k):
                    ids = list(ids)
                    order.extend(f"{int(t['cycle'])}/{t['task']}" for t in ids)
                    return orig_rm(schd_, ids, flow_nums, *a, **k)

                def _ggc(tdef, point):
                    # (hint 'ch') the graph children of each matched id are walked as a Python set: the same set,
                    # built the same way, gives the order
                    import itertools
                    res = orig_ggc(tdef, point)
                    child_order.append([f'{int(point)}/{tdef.name}', [
                        f'{int(c.point)}/{c.name}' for c in set(itertools.chain.from_iterable(res.values()))]])
                    return res
                commands._remove_matched_tasks = _rm
                commands.generate_graph_children = _ggc
                try:
                    await commands.run_cmd(fn(schd, **kwargs))
                finally:
                    commands._remove_matched_tasks = orig_rm
                    commands.generate_graph_children = orig_ggc
                    op['rm'] = order
                    op['ch'] = child_order
                    # the jobs of proxies removed by the command are killed: nothing more is heard of them
                    for p, n, _st, _outs, reason in getattr(self, 'removed', []):
                        if reason == 'request':
                            for key in [k for k in self.jobs if k[0] == p and k[1] == n]:
                                self.jobs.pop(key)
                return
            if name == 'release':
                # additive (C05S): the matched ids are a Python set; the order in which the pooled ones are released
                # (= the order in which they are pushed to their queues) is written back into the op (hint 'order')
                orig_rel = schd.pool.release_held_active_task
                order = []

                def _rel(itask, *a, **k):
                    order.append(f'{int(itask.point)}/{itask.tdef.name}')
                    return orig_rel(itask, *a, **k)
                schd.pool.release_held_active_task = _rel
                try:
                    await commands.run_cmd(fn(schd, **kwargs))
                finally:
                    del schd.pool.release_held_active_task
                    op['order'] = order
                return
            await commands.run_cmd(fn(schd, **kwargs))
        elif kind == 'reload':
            # additive (C27): `cylc reload` after rewriting flow.cylc with op['flow'] (see Run.reload)
            await self.reload(op)
        elif kind == 'bcast':
            # additive (C19 broadcasts): a broadcast request as the server receives it (resolvers.broadcast calls
            # the BroadcastMgr directly, not through the command queue); settings / cancel = lists of leaves
            # [[section.., item], value]
            from cylc.flow.network.schema import BroadcastMode
            mode = {'put': BroadcastMode.Set, 'clear': BroadcastMode.Clear, 'expire': BroadcastMode.Expire}[op['mode']]
            settings = None
            if op['mode'] == 'put':
                settings = [_nest(leaves) for leaves in op.get('settings') or []]
            elif op.get('cancel'):
                settings = [_nest([[path, None]]) for path in op['cancel']]
            schd.server.resolvers.broadcast(
                mode, cycle_points=list(op.get('points') or []) or None,
                namespaces=list(op.get('namespaces') or []) or None, settings=settings,
                cutoff=op.get('cutoff'))
        elif kind == 'restart':
            # clean shutdown of the stopped scheduler, then a new Scheduler on the same run directory
            await self.stop_scheduler()
            self.stop_reason = None
            try:
                # additive (C43 judge, observation key 'db_shutdown'): what the shutdown left in the DB
                import sqlite3
                con = sqlite3.connect(schd.workflow_db_mgr.pri_path, timeout=5)
                try:
                    rows = dict(con.execute(
                        "SELECT key, value FROM workflow_params WHERE key IN ('stopcp', 'stop_task')"))
                finally:
                    con.close()
                self.db_shutdown = {'stopcp': rows.get('stopcp'), 'stop_task': rows.get('stop_task')}
            except Exception:
                self.db_shutdown = None
            await self.start(restart=True)
        elif kind == 'window':
            # additive (C25): what Resolvers.set_graph_window_extent does for the setGraphWindowExtent mutation
            schd.data_store_mgr.set_graph_window_extent(int(op['n']))
        else:
            raise ValueError(kind)

    async def crash_loop(self, op):
        """additive (C20): op {'op': 'loop', 'crash_at': k, 'crash_stmt': j | null}.  One real main loop in which the
        scheduler process dies at the k-th (0-based) call of process_queued_ops: before the transaction starts
        (j null), or inside it after j statements have been executed, at the latest right before COMMIT (j >= 0;
        the connection is closed without commit, sqlite rolls the transaction back).  If the loop makes fewer calls
        it is an ordinary main loop.  Written back: op['crashed'].  After the death: Run.crash_restart."""
        import sqlite3
        schd = self.schd
        mgr = schd.workflow_db_mgr
        k, j = int(op['crash_at']), op.get('crash_stmt')
        self.loops_done = getattr(self, 'loops_done', 0) + 1
        counted = mgr.process_queued_ops        # the counting wrapper of _instrument_db
        calls = {'n': 0}

        def process_queued_ops(*a, **kw):
            n = calls['n']
            calls['n'] += 1
            if n != k:
                return counted(*a, **kw)
            if j is None:
                raise _CrashNow()
            dao = mgr.pri_dao
            orig_exec = dao.execute_queued_items

            def execute_queued_items():
                # the batch about to be executed: per table one statement per DELETE / UPDATE template, one for the INSERTs
                n = sum(len(t.delete_queues) + (1 if t.insert_queue else 0) + len(t.update_queues)
                        for t in dao.tables.values())
                j_eff = min(int(j), n)

                def connect():
                    if dao.conn is None:
                        # the connection the DAO itself would open (its own connect(): isolation level, timeout, ...)
                        dao.conn = _DyingConn(type(dao).connect(dao), j_eff)
                    elif not isinstance(dao.conn, _DyingConn):
                        # a connection left open by an earlier SELECT (history look-ups): the same connection dies
                        dao.conn = _DyingConn(dao.conn, j_eff)
                    return dao.conn
                dao.connect = connect
                return orig_exec()
            dao.execute_queued_items = execute_queued_items
            try:
                counted(*a, **kw)
            finally:
                dao.__dict__.pop('connect', None)
                dao.__dict__.pop('execute_queued_items', None)
            raise _CrashNow()       # nothing was queued: the (empty) transaction is the boundary itself
        mgr.process_queued_ops = process_queued_ops
        crashed = False
        try:
            await schd._main_loop()
            self.unprocessed = []
        except SchedulerStop as exc:
            self.stop_reason = str(exc.args[0]) if exc.args else 'stop'
        except _CrashNow:
            crashed = True
        finally:
            mgr.process_queued_ops = counted
            schd.pool.__dict__.pop('clock_expire_tasks', None)
        op['crashed'] = crashed
        if crashed:
            self.crash_plan_done, self.crash_tries = getattr(self, 'crash_plan_done', 0) + 1, 0
            self.ncommit = min(getattr(self, 'ncommit', 0), k)
            await self.crash_restart()

    async def crash_restart(self):
        """additive (C20): the scheduler process is gone without any shutdown step (memory lost: pool, queued
        database operations, message queue); what survives is the private database as committed, and the jobs.
        Recipe: remove the contact file, close the dead scheduler's database connections, (harness hygiene: stop
        its server threads), start a new Scheduler on the same run directory.  Then the restart poll
        (Scheduler.run_scheduler polls every pooled task that is not waiting) is answered from the job table."""
        from contextlib import suppress
        from cylc.flow.workflow_files import get_contact_file_path
        schd = self.schd
        with suppress(OSError):
            os.remove(get_contact_file_path(self.id))
        schd.workflow_db_mgr.on_workflow_shutdown()
        # observation key 'dead_db': the private database file as the dead process left it (read before the new
        # scheduler starts): the task_pool rows and the task_states / task_outputs rows (as keys 'db' / 'ts')
        try:
            import sqlite3
            con = sqlite3.connect(schd.workflow_db_mgr.pri_path, timeout=5)
            try:
                pool_rows = sorted(
                    [int(c), n, json.loads(f), st, bool(h)]
                    for c, n, f, st, h in con.execute(
                        'SELECT cycle, name, flow_nums, status, is_held FROM task_pool'))
            finally:
                con.close()
            self.dead_db = {'pool': pool_rows, 'ts': self._observe_ts()}
        except Exception as exc:
            self.dead_db = {'error': str(exc)[:200]}
        try:
            async with asyncio.timeout(10):
                await schd.server.stop('verif crash')
        except BaseException:
            pass
        # the job-submit callbacks of jobs still in submission die with the scheduler; the jobs themselves live on
        for job in self.jobs.values():
            if job['next'] == 0 and job['plan'] and job['plan'][0][0] == 'subres':
                job['next'] = 1
        self.unprocessed = []
        self.poll_reqs = []
        self.stop_reason = None
        self.just_crashed = True
        self.crashes_done = getattr(self, 'crashes_done', 0) + 1
        await self.start(restart=True)
        self.crash_polls = self.restart_polls()

    def restart_polls(self):
        """additive (C20): what the poll of all non-waiting pooled tasks at restart returns, as 'pollres' ops: per
        polled job (task, current submit number) the custom messages found in its job status file, then its status."""
        ops = []
        tasks = sorted(self.schd.pool.get_tasks(), key=lambda t: (int(t.point), t.tdef.name))
        for t in tasks:
            if t.state.status == 'waiting':
                continue
            key = (int(t.point), t.tdef.name, t.submit_num)
            job = self.jobs.get(key)
            if job is None:
                continue
            tid = f'{key[0]}/{key[1]}'
            emitted = job['plan'] if job.get('early_final') else job['plan'][:job['next']]
            for kind, payload in emitted:
                if kind == 'msg' and payload not in ('started', 'succeeded', 'failed'):
                    ops.append({'op': 'pollres', 'task': tid, 'state': payload, 'sn': key[2]})
            ops.append({'op': 'pollres', 'task': tid, 'state': self.job_truth(key), 'sn': key[2]})
        return ops

    async def reload(self, op):
        """additive (C27): op {'op': 'reload', 'flow': text, 'inloop': bool}.  flow.cylc of the run directory is
        rewritten with the given text and the real commands.reload_workflow runs - directly (commands.run_cmd,
        between main loops, like the other 'cmd' ops) or, with 'inloop', queued on the scheduler's command queue
        and executed by one real main-loop iteration (the way the running scheduler does it).  Written back into
        the op for the model: 'skipped' (a task is preparing: the command would wait for a submit result that only
        a later op delivers - nothing is done), 'failed' (the scheduler kept the old configuration: the new text
        was rejected, or the main loop shut down before it ran the command; the old text is restored on disk),
        'graph' (the instance graph re-extracted from the reloaded configuration)."""
        schd = self.schd
        for key in ('graph', 'failed', 'skipped'):
            op.pop(key, None)
        if any(t.state.status == 'preparing' or t.waiting_on_job_prep for t in schd.pool.get_tasks()):
            op['skipped'] = True
            return
        op['skipped'] = False
        flow_file = Path(_SCRATCH) / 'cylc-run' / self.id / 'flow.cylc'
        old_text = flow_file.read_text()
        flow_file.write_text(op['flow'])
        old_cfg = schd.config
        # pool snapshots immediately before / after the command (observation key 'reload', for the judge)
        snaps = {'inloop': bool(op.get('inloop')), 'before': None, 'after': None, 'swept': None}
        self.reload_snaps = snaps

        def snap():
            rl = schd.pool.runahead_limit_point
            return {'pool': self._snap_pool(with_flows=True), 'rl': None if rl is None else int(rl)}

        def no_sleep(*a, **k):
            raise RuntimeError('verif: reload_workflow entered its wait-for-preparing-tasks loop')
        orig_sleep = commands.sleep
        commands.sleep = no_sleep
        try:
            if op.get('inloop'):
                cmd = commands.reload_workflow(schd)
                await cmd.__anext__()       # validation (as resolvers.Resolvers._mutation_mapper does)
                schd.command_queue.put(('verif-reload', 'reload_workflow', cmd))
                self.loops_done = getattr(self, 'loops_done', 0) + 1
                orig_pcq = schd.process_command_queue

                async def pcq():
                    if schd.command_queue.qsize() > 0 and snaps['before'] is None:
                        snaps['before'] = snap()
                        await orig_pcq()
                        snaps['after'] = snap()
                        self._hook_sweep(snaps)
                    else:
                        await orig_pcq()
                schd.process_command_queue = pcq
                try:
                    await schd._main_loop()
                    self.unprocessed = []
                except SchedulerStop as exc:
                    self.stop_reason = str(exc.args[0]) if exc.args else 'stop'
                finally:
                    del schd.process_command_queue
                while schd.command_queue.qsize() > 0:       # shut down before the command ran: it is dropped
                    schd.command_queue.get(False)
                    schd.command_queue.task_done()
            else:
                snaps['before'] = snap()
                await commands.run_cmd(commands.reload_workflow(schd))
                snaps['after'] = snap()
                self.reload_pending_sweep = snaps       # the sweep of the next op, if that is a main loop
        finally:
            commands.sleep = orig_sleep
        op['failed'] = schd.config is old_cfg
        if op['failed']:
            flow_file.write_text(old_text)
        else:
            self.__dict__.setdefault('graph0', self.graph)      # the result reports the graph the run started with
            self.graph = extract_graph(schd, self.case, flow_text=op['flow'])
            op['graph'] = self.graph

    def _hook_sweep(self, snaps):
        """additive (C27): record which proxies are queued when the queue-if-ready sweep of the current main loop
        is over (TaskPool.clock_expire_tasks is the first call after it), into snaps['swept']."""
        pool = self.schd.pool
        orig = pool.clock_expire_tasks

        def clock_expire_tasks(*a, **k):
            if snaps['swept'] is None:
                snaps['swept'] = sorted([int(t.point), t.tdef.name] for t in pool.get_tasks() if t.state.is_queued)
            pool.__dict__.pop('clock_expire_tasks', None)
            return orig(*a, **k)
        pool.clock_expire_tasks = clock_expire_tasks

    def poll_result(self, itask, op):
        from cylc.flow.subprocctx import SubProcContext
        tjm = self.schd.task_job_mgr
        point, name = op['task'].split('/')
        path = f"{point}/{name}/{int(op['sn']):02d}"
        when = '2000-01-01T00:00:00Z'
        state = op['state']
        ctx_items = {'job_runner_name': 'background', 'job_id': '1', 'job_runner_exit_polled': 0,
                     'time_submit_exit': when}
        line = None
        if state == 'submitted':
            pass
        elif state == 'started':
            ctx_items['time_run'] = when
        elif state == 'succeeded':
            ctx_items.update(run_status=0, time_run=when, time_run_exit=when)
        elif state == 'failed':
            ctx_items.update(run_status=1, run_signal='ERR', time_run=when, time_run_exit=when)
        elif state == 'submission failed':
            ctx_items['job_runner_exit_polled'] = 1
        elif state == 'killed':
            # the job died without running its error trap (SIGKILL, node lost): it had started, it is gone
            # from the job runner, and the job status file has neither an exit time nor a run status
            ctx_items.update(time_run=when, job_runner_exit_polled=1)
        elif state.startswith('failed/'):
            # killed by a signal and gone from the job runner -> message "failed/<SIGNAL>"
            ctx_items.update(run_status=1, run_signal=state.split('/', 1)[1], time_run=when, time_run_exit=when,
                             job_runner_exit_polled=1)
        else:
            line = f"{tjm.job_runner_mgr.OUT_PREFIX_MESSAGE}{when}|{path}|{when}|INFO|{state}\n"
        if line is None:
            line = f"{tjm.job_runner_mgr.OUT_PREFIX_SUMMARY}{when}|{path}|{json.dumps(ctx_items)}\n"
        ctx = SubProcContext(tjm.JOBS_POLL, ['cylc', 'jobs-poll'], out=line, ret_code=0)
        tjm._poll_task_jobs_callback(ctx, [itask])

    # -- adaptive policy -------------------------------------------------------
    def next_op(self, rng, pol, step):
        """Choose the next op from the scheduler's visible state (seeded)."""
        schd = self.schd
        if self.stop_reason is not None:
            self.restarts_left -= 1
            if pol.get('redeliver'):
                # additive (C19, off by default): job messages that were queued but not processed when the
                # scheduler shut down are sent again after the restart (what polling on restart recovers)
                for key, idx in getattr(self, 'unprocessed', []):
                    job = self.jobs.get(key)
                    if job is not None:
                        job['next'] = min(job['next'], idx)
                # ... and the submission of a task that was still preparing died with the scheduler: no
                # submit result arrives for it (the task is prepared again after the restart)
                for itask in schd.pool.get_tasks():
                    if itask.state.status == 'preparing':
                        self.jobs.pop((int(itask.point), itask.tdef.name, itask.submit_num), None)
            self.unprocessed = []
            return {'op': 'restart'}
        if getattr(self, 'crash_polls', None):
            # additive (C20): the results of the restart poll come first
            return self.crash_polls.pop(0)
        # additive (C19, off by default): policy 'stops' = [[n_loops, mode], ...]: request a stop in the given
        # mode once that many main loops have run (in list order, one stop per life of the scheduler)
        stops = pol.get('stops')
        if stops:
            done = getattr(self, 'stops_done', 0)
            if done < len(stops) and schd.stop_mode is None and getattr(self, 'loops_done', 0) >= stops[done][0]:
                self.stops_done = done + 1
                return {'op': 'cmd', 'name': 'stop', 'args': {'mode': stops[done][1]}}
        # additive (C19 broadcasts, off unless the policy sets p_bcast): bursts of broadcast set / clear / expire
        # requests with no main loop in between, built to share cycle point, namespace or key
        if self.__dict__.get('bcast_burst'):
            return self.bcast_burst.pop(0)
        if pol.get('p_bcast') and rng.random() < pol['p_bcast']:
            self.bcast_burst = self.random_bcasts(rng, pol)
            if self.bcast_burst:
                return self.bcast_burst.pop(0)
        if pol.get('p_reload_after_cmd') and self.__dict__.get('want_reload'):
            # additive (C27 / C43R, off unless the policy sets p_reload_after_cmd): a reload right behind a command,
            # with no main loop in between (the commands of one process_command_queue batch: the DB writes the
            # command queued are still pending); submit results of preparing tasks are flushed first
            op = self.random_cmd(rng, dict(pol, cmds=['reload']))
            if op is None or op['op'] == 'reload':
                self.want_reload = False
            if op is not None:
                return op
        if pol.get('p_stop_rerun') and getattr(self, 'reruns', None) and self.restarts_left > 0 \
                and schd.stop_mode is None:
            # additive (C19R, off unless the policy sets p_stop_rerun; no random draw otherwise): stop the scheduler
            # while an instance re-run in a later flow (see p_set_finished) is running / failed / succeeded there
            if any((int(t.point), t.tdef.name) in self.reruns and t.state.status in ('running', 'failed', 'succeeded')
                   for t in schd.pool.get_tasks()) and rng.random() < pol['p_stop_rerun']:
                return {'op': 'cmd', 'name': 'stop',
                        'args': {'mode': rng.choice(['REQUEST(NOW)', 'REQUEST(NOW-NOW)'])}}
        if pol.get('cmds') and rng.random() < pol.get('p_cmd', 0.0):
            op = self.random_cmd(rng, pol)
            if op is not None:
                if pol.get('p_reload_after_cmd') and op['op'] == 'cmd':
                    self.want_reload = rng.random() < pol['p_reload_after_cmd']
                return op
        # register new launches as jobs
        cands = []
        for key, job in self.jobs.items():
            if job['next'] < len(job['plan']):
                cands.append(key)
        # poll results (C09/C10; off unless the policy sets p_poll / p_spoll)
        if pol.get('p_spoll') and rng.random() < pol['p_spoll']:
            self.spontaneous_poll(rng)
        if pol.get('p_poll') and self.poll_reqs and rng.random() < pol['p_poll']:
            op = self.answer_poll(pol)
            if op is not None:
                return op
        if cands and rng.random() < pol.get('p_msg', 0.6):
            key = rng.choice(sorted(cands))
            job = self.jobs[key]
            kind, payload = job['plan'][job['next']]
            job['next'] += 1
            tid = f'{key[0]}/{key[1]}'
            if kind == 'subres':
                return {'op': 'subres', 'task': tid, 'ok': payload, 'sn': key[2]}
            if kind == 'pollmsg':
                # (C09/C10) a message line of the job status file, delivered by a jobs-poll command
                return {'op': 'pollres', 'task': tid, 'state': payload, 'sn': key[2]}
            self.__dict__.setdefault('unprocessed', []).append((key, job['next'] - 1))    # (C19 'redeliver')
            return {'op': 'msg', 'task': tid, 'msg': payload, 'sn': key[2],
                    'sev': 'CRITICAL' if payload.split('/')[0] in ('failed', 'aborted') else 'INFO'}
        if cands and rng.random() < pol.get('p_noise', 0.0):
            # duplicate / stale / out-of-order delivery
            key = rng.choice(sorted(cands))
            job = self.jobs[key]
            done = [pl for k, pl in job['plan'][:job['next']] if k == 'msg']
            tid = f'{key[0]}/{key[1]}'
            r = rng.random()
            if done and r < 0.5:
                return {'op': 'msg', 'task': tid, 'msg': rng.choice(done), 'sn': key[2]}
            if key[2] > 1 and r < 0.8:
                return {'op': 'msg', 'task': tid, 'msg': rng.choice(['started', 'succeeded', 'failed']), 'sn': key[2] - 1}
            later = [pl for k, pl in job['plan'][job['next']:] if k == 'msg']
            if later:
                job['early_final'] = True
                return {'op': 'msg', 'task': tid, 'msg': later[-1], 'sn': key[2]}
        if pol.get('p_late') and rng.random() < pol['p_late']:
            # additive (C02, off unless the policy sets p_late; no random draw otherwise): a late duplicate of the
            # last message of a finished job, e.g. the failure report arriving again after the retry was lined up
            fin = sorted(k for k, j in self.jobs.items()
                         if j['next'] >= len(j['plan']) and j['plan'] and j['plan'][-1][0] == 'msg')
            if fin:
                key = rng.choice(fin)
                return {'op': 'msg', 'task': f'{key[0]}/{key[1]}', 'msg': self.jobs[key]['plan'][-1][1],
                        'sn': key[2]}
        if pol.get('vclock') and pol.get('p_tick') and self.retry_waiting() and rng.random() < pol['p_tick']:
            # additive (C03Q, off unless the policy sets vclock + p_tick; no random draw otherwise): some task waits
            # for a retry delay: now and then the clock moves past it
            return {'op': 'tick', 'dt': 4000}
        plan = pol.get('crash_plan')
        if plan:
            # additive (C20, off unless the policy has a crash_plan; no random draw): crash_plan = [[n, k, j], ...] in
            # ascending n: the n-th main loop of the run (1-based) dies at its k-th commit boundary (j: inside the
            # transaction, see crash_loop); k < 0: the scheduler dies between ops, right before that main loop
            # (a main loop that makes fewer than k+1 commits runs normally; the kill point stays armed for the following
            # main loops - at most 8 of them - until one gets that far)
            done = getattr(self, 'crash_plan_done', 0)
            if done < len(plan) and getattr(self, 'loops_done', 0) + 1 >= plan[done][0]:
                _n, k, j = plan[done]
                if k < 0:
                    self.crash_plan_done = done + 1
                    return {'op': 'crash'}
                self.crash_tries = getattr(self, 'crash_tries', 0) + 1
                if self.crash_tries > 8:
                    self.crash_plan_done, self.crash_tries = done + 1, 0
                else:
                    return {'op': 'loop', 'crash_at': k, 'crash_stmt': j}
        return {'op': 'loop'}

    def job_truth(self, key):
        """What a poll of job (point, name, submit_num) reports now: the furthest status event emitted."""
        job = self.jobs.get(tuple(key))
        if job is None:
            return None
        plan = job['plan']
        emitted = plan if job.get('early_final') else plan[:job['next']]
        truth = 'submitted' if plan and plan[0][1] else 'submission failed'
        for kind, payload in emitted:
            if kind == 'msg' and payload in ('started', 'succeeded', 'failed'):
                truth = payload
            elif kind == 'pollmsg' and payload == 'killed':
                truth = 'killed'
            elif kind == 'msg' and payload.split('/')[0] in ('failed', 'aborted'):
                # a poll reports an error-trap failure as plain failed, a signal-killed job with its signal
                sig = payload.split('/', 1)[1]
                truth = payload if payload.startswith('failed/') and sig not in ('ERR', 'EXIT') else 'failed'
        return truth

    def request_poll(self, point, name):
        itask = self.schd.pool._get_task_by_id(f'{point}/{name}')
        if itask is None:
            return
        sn = itask.submit_num
        truth = self.job_truth((point, name, sn))
        if truth is not None:
            self.poll_reqs.append((point, name, sn, truth))

    def spontaneous_poll(self, rng):
        """A routine poll (execution / submission polling interval) of some active job."""
        active = [t for t in self.schd.pool.get_tasks()
                  if t.state.status in ('submitted', 'running') and
                  (int(t.point), t.tdef.name, t.submit_num) in self.jobs]
        if active:
            t = rng.choice(sorted(active, key=lambda t: (int(t.point), t.tdef.name)))
            self.request_poll(int(t.point), t.tdef.name)

    def answer_poll(self, pol):
        """Deliver the oldest outstanding poll result: the job state when the poll ran
        (policy poll_late: results may be overtaken by job messages) or the state now."""
        point, name, sn, truth = self.poll_reqs.pop(0)
        if not pol.get('poll_late'):
            truth = self.job_truth((point, name, sn)) or truth
        return {'op': 'pollres', 'task': f'{point}/{name}', 'state': truth, 'sn': sn}

    def random_bcasts(self, rng, pol):
        """additive (C19 broadcasts): 2-4 broadcast requests over a small universe of cycle points (pooled cycles,
        the next ones, '*'), namespaces (tasks, root) and single-item settings; clears / expiries are aimed at
        what is set (same point, same namespace or same key as other entries)."""
        g = self.graph
        bm = self.schd.broadcast_mgr
        pooled = sorted({int(t.point) for t in self.schd.pool.get_tasks()})
        base = pooled or [g['icp']]
        pts = sorted({str(p) for p in base + [base[-1] + 1, base[-1] + 2] if p <= g['fcp'] + 1}) + ['*']
        nss = sorted(g['tasks'])[:3] + ['root']
        keys = [['environment', 'FOO'], ['environment', 'BAR'], ['script'], ['pre-script']]
        out = []
        virt = [e[:3] for e in _flat_broadcasts(bm.broadcasts)]      # entries as they will be after the burst so far
        for _ in range(rng.randint(2, 4)):
            r = rng.random()
            if r < 0.55 or not virt:
                ps = rng.sample(pts, rng.choice([1, 1, 2]))
                ns = rng.sample(nss, rng.choice([1, 1, 2]))
                leaves = [[rng.choice(keys), rng.choice(['a', 'b', 'c'])] for _ in range(rng.choice([1, 1, 2]))]
                out.append({'op': 'bcast', 'mode': 'put', 'points': ps, 'namespaces': ns,
                            'settings': [[leaf] for leaf in leaves]})
                for pt in ps:
                    for n in ns:
                        for path, _v in leaves:
                            e = [pt, n, _render_key(path)]
                            if e not in virt:
                                virt.append(e)
            elif r < 0.9:
                pt, n, k = rng.choice(virt)
                how = rng.choice(['point', 'ns', 'key', 'point+ns', 'ns+key', 'all'])
                op = {'op': 'bcast', 'mode': 'clear', 'points': [], 'namespaces': [], 'cancel': []}
                if 'point' in how or how == 'all':
                    op['points'] = [pt]
                if 'ns' in how or how == 'all':
                    op['namespaces'] = [n]
                if 'key' in how or how == 'all':
                    op['cancel'] = [_parse_key(k)]
                out.append(op)
                virt = [e for e in virt if not ((not op['points'] or e[0] in op['points']) and
                                                (not op['namespaces'] or e[1] in op['namespaces']) and
                                                (not op['cancel'] or _parse_key(e[2]) in op['cancel']))]
            else:
                nums = sorted(int(e[0]) for e in virt if e[0] != '*')
                cut = rng.choice(nums) + rng.choice([0, 1]) if nums else g['icp']
                out.append({'op': 'bcast', 'mode': 'expire', 'cutoff': cut})
                virt = [e for e in virt if e[0] == '*' or int(e[0]) >= cut]
        return out

    def random_cmd(self, rng, pol):
        g = self.graph
        insts = [(int(p), n) for n, t in g['tasks'].items() for p in t['inst']]
        if not insts:
            return None
        kind = rng.choice(pol['cmds'])
        pts = list(range(g['icp'], g['fcp'] + 1))

        def some_ids():
            if kind == 'hold' and pol.get('p_hold_queued') and rng.random() < pol['p_hold_queued']:
                # additive (C06, off unless the policy sets p_hold_queued): hold a task that sits in a queue
                # (queued, not yet released to job preparation) - the window the queue release must respect
                queued = sorted((int(t.point), t.tdef.name) for t in self.schd.pool.get_tasks()
                                if t.state.is_queued and not t.state.is_held)
                if queued:
                    return ['%d/%s' % rng.choice(queued)]
            # (C27, additive: tasks orphaned by a reload - no longer in the graph - are not addressed; without
            # reloads every pooled task is in the graph)
            pooled = [(int(t.point), t.tdef.name) for t in self.schd.pool.get_tasks() if t.tdef.name in g['tasks']]
            src = pooled if pooled and rng.random() < 0.6 else insts
            return sorted({f'{p}/{n}' for p, n in rng.sample(src, min(len(src), rng.randint(1, 2)))})
        if kind == 'trigger_q':
            # additive (C05S): `cylc trigger` (default flow) of 1-3 POOLED tasks, pairwise unconnected by trigger edges
            # (each is its own group and a group-start task), aimed at the queue limits: mostly several waiting members
            # of ONE limited queue at once (preferably not yet queued: they must be queued when the queue is full),
            # else any waiting tasks (e.g. a member of a free queue while another queue is full), now and then a task
            # that already has a job
            tp = self.schd.pool
            queues = tp.task_queue_mgr.queues

            def qof(name):
                return next((qn for qn, q in queues.items() if name in q.members), None)
            pooled = sorted(tp.get_tasks(), key=lambda t: (int(t.point), t.tdef.name))
            cand = [t for t in pooled if t.state.status == 'waiting']
            if rng.random() < pol.get('p_fresh_trigger', 0.6):
                # (policy p_fresh_trigger, default 0.6: in two of five commands repeated triggers of a task that still
                # waits on job preparation and triggers of held tasks are allowed - the class of the repaired finding
                # queued-and-started, kept explored so that a regression shows up in generated runs too)
                # a task that was triggered already and still waits for the main loop to prepare its job is only
                # rarely triggered again, and a held task is rarely triggered (finding queued-and-started: a second
                # trigger / a release from hold queues the task although it is about to run; the rest of such a run
                # is tainted)
                cand = [t for t in cand if not t.waiting_on_job_prep and not t.state.is_held]
            if rng.random() < 0.1:
                cand = pooled
            if not cand:
                return None
            limited = sorted(qn for qn, q in queues.items()
                             if q.limit and sum(1 for t in cand if qof(t.tdef.name) == qn) >= 2)
            if limited and rng.random() < 0.6:
                qn = rng.choice(limited)
                src = [t for t in cand if qof(t.tdef.name) == qn]
                notq = [t for t in src if not t.state.is_queued]
                if len(notq) >= 2 and rng.random() < 0.7:
                    src = notq
                want = rng.choice([2, 2, 3])
            else:
                src = cand
                want = rng.choice([1, 1, 2])
            picks, parents = [], {}
            for t in rng.sample(src, len(src)):
                key = (int(t.point), t.tdef.name)
                d = g['tasks'].get(key[1], {}).get('inst', {}).get(str(key[0]))
                if d is None:
                    continue
                par = {(a[0], a[1]) for a in d.get('trig_parents', [])}
                if any(pk in par or key in parents[pk] for pk in picks):
                    continue
                picks.append(key)
                parents[key] = par
                if len(picks) >= want:
                    break
            if not picks:
                return None
            return {'op': 'cmd', 'name': 'force_trigger_tasks',
                    'args': {'tasks': sorted(f'{p}/{n}' for p, n in picks), 'flow': [], 'flow_wait': False}}
        if kind == 'trigger':
            # additive (C28): `cylc trigger` of a group of task instances (pooled and not, any state),
            # grown along graph edges so that in-group prerequisites occur; --flow=new / none / N / default
            pooled = [(int(t.point), t.tdef.name) for t in self.schd.pool.get_tasks()]
            src = pooled if pooled and rng.random() < 0.5 else insts
            group = set(rng.sample(src, min(len(src), rng.choice([1, 1, 2, 2, 3]))))
            inst_set = set(insts)
            if pol.get('p_trig_held') and rng.random() < pol['p_trig_held']:
                # additive (C28, off unless the policy sets p_trig_held; no random draw otherwise): the group is built
                # around a member that is on hold while it is NOT in the pool (a future or finished instance held by
                # `cylc hold`) together with one of its graph parents, so that it is a non-start member
                held_out = sorted((int(pt), n) for n, pt in self.schd.pool.tasks_to_hold
                                  if (int(pt), n) not in set(pooled) and (int(pt), n) in inst_set)
                if held_out:
                    hp, hn = rng.choice(held_out)
                    hd = g['tasks'][hn]['inst'][str(hp)]
                    parents = sorted({(a[0], a[1]) for pre in hd['pre'] for a in pre['atoms']} & inst_set)
                    group = {(hp, hn)} | ({rng.choice(parents)} if parents else set())
            for _ in range(rng.choice([0, 1, 1, 2, 3])):
                p, n = rng.choice(sorted(group))
                d = g['tasks'].get(n, {}).get('inst', {}).get(str(p))
                if d is None:
                    continue                      # an orphan of a reload, or an off-sequence proxy
                nbrs = [(a[0], a[1]) for pre in d['pre'] for a in pre['atoms']]
                nbrs += [(c[1], c[0]) for cs in d['children'].values() for c in cs]
                nbrs = sorted(set(x for x in nbrs if x in inst_set))
                if nbrs:
                    group.add(rng.choice(nbrs))
            r = rng.random()
            if r < 0.5:
                flow = []
            elif r < 0.65:
                flow = ['new']
            elif r < 0.77:
                flow = ['none']
            else:
                top = int(self.schd.flow_mgr.counter) + 1
                flow = sorted({str(rng.randint(1, top)) for _ in range(rng.choice([1, 1, 2]))})
            wait = bool(flow not in (['new'], ['none']) and rng.random() < pol.get('p_wait', 0.15))
            return {'op': 'cmd', 'name': 'force_trigger_tasks',
                    'args': {'tasks': sorted(f'{p}/{n}' for p, n in group), 'flow': flow, 'flow_wait': wait}}
        if kind == 'hold_member':
            # additive (C28): `cylc hold` of one or two instances that are NOT in the pool (not yet spawned, or
            # finished) and have a graph parent -- candidates for held non-start members of a later group trigger
            pooled = {(int(t.point), t.tdef.name) for t in self.schd.pool.get_tasks()}
            inst_set = set(insts)
            cands = sorted(
                (p, n) for p, n in insts if (p, n) not in pooled and any(
                    (a[0], a[1]) in inst_set for pre in g['tasks'][n]['inst'][str(p)]['pre'] for a in pre['atoms']))
            if not cands:
                return None
            picks = rng.sample(cands, min(len(cands), rng.choice([1, 1, 2])))
            return {'op': 'cmd', 'name': 'hold', 'args': {'tasks': sorted(f'{p}/{n}' for p, n in picks)}}
        if kind == 'retrig_done':
            # additive (C30): re-run a FINISHED task instance (a job of it was launched, it is no longer in the pool)
            # that has graph children, in a new flow (now and then under an existing / the next flow number):
            # its children are spawned again in that flow while their history of the earlier flow is in the DB
            pooled = {(int(t.point), t.tdef.name) for t in self.schd.pool.get_tasks()}
            ran = {(p, n) for p, n, _st, _outs, _reason in getattr(self, 'all_removed', [])}
            done = sorted(k for k in ran - pooled
                          if any(g['tasks'][k[1]]['inst'].get(str(k[0]), {}).get('children', {}).values()))
            if not done:
                return None
            # prefer a parent one of whose graph children has run as well (the child then has history in the old flow)
            both = [k for k in done if any((c[1], c[0]) in ran
                                           for cs in g['tasks'][k[1]]['inst'][str(k[0])]['children'].values() for c in cs)]
            if both and rng.random() < 0.8:
                done = both
            if not self.schd.is_paused and rng.random() < 0.4:
                # pause first, so that the children spawned by the re-run wait (they are not released from the queue)
                return {'op': 'cmd', 'name': 'pause', 'args': {}}
            p, n = rng.choice(done)
            if rng.random() < 0.8:
                flow = ['new']
            else:
                flow = [str(rng.randint(1, int(self.schd.flow_mgr.counter) + 1))]
            return {'op': 'cmd', 'name': 'force_trigger_tasks',
                    'args': {'tasks': [f'{p}/{n}'], 'flow': flow, 'flow_wait': False}}
        if kind == 'remove_parent':
            # additive (C30): `cylc remove` of a task that has naturally satisfied a prerequisite of a pooled task
            # that has not started yet (so that the child has to stand down), mostly without --flow
            cands, pref = set(), set()
            ran = {(p, n) for p, n, _st, _outs, _reason in getattr(self, 'all_removed', [])}
            for t in self.schd.pool.get_tasks():
                if t.state.status != 'waiting':
                    continue
                for pre in t.state.prerequisites:
                    for k, v in pre.items():
                        if v in ('satisfied naturally', 'satisfied from database'):
                            cands.add((int(str(k.point)), k.task))
                            if (int(t.point), t.tdef.name) in ran:
                                pref.add((int(str(k.point)), k.task))     # the child has been in the pool before
            inst_set = set(insts)
            cands = sorted(c for c in cands if c in inst_set)
            pref = sorted(c for c in pref if c in inst_set)
            if not cands:
                return None
            p, n = rng.choice(pref if pref and rng.random() < 0.8 else cands)
            r = rng.random()
            if r < 0.75:
                flow = []
            else:
                top = int(self.schd.flow_mgr.counter)
                flow = sorted({str(rng.randint(1, max(1, top))) for _ in range(rng.choice([1, 2]))})
            return {'op': 'cmd', 'name': 'remove_tasks', 'args': {'tasks': [f'{p}/{n}'], 'flow': flow}}
        if kind == 'remove':
            # additive (C30): `cylc remove` of 1-3 task instances (pooled in any state, finished, or never
            # spawned), sometimes grown along graph edges (so that a matched task has a matched child), without
            # --flow (all flows) or with --flow=N.. (numbers of existing flows, now and then an unused one)
            pooled = [(int(t.point), t.tdef.name) for t in self.schd.pool.get_tasks()]
            src = pooled if pooled and rng.random() < 0.6 else insts
            group = set(rng.sample(src, min(len(src), rng.choice([1, 1, 1, 2, 2, 3]))))
            inst_set = set(insts)
            for _ in range(rng.choice([0, 0, 1, 1, 2])):
                p, n = rng.choice(sorted(group))
                d = g['tasks'].get(n, {}).get('inst', {}).get(str(p))
                if d is None:
                    continue
                nbrs = [(a[0], a[1]) for pre in d['pre'] for a in pre['atoms']]
                nbrs += [(c[1], c[0]) for cs in d['children'].values() for c in cs]
                nbrs = sorted(set(x for x in nbrs if x in inst_set))
                if nbrs:
                    group.add(rng.choice(nbrs))
            tasks = sorted(f'{p}/{n}' for p, n in group)
            if rng.random() < 0.05:
                tasks.append(f"{g['fcp'] + 1}/{rng.choice(sorted(g['tasks']))}")     # not an instance: unmatched
            r = rng.random()
            if r < 0.45:
                flow = []
            elif r < 0.5:
                flow = ['all']
            else:
                top = int(self.schd.flow_mgr.counter) + (1 if rng.random() < 0.15 else 0)
                flow = sorted({str(rng.randint(1, max(1, top))) for _ in range(rng.choice([1, 1, 2]))})
            return {'op': 'cmd', 'name': 'remove_tasks', 'args': {'tasks': tasks, 'flow': flow}}
        if kind in ('set_out', 'set_pre'):
            # additive (C29 / C08S): `cylc set` of outputs / prerequisites on ONE task instance (pooled or not,
            # any state) with --flow=default / new / none / N.. and --wait.  One id per command (the code iterates
            # a set of ids), at most one custom output per command (custom outputs tie in the sort key).
            if pol.get('p_set_finished') and rng.random() < pol['p_set_finished']:
                # additive (C19R, off unless the policy sets p_set_finished; no random draw otherwise): re-run an
                # instance that already ran and left the pool, in ANOTHER flow (--flow=new / a number above the
                # ones in use): `cylc set --pre=all`, so that the instance has database rows under several flow
                # numbers and is active in the later flow
                pooled_now = {(int(t.point), t.tdef.name) for t in self.schd.pool.get_tasks()}
                # (only instances whose earlier jobs have delivered everything: no message of an old job is left
                # that the re-run proxy - it starts from the submit number of its history - could take for its own)
                busy = {(k[0], k[1]) for k, j in self.jobs.items() if j['next'] < len(j['plan'])}
                gone = sorted({(k[0], k[1]) for k in self.jobs} - pooled_now - busy)
                if gone:
                    p, n = rng.choice(gone)
                    self.__dict__.setdefault('reruns', set()).add((p, n))
                    flow = (['new'] if rng.random() < 0.6 else
                            [str(int(self.schd.flow_mgr.counter) + rng.choice([1, 2]))])
                    return {'op': 'cmd', 'name': 'set_prereqs_and_outputs',
                            'args': {'tasks': [f'{p}/{n}'], 'flow': flow, 'flow_wait': False,
                                     'prerequisites': ['all']}}
            pooled = [(int(t.point), t.tdef.name) for t in self.schd.pool.get_tasks()]
            # (C26S / C11R, additive policy keys with the old values as defaults, same random draws:
            # p_set_pooled = share of commands aimed at a pooled instance, p_wait = share of --wait)
            src = pooled if pooled and rng.random() < pol.get('p_set_pooled', 0.5) else insts
            p, n = rng.choice(sorted(src))
            if pol.get('xtrig'):
                # additive (C29, option 'xtrig'): prefer a task that waits on an unsatisfied (retry) xtrigger
                xwait = sorted((int(t.point), t.tdef.name) for t in self.schd.pool.get_tasks()
                               if any(not v for v in t.state.xtriggers.values()))
                if xwait and rng.random() < 0.4:
                    p, n = rng.choice(xwait)
            sui_all = False
            if pol.get('suic') and kind == 'set_pre':
                # additive (C29, option 'suic'): aim at an instance that has suicide prerequisites, mostly with --pre=all
                wsui = sorted((int(q), m) for m, t in g['tasks'].items() for q, d in t.get('inst', {}).items()
                              if d.get('sui') and (int(q), m) in set(map(tuple, insts)))
                if wsui and rng.random() < 0.4:
                    p, n = rng.choice(wsui)
                    sui_all = rng.random() < 0.7
            active = set()
            for t in self.schd.pool.get_tasks():
                active |= set(t.flow_nums)
            r = rng.random()
            if r < 0.55 and active:
                flow = []
            elif r < 0.7:
                flow = ['new']
            elif r < 0.8:
                flow = ['none']
            else:
                top = int(self.schd.flow_mgr.counter) + 1
                flow = sorted({str(rng.randint(1, top)) for _ in range(rng.choice([1, 1, 2]))})
            wait = bool(flow not in (['new'], ['none']) and rng.random() < pol.get('p_wait', 0.15))
            args = {'tasks': [f'{p}/{n}'], 'flow': flow, 'flow_wait': wait}
            tdefs = g['tasks']
            if kind == 'set_out':
                std = ['submitted', 'started', 'succeeded', 'failed', 'submit-failed', 'expired']
                custom = [o[0] for o in tdefs.get(n, {}).get('outputs', []) if o[0] not in std]   # (n may be an orphan of a reload)
                r = rng.random()
                if r < 0.3:
                    outs = []
                else:
                    outs = rng.sample(std, rng.choice([1, 1, 2]))
                    if custom and rng.random() < 0.4:
                        outs.append(rng.choice(custom))
                    if rng.random() < 0.05:
                        outs.append('nope')
                    if r > 0.9 and custom:
                        outs = [rng.choice(custom)]
                if pol.get('nf2'):
                    # additive (C29, option 'nf2'): repeat the last no-flow set of an inactive instance in a real flow
                    last = getattr(self, '_nf2_last', None)
                    if last is not None and rng.random() < 0.7:
                        p, n, outs = last
                        flow = [] if active and rng.random() < 0.5 else [str(rng.randint(1, int(self.schd.flow_mgr.counter) or 1))]
                        wait = False
                        args = {'tasks': [f'{p}/{n}'], 'flow': flow, 'flow_wait': wait}
                        self._nf2_last = None
                    else:
                        away = sorted(set(map(tuple, insts)) - set(pooled))
                        if away and rng.random() < 0.3:
                            # a no-flow set of an instance that is not in the pool (standard outputs only)
                            p, n = rng.choice(away)
                            outs = [o for o in outs if o in std]
                            flow, wait = ['none'], False
                            args = {'tasks': [f'{p}/{n}'], 'flow': flow, 'flow_wait': wait}
                        if flow == ['none'] and (p, n) not in pooled:
                            self._nf2_last = (p, n, list(outs))
                args['outputs'] = outs
            else:
                d = tdefs.get(n, {}).get('inst', {}).get(str(p)) or {'pre': []}
                trig = {nm: {o[1]: o[0] for o in t['outputs']} for nm, t in tdefs.items()}
                atoms = sorted({(a[0], a[1], a[2]) for pre in d['pre'] for a in pre['atoms']})
                r = rng.random()
                if r < 0.3 or not atoms:
                    pres = ['all'] if r < 0.85 else []
                else:
                    pres = [f'{a[0]}/{a[1]}:{trig[a[1]].get(a[2], a[2])}'
                            for a in rng.sample(atoms, min(len(atoms), rng.choice([1, 1, 2])))]
                if (r > 0.8 and pres != ['all']) or not pres:
                    # something the task does not depend on
                    q, m = rng.choice(insts)
                    pres.append(f'{q}/{m}:' + rng.choice(['succeeded', 'started', 'failed', 'nope']))
                if sui_all:
                    pres = ['all']
                if pol.get('xtrig'):
                    # additive (C29, option 'xtrig'): xtrigger prerequisites - the xtriggers the target carries (the
                    # dynamic retry xtriggers), `xtrigger/all`, a retry label the target does not carry, an unknown one;
                    # alone or together with task prerequisites
                    tgt = self.schd.pool._get_task_by_id(f'{p}/{n}')
                    carried = sorted(tgt.state.xtriggers) if tgt is not None else []
                    rx = rng.random()
                    xs = []
                    if carried and rx < 0.7:
                        xs = [rng.choice(carried)]
                    elif rx < 0.12:
                        xs = ['all']
                    elif rx < 0.18:
                        xs = [rng.choice([f'_cylc_retry_{p}_{n}', f'_cylc_submit_retry_{p}_{n}', 'nope'])]
                    if xs:
                        xpre = [f'xtrigger/{x}' + (':succeeded' if rng.random() < 0.5 else '') for x in xs]
                        if pres == ['all'] or rng.random() < 0.6:
                            pres = xpre
                        else:
                            pres = pres + xpre
                args['prerequisites'] = pres
            return {'op': 'cmd', 'name': 'set_prereqs_and_outputs', 'args': args}
        if kind == 'rl_remove':
            # additive (C27): `cylc remove` (no --flow) of ONE instance that is in the graph: a pooled task that has not
            # started (waiting: it respawns later with its prerequisites on already finished parents unsatisfied), or a
            # finished parent of such a task (the child stands down).  Targets with a job are left to the C30 kinds.
            wait = [t for t in self.schd.pool.get_tasks() if t.state.status == 'waiting' and t.tdef.name in g['tasks']]
            inst_set = set(insts)
            parents = set()
            for t in wait:
                for pre in t.state.prerequisites:
                    for k, v in pre.items():
                        if v:
                            parents.add((int(str(k.point)), k.task))
            pooled_keys = {(int(t.point), t.tdef.name) for t in self.schd.pool.get_tasks()}
            parents = sorted(c for c in parents if c in inst_set and c not in pooled_keys)
            # prefer a waiting task that already has a satisfied prerequisite (its parent's output is recorded)
            part = sorted((int(t.point), t.tdef.name) for t in wait
                          if any(v for pre in t.state.prerequisites for _k, v in pre.items()))
            allw = sorted((int(t.point), t.tdef.name) for t in wait)
            r = rng.random()
            cands = part if (part and r < 0.5) else parents if (parents and r < 0.75) else allw
            if not cands:
                return None
            p, n = rng.choice(cands)
            return {'op': 'cmd', 'name': 'remove_tasks', 'args': {'tasks': [f'{p}/{n}'], 'flow': []}}
        if kind == 'rl_set_custom':
            # additive (C27): `cylc set --out=<one custom output>` (default flow, no --wait) on a pooled task of the graph
            # that defines custom outputs and has not completed that one yet
            cands = []
            for t in self.schd.pool.get_tasks():
                if t.tdef.name not in g['tasks'] or not t.flow_nums:
                    continue
                std = ('submitted', 'started', 'succeeded', 'failed', 'submit-failed', 'expired')
                for trig, msg, done in t.state.outputs:
                    if trig not in std and not done and any(o[0] == trig for o in g['tasks'][t.tdef.name]['outputs']):
                        cands.append((int(t.point), t.tdef.name, trig))
            if not cands:
                return None
            p, n, trig = rng.choice(sorted(cands))
            return {'op': 'cmd', 'name': 'set_prereqs_and_outputs',
                    'args': {'tasks': [f'{p}/{n}'], 'flow': [], 'flow_wait': False, 'outputs': [trig]}}
        if kind == 'reload':
            # additive (C27): reload with one of the case's definitions (unchanged / extended / shrunk / broken).
            # As the real command first flushes preparing tasks through job submission, the submit results of
            # preparing tasks are delivered first (one per op); the reload comes once none is preparing.
            prep = sorted((int(t.point), t.tdef.name, t.submit_num) for t in self.schd.pool.get_tasks()
                          if t.state.status == 'preparing')
            for key in prep:
                job = self.jobs.get(key)
                if job is not None and job['next'] == 0 and job['plan'] and job['plan'][0][0] == 'subres':
                    job['next'] = 1
                    return {'op': 'subres', 'task': f'{key[0]}/{key[1]}', 'ok': job['plan'][0][1], 'sn': key[2]}
            if prep:
                return None
            variants = self.case.get('variants') or [{'tag': 'same', 'flow': self.case['flow']}]
            v = rng.choice(variants)
            if pol.get('p_orphan_started') and rng.random() < pol['p_orphan_started']:
                # additive (C27, off unless the policy sets p_orphan_started): prefer a definition that lacks a pooled
                # task which has already started (active, or finished and retained as incomplete)
                started = {t.tdef.name for t in self.schd.pool.get_tasks() if t.state.status != 'waiting'}
                hits = [w for w in variants if w.get('tasks') is not None and started - set(w['tasks'])]
                if hits:
                    v = rng.choice(hits)
            return {'op': 'reload', 'flow': v['flow'], 'tag': v['tag'],
                    'inloop': rng.random() < pol.get('p_inloop', 0.5)}
        if kind in ('hold', 'release'):
            return {'op': 'cmd', 'name': kind, 'args': {'tasks': some_ids()}}
        if kind == 'set_hold_point':
            return {'op': 'cmd', 'name': kind, 'args': {'point': str(rng.choice(pts))}}
        if kind in ('release_hold_point', 'pause', 'resume'):
            return {'op': 'cmd', 'name': kind, 'args': {}}
        if kind == 'stop_point':
            return {'op': 'cmd', 'name': 'stop', 'args': {'mode': None, 'cycle_point': str(rng.choice(pts))}}
        if kind == 'stop_task':
            p, n = rng.choice(insts)
            return {'op': 'cmd', 'name': 'stop', 'args': {'mode': None, 'task': f'{p}/{n}'}}
        if kind in ('stop_clean', 'stop_now', 'stop_now_now'):
            if self.schd.stop_mode is not None or self.restarts_left <= 0:
                return None
            mode = {'stop_clean': 'REQUEST(CLEAN)', 'stop_now': 'REQUEST(NOW)', 'stop_now_now': 'REQUEST(NOW-NOW)'}[kind]
            return {'op': 'cmd', 'name': 'stop', 'args': {'mode': mode}}
        if kind == 'window':
            # additive (C25): resize the n-window of the data store (the setGraphWindowExtent mutation of the UI)
            return {'op': 'window', 'n': rng.choice([0, 1, 2, 2, 3])}
        return None

    def plan_job(self, rng, pol, point, name, sn):
        """Outcome of one job, decided when it is launched."""
        if pol.get('outcome_by_key'):
            # additive (C19 differential runs, off by default): the outcome of job (point, name, submit
            # number) is a function of the case seed and that key only, not of the order of launches
            plans = self.__dict__.setdefault('plans', {})
            key = (point, name, sn)
            if key not in plans:
                plans[key] = self.plan_job(
                    random.Random(f'{self.case.get("seed", 0)}/{point}/{name}/{sn}'),
                    dict(pol, outcome_by_key=False), point, name, sn)
            return list(plans[key])
        oc = (pol.get('outcomes') or {}).get(name) or {}
        plan = []
        fails = self.fails.setdefault((point, name), [0, 0])
        # with retries configured a job may fail while a retry remains ('complete' runs keep the final try good)
        if fails[1] < oc.get('sub_retries', 0) and rng.random() < oc.get('p_retry_fail', 0.0):
            fails[1] += 1
            return [('subres', False)]
        if rng.random() < oc.get('p_submit_fail', 0.0):
            return [('subres', False)]
        plan.append(('subres', True))
        plan.append(('msg', 'started'))
        for out in oc.get('custom', []):
            if rng.random() < oc.get('p_custom', 1.0):
                plan.append(('msg', out))
        if fails[0] < oc.get('exec_retries', 0) and rng.random() < oc.get('p_retry_fail', 0.0):
            fails[0] += 1
            plan.append(('msg', 'failed'))
            return self._vary_plan(rng, pol, plan)
        plan.append(('msg', 'failed' if rng.random() < oc.get('p_fail', 0.0) else 'succeeded'))
        if pol.get('p_custom_late'):
            # additive (C11R, off unless the policy sets p_custom_late; no random draw otherwise): out-of-order
            # arrival - each custom output message of the job is delivered AFTER its final status message with
            # that probability (a `cylc message` backgrounded by the job script, network re-ordering)
            late = [e for e in plan[2:-1] if rng.random() < pol['p_custom_late']]
            if late:
                plan = [e for e in plan[:-1] if e not in late] + [plan[-1]] + late
        return self._vary_plan(rng, pol, plan)

    FAIL_FORMS = ('failed', 'failed/ERR', 'failed/EXIT', 'failed/SIGTERM', 'failed/XCPU', 'aborted/by the job script')

    def _vary_plan(self, rng, pol, plan):
        """Additive (C09/C10; off unless the policy sets fail_signals / p_lose, no random draws when off):
        a failing job reports the failure the way job scripts do, with the run signal appended
        (failed/ERR, failed/SIGTERM, aborted/<reason>); a message other than the last may be lost; a running job
        may be vacated (message vacated/<SIGNAL> found by a poll) and started again."""
        if not (pol.get('fail_signals') or pol.get('p_lose') or pol.get('p_vacate')):
            return plan
        if pol.get('p_vacate') and ('msg', 'started') in plan and rng.random() < pol['p_vacate']:
            # the batch system pre-empts (vacates) the running job and restarts it later
            k = plan.index(('msg', 'started'))
            plan = plan[:k + 1] + [('pollmsg', 'vacated/SIGUSR1'), ('msg', 'started')] + plan[k + 1:]
        out = []
        for i, (kind, payload) in enumerate(plan):
            if kind == 'msg' and payload == 'failed' and pol.get('fail_signals'):
                payload = rng.choice(self.FAIL_FORMS)
                if pol.get('silent_kill') and payload == 'failed/XCPU':
                    # killed without running the error trap: no message at all, only a poll finds out
                    kind, payload = 'pollmsg', 'killed'
            if kind == 'msg' and i < len(plan) - 1 and pol.get('p_lose') and rng.random() < pol['p_lose']:
                continue
            out.append((kind, payload))
        return out

    async def drive(self):
        case = self.case
        rng = random.Random(case.get('seed', 0))
        pol = case.get('policy') or {}
        ops_out, obs = [], []
        try:
            await self.start()
        except Exception:
            self.load_error = traceback.format_exc()[-1500:]
            if self.schd is not None:
                await self.shutdown()
            raise
        self.restarts_left = pol.get('restarts', 0)
        try:
            self.graph = extract_graph(self.schd, case)
            obs.append(self.observe())
            given = case.get('ops')
            max_steps = pol.get('max_steps', 150)
            step = 0
            idle_loops = 0
            while True:
                if given is not None:
                    if step >= len(given):
                        break
                    op = given[step]
                else:
                    if step >= max_steps or (self.stop_reason is not None and self.restarts_left <= 0):
                        break
                    op = self.next_op(rng, pol, step)
                step += 1
                self.ops_done, self.cur_op = ops_out, op      # additive: reported when the scheduler raises
                await self.apply(op)
                ob = self.observe(after_loop=(op['op'] == 'loop' or (
                    op['op'] == 'reload' and bool(op.get('inloop')) and not op.get('skipped'))))
                for point, name, sn in ob['launch']:
                    self.jobs[(point, name, sn)] = {
                        'plan': self.plan_job(rng, pol, point, name, sn), 'next': 0}
                    if ob.get('crashed') and self.jobs[(point, name, sn)]['plan'][:1] and \
                            self.jobs[(point, name, sn)]['plan'][0][0] == 'subres':
                        # additive (C20): launched by a main loop in which the scheduler died: the job lives on, its
                        # job-submit callback died with the scheduler (see crash_restart)
                        self.jobs[(point, name, sn)]['next'] = 1
                ops_out.append(op)
                obs.append(ob)
                if pol.get('p_poll'):
                    for point, name in ob['polls']:
                        self.request_poll(point, name)
                if given is None:
                    # stop early when nothing can happen any more
                    busy = any(j['next'] < len(j['plan']) for j in self.jobs.values()) or (
                        bool(pol.get('p_poll')) and bool(self.poll_reqs)) or (
                        # additive (C03Q): a pending retry delay that a later 'tick' will end
                        bool(pol.get('vclock')) and bool(pol.get('p_tick')) and bool(self.retry_waiting()))
                    if op['op'] == 'loop' and not ob['launch'] and not busy and ob == obs[-2]:
                        idle_loops += 1
                        if idle_loops >= 2:
                            break
                    else:
                        idle_loops = 0
            graph = getattr(self, 'graph0', self.graph)     # (C27: a reload replaces self.graph)
        finally:
            await self.shutdown()
        return {'id': case['id'], 'ops': ops_out, 'obs': obs, 'graph': graph}

    async def stop_scheduler(self):
        async with asyncio.timeout(20):
            await self.schd.shutdown(SchedulerStop(self.stop_reason or 'verif teardown'))

    async def shutdown(self):
        try:
            await self.stop_scheduler()
        except Exception:
            pass
        self._remove_vclock()       # additive (C03Q): no-op unless the virtual retry clock was installed
        shutil.rmtree(Path(_SCRATCH) / 'cylc-run' / self.id, ignore_errors=True)


# ---------------------------------------------------------------------------
# instance graph of the loaded configuration, read off the real objects

def _longest_interval(cfg):
    """Longest cycling interval as an integer (integer cycling); None for datetime cycling, where the
    interval is an ISO8601 duration (only the integer-cycling broadcast model of C19 reads this key)."""
    try:
        return int(str(cfg.interval_of_longest_sequence).lstrip('P'))
    except (TypeError, ValueError):
        return None


def _pre_spec(tdef, pt):
    """additive (C01 judge): atom lists of the non-suicide dependencies of the recurrences `pt` is valid on."""
    out = {}
    for seq, deps in tdef.dependencies.items():
        if not seq.is_valid(pt):
            continue
        for dep in deps:
            if dep.suicide:
                continue
            cpre = dep.get_prerequisite(pt, tdef)
            atoms = sorted([int(str(k.point)), k.task, k.output] for k in cpre.keys())
            out[json.dumps(atoms)] = atoms
    return [out[k] for k in sorted(out)]


def extract_graph(schd, case, flow_text=None):
    cfg = schd.config
    # additive (C27, policy 'inst_off'): also the instances at points that are NOT valid for the task (key
    # 'inst_off'): a reload re-creates pooled proxies at their point whatever the new sequences are
    inst_off_wanted = bool((case.get('policy') or {}).get('inst_off'))
    icp, fcp = int(cfg.initial_point), int(cfg.final_point)
    start = int(cfg.start_point)
    tokens = schd.tokens
    tasks = {}
    for name in schd.pool.task_name_list:
        tdef = cfg.get_taskdef(name)
        comp = None
        inst = {}
        inst_valid, inst_off = inst, {}
        for p in range(icp, fcp + 1):
            pt = get_point(str(p))
            inst = inst_valid
            if not tdef.is_valid_point(pt):
                if not inst_off_wanted:
                    continue
                inst = inst_off
            saved = tdef.max_future_prereq_offset
            # additive (C04F / C07F, future triggers): what the construction of a TaskProxy at this point
            # contributes to the lazily raised tdef.max_future_prereq_offset (key 'fut_off')
            tdef.max_future_prereq_offset = None
            itask = TaskProxy(tokens, tdef, pt, {1})
            fut_off = tdef.max_future_prereq_offset
            tdef.max_future_prereq_offset = saved

            def conv(pre):
                atoms = [[int(str(k.point)), k.task, k.output, bool(v)] for k, v in pre.items()]
                keys = [pre.MESSAGE_TEMPLATE % k for k in pre.keys()]
                expr_s = pre.get_raw_conditional_expression()
                tree = None
                if expr_s is not None:
                    tree = parse_bool(expr_s, r'-?\d+/[A-Za-z_][\w]* [\w\-]+')

                    def idx(t):
                        if t[0] == 'atom':
                            return ['atom', keys.index(t[1])]
                        return [t[0], idx(t[1]), idx(t[2])]
                    tree = idx(tree)
                return {'atoms': atoms, 'expr': tree}
            nxt = tdef.next_point_parentless(cfg.start_point, pt)
            # additive (C04F / C07F): the n=1 window neighbours for which the data store builds ghost task proxies
            # when this instance enters the pool (increment_graph_window: children and parents up to the final point)
            from cylc.flow.taskdef import generate_graph_parents as _ggp
            _ghosts = sorted({(c.name, int(c.point)) for cs in itask.graph_children.values() for c in cs
                              if int(c.point) <= fcp}
                             | {(pn, int(pp)) for pn, pp, _ in _ggp(tdef, pt, cfg.taskdefs) if int(pp) <= fcp})
            inst[str(p)] = {
                'fut_off': None if fut_off is None else int(fut_off),
                'ghosts': [[n_, p_] for n_, p_ in _ghosts],
                'pre': [conv(x) for x in itask.state.prerequisites],
                'sui': [conv(x) for x in itask.state.suicide_prerequisites],
                'children': {out: sorted([c.name, int(c.point), bool(c.is_abs)] for c in cs)
                             for out, cs in itask.graph_children.items()},
                # additive (C05S): the same lists in their real iteration order (the order in which
                # spawn_on_output adds the children to the pool, hence the queue push order)
                'children_ord': {out: [[c.name, int(c.point), bool(c.is_abs)] for c in cs]
                                 for out, cs in itask.graph_children.items()},
                'next_parentless': None if nxt is None else int(nxt),
                # additive (C30): the graph children per output in the order `spawn_on_output` walks them (the list
                # order of TaskProxy.graph_children; 'children' above is sorted) -- the order decides what an
                # intermediate DB commit (absolute trigger) writes
                'children_seq': {out: [[c.name, int(c.point), bool(c.is_abs)] for c in cs]
                                 for out, cs in itask.graph_children.items()},
                # additive (C01 judge): whether the instance is parentless (TaskDef.is_parentless); the model
                # does not read it
                'parentless': bool(tdef.is_parentless(pt, cfg.start_point)),
                # additive (C01 judge): the prerequisites the instance must have according to the recurrences it is
                # VALID on (Sequence.is_valid: on the sequence and within its own bounds) - one atom list
                # [point, task, message] per dependency of those recurrences, computed here from TaskDef.dependencies,
                # not read from the TaskProxy; the model does not read it
                'pre_spec': _pre_spec(tdef, pt),
                # additive (C28, read by the group-trigger model): what `cylc trigger` reads off the TaskDef --
                # the parents named by the (non-suicide) triggers, the prerequisite atoms of TaskDef.get_prereqs,
                # and is_parentless with the initial point as cutoff
                'trig_parents': sorted({(int(str(trg.get_point(pt))), trg.task_name)
                                        for trg in tdef.get_triggers(pt)}),
                'tdef_atoms': sorted({(int(str(k.point)), k.task, k.output)
                                      for pre in tdef.get_prereqs(pt) for k in pre.keys()}),
                'parentless_icp': bool(tdef.is_parentless(pt, cfg.initial_point)),
                # additive (C29): the prerequisite atoms `cylc set --pre` accepts for this instance
                # (_get_valid_prereqs: keys of TaskDef.get_prereqs)
                'valid_pre': sorted([int(str(k.point)), k.task, k.output]
                                    for k in {k for pre in tdef.get_prereqs(pt) for k in pre.keys()}),
            }
            tdef.max_future_prereq_offset = saved      # (tdef.get_prereqs above raises it as well)
            if comp is None:
                comp = parse_bool(itask.state.outputs._completion_expression.replace('_', '-') if False else itask.state.outputs._completion_expression,
                                  r'[A-Za-z_][\w]*', ops=('and', 'or'))
                outs = [[t, m, r] for t, (m, r) in tdef.outputs.items()]
                # additive (C29): what `cylc set` without --out completes: the required output messages, or
                # (none required) the skip-mode outputs
                from cylc.flow.run_modes.skip import process_outputs as _skip_outputs
                req_msgs = sorted(itask.state.outputs.iter_required_messages())
                skip_msgs = sorted(_skip_outputs(itask))
        fp = tdef.next_point_parentless(cfg.start_point)
        inst = inst_valid
        tasks[name] = {
            'inst': inst,
            'first_parentless': None if fp is None else int(fp),
            'completion': comp,
            'outputs': outs if inst else [],
            'exec_retries': len(tdef.rtconfig['execution retry delays'] or []),
            'sub_retries': len(tdef.rtconfig['submission retry delays'] or []),
            # additive (C29): whether the retry delays are non-zero (the retry xtrigger is not satisfied within a run)
            'exec_retry_long': any(float(d) > 0 for d in (tdef.rtconfig['execution retry delays'] or [])),
            'sub_retry_long': any(float(d) > 0 for d in (tdef.rtconfig['submission retry delays'] or [])),
            'has_abs': bool(tdef.has_abs_triggers),
            'sequential': bool(tdef.sequential),
            'required': req_msgs if inst else [],
            'skip_out': skip_msgs if inst else [],
        }
        if inst_off_wanted:
            tasks[name]['inst_off'] = inst_off
            if not inst:
                tasks[name]['outputs'] = outs if inst_off else []
    seqs = []
    for seq in cfg.sequences:
        seqs.append([p for p in range(icp, fcp + 1) if seq.is_valid(get_point(str(p)))])
    return {
        'icp': icp, 'fcp': fcp, 'start': start,
        'runahead': str(cfg.runahead_limit),
        'tasks': tasks, 'order': list(schd.pool.task_name_list), 'seqs': seqs,
        'stop_point': None if schd.pool.stop_point is None else int(schd.pool.stop_point),
        'cfg_stop': None if cfg.stop_point is None else int(cfg.stop_point),
        # additive (C19 broadcasts): the namespaces a broadcast may address, and the longest cycling interval
        # (automatic broadcast expiry: cutoff = oldest pooled cycle - this)
        'namespaces': sorted(schd.broadcast_mgr.linearized_ancestors),
        'longest_interval': _longest_interval(cfg),
        # additive (C27): `stop after cycle point` as written in the flow.cylc text (cfg.stop_point is overridden
        # by the --stopcp option / the database value); null if absent or beyond the final point
        'cfg_stop_file': _stop_in_file(flow_text if flow_text is not None else case.get('flow'), fcp),
        # additive (C05S): the internal queues as built by IndepQueueManager (dict order): [name, limit, members]
        'queues': [[qn, int(q.limit), sorted(q.members)] for qn, q in schd.pool.task_queue_mgr.queues.items()],
    }


def _render_key(path):
    """(C19 broadcasts) the broadcast_states key of an item: [section]...item"""
    return ''.join(f'[{s}]' for s in path[:-1]) + path[-1]


def _parse_key(key):
    return re.findall(r'\[([^\]]+)\]', key) + [key.rsplit(']', 1)[-1]]


def _nest(leaves):
    """(C19 broadcasts) [[path, value], ...] -> nested setting dictionary"""
    d = {}
    for path, value in leaves:
        cur = d
        for sect in path[:-1]:
            cur = cur.setdefault(sect, {})
        cur[path[-1]] = value
    return d


def _flat_broadcasts(broadcasts):
    out = []

    def walk(point, ns, path, stuff):
        for k, v in stuff.items():
            if isinstance(v, dict):
                walk(point, ns, path + [k], v)
            else:
                out.append([str(point), str(ns), _render_key(path + [k]),
                            ', '.join(str(x) for x in v) if isinstance(v, (list, tuple)) else str(v)])
    for point, nss in dict(broadcasts).items():
        for ns, settings in dict(nss).items():
            walk(point, ns, [], settings)
    return sorted(out)


def _stop_in_file(text, fcp):
    m = re.search(r'^[ \t]*stop after cycle point[ \t]*=[ \t]*(\d+)[ \t]*$', text or '', re.M)
    if not m or int(m.group(1)) > fcp:
        return None
    return int(m.group(1))


async def run_case(case):
    if case.get('dt'):
        # additive (C32): datetime cycling on an hourly grid + virtual clock, see runner_dt.py
        import runner_dt
        run = runner_dt.make_run(case)
    else:
        if 'runner_dt' in sys.modules:
            sys.modules['runner_dt'].done()     # back to integer cycling / the real clock
        run = Run(case)
    try:
        return await run.drive()
    except Exception:
        stage = 'load' if getattr(run, 'load_error', None) else 'run'
        return {'id': case['id'], 'error': traceback.format_exc()[-3000:], 'stage': stage,
                # additive: the ops applied before the exception and the op that raised
                'ops_done': getattr(run, 'ops_done', None), 'op_failed': getattr(run, 'cur_op', None)}


def main():
    out = os.fdopen(os.dup(1), 'w')
    devnull = os.open(os.devnull, os.O_WRONLY)
    os.dup2(devnull, 1)
    os.dup2(devnull, 2)
    code = 0
    try:
        for line in sys.stdin:
            line = line.strip()
            if not line:
                continue
            case = json.loads(line)
            res = asyncio.run(run_case(case))
            out.write(json.dumps(res, separators=(',', ':')) + '\n')
            out.flush()
    except Exception:
        out.write(json.dumps({'fatal': traceback.format_exc()[-2000:]}) + '\n')
        out.flush()
        code = 3
    finally:
        shutil.rmtree(_SCRATCH, ignore_errors=True)
        out.flush()
        os._exit(code)


if __name__ == '__main__':
    main()
