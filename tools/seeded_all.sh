#!/bin/bash
# usage: tools/seeded_all.sh <seeded-dir-name>   -- runs the property's check and all its sub-checks against the change
name=$1; pid=$(/venv/bin/python -c "import json;print(json.load(open('/verif/seeded/$name/meta.json'))['property'])")
checks=$(cd /verif/harness && /venv/bin/python -c "
import sys; sys.path.insert(0,'.'); import core
p=core.load_prop('$pid'); print(' '.join(['$pid']+list(getattr(p,'also',[]))))" 2>/dev/null)
wt=/tmp/wt-sa-$name-$$
git -C /repo worktree add -q --detach "$wt" HEAD || exit 3
if ! git -C "$wt" apply /verif/seeded/$name/patch.diff 2>/dev/null; then echo "$name APPLY-FAILED"; git -C /repo worktree remove --force "$wt"; exit 3; fi
res=""
for c in $checks; do
  VERIF_REPO=$wt VERIF_SEED=0 /verif/check $c > /tmp/sa-$name-$c.out 2>&1; rc=$?
  v=$(grep -m1 '^VIOLATION' /tmp/sa-$name-$c.out | grep -c 'no-failing-input-found')
  if [ $rc = 1 ]; then res="$res $c:CAUGHT$([ $v = 1 ] && echo '(tie-only)')"; else res="$res $c:rc$rc"; fi
done
git -C /repo worktree remove --force "$wt"
echo "$name ->$res"
