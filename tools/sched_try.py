"""Quick experiment: run generated scheduler cases [a,b) of a kind through the real Scheduler and a Lean driver.

    /venv/bin/python tools/sched_try.py 0 100 complete C26

Prints feature coverage, model/implementation disagreements (first differing observation) and judge failures."""
import sys, json, random, subprocess
sys.path.insert(0,'/verif/harness'); sys.path.insert(0,'/verif/harness/sched')
import core
from prop import run_workers
import gen as sgen
a,b,kind=int(sys.argv[1]),int(sys.argv[2]),sys.argv[3]
drv=sys.argv[4] if len(sys.argv)>4 else 'C26'
use_input=lambda r: {'graph':r['graph'],'ops':r['ops']}
cases=[sgen.gen_case(s,kind) for s in range(a,b)]
res=run_workers(cases,16)
ok=[r for r in res if 'error' not in r]
print('ran',len(ok),'load errors',sum(1 for r in res if r.get('stage')=='load'),'run errors',sum(1 for r in res if r.get('stage')=='run'))
for r in res:
    if r.get('stage')=='run': print(r['id'], r['error'].strip().splitlines()[-1][:200])
feat={'abs':0,'sui':0,'seq':0,'start':0,'stop':0,'retry':0}
for r in ok:
    g=r['graph']
    if any(c[2] for t in g['tasks'].values() for i in t['inst'].values() for cs in i['children'].values() for c in cs): feat['abs']+=1
    if any(i['sui'] for t in g['tasks'].values() for i in t['inst'].values()): feat['sui']+=1
    if any(t['sequential'] for t in g['tasks'].values()): feat['seq']+=1
    if g['start']!=g['icp']: feat['start']+=1
    if g['stop_point']!=g['fcp']: feat['stop']+=1
    if any(t['exec_retries'] or t['sub_retries'] for t in g['tasks'].values()): feat['retry']+=1
print(feat)
lines=''.join(json.dumps({'i':{'graph':r['graph'],'ops':r['ops']},'o':r['obs']})+'\n' for r in ok)
out=subprocess.run(['/verif/lean/.lake/build/bin/drv_'+drv],input=lines,capture_output=True,text=True)
bad=0
for r,l in zip(ok,out.stdout.splitlines()):
    rep=json.loads(l)
    if 'err' in rep: print('DRVERR',r['id'],rep['err']); bad+=1; continue
    if any(any(x.get(k)!=y.get(k) for k in x) for x,y in zip(rep['m'],r['obs'])) or len(rep['m'])!=len(r['obs']):
        bad+=1
        m=rep['m']; o=r['obs']
        for idx,(x,y) in enumerate(zip(m,o)):
            if any(x.get(k)!=y.get(k) for k in x):
                ks=[k for k in x if x.get(k)!=y.get(k)]
                print(r['id'],'diff at',idx,'op',r['ops'][idx-1] if idx else 'start',ks)
                if 'pool' in ks:
                    am={(t['p'],t['n']):t for t in x['pool']}; bm={(t['p'],t['n']):t for t in y['pool']}
                    for kk in sorted(set(am)|set(bm)):
                        if am.get(kk)!=bm.get(kk): print('    ',kk,'\n      model',am.get(kk),'\n      impl ',bm.get(kk))
                else:
                    for k in ks: print('    ',k,'model',x.get(k),'impl',y[k])
                break
    if not rep['h']: print('JUDGE',r['id'],rep['why'])
print('disagree',bad,'of',len(ok))
json.dump([r for r in res], open('/tmp/sched_try_res.json','w'))
