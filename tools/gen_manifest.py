#!/venv/bin/python
"""Regenerate MANIFEST.json from the property modules in harness/props/ (run after adding a property)."""
import json
import sys
from pathlib import Path

VERIF = Path(__file__).resolve().parents[1]
sys.path.insert(0, str(VERIF / 'harness'))
import core  # noqa: E402

BASELINE = json.load(open('/root/.vp/BASELINE.json'))['cmd'] if Path('/root/.vp/BASELINE.json').exists() else \
    'cd /repo && /venv/bin/python -m pytest -ra -q -p no:cacheprovider --timeout=900 --continue-on-collection-errors --junitxml=<file>'

all_ids = [json.loads(ln)['id'] for ln in open(VERIF / 'properties.jsonl')]
ready = set(json.loads((VERIF / 'ready.json').read_text()))
claimed = [i for i in core.all_prop_ids() if i in all_ids and i in ready]
reasons = {}
f = VERIF / 'not_claimed.json'
if f.exists():
    reasons = json.loads(f.read_text())
hooks_file = VERIF / 'hooks.json'
hook_commits = json.loads(hooks_file.read_text()) if hooks_file.exists() else []

checks = []
for pid in claimed:
    p = core.load_prop(pid)
    if getattr(p, 'disabled', False):
        reasons.setdefault(pid, getattr(p, 'disabled_reason', 'check disabled'))
        continue
    checks.append({
        'property_id': pid,
        'quick_cmd': ' && '.join(f'./check {x} --tier quick' for x in [pid] + list(getattr(p, 'also', []))),
        'thorough_cmd': ' && '.join(f'./check {x} --tier thorough' for x in [pid] + list(getattr(p, 'also', []))),
        'evidence_file': f'evidence/{pid}.json',
        'replay_cmd_template': f'./check {pid} --replay {{path}}',
        'engine': 'lean-model+harness',
        'level_claimed': {
            'category': 'proof',
            'text': p.statement_note,
            'design_ref': f'DESIGN.md section 5 ({pid})',
        },
        'level_note': (''.join(f'[{x}: {core.load_prop(x).statement_note}] ' for x in getattr(p, 'also', []))) + '; '.join(core.BASE_TRUSTED[:2] + list(p.trusted) + [f'not modelled: {u}' for u in p.unmodelled]),
        'technique': getattr(p, 'technique', 'Lean 4 theorems over an executable model + correspondence with the implementation'),
    })
claimed_ids = {c['property_id'] for c in checks}
na = [{'property_id': i, 'reason': reasons.get(i, 'not claimed yet: the Lean model, theorems and correspondence for this property are not built (time); design in DESIGN.md section 5')}
      for i in all_ids if i not in claimed_ids]
manifest = {
    'version': 1,
    'setup_cmd': './check --setup',
    'hooks': {
        'guard': core.GUARD,
        'enable': f'checks set {core.GUARD}=1 in their own process; all other instrumentation is applied from the harness process (no build step)',
        'baseline_off_cmd': BASELINE,
        'source_commits': hook_commits,
        'add_only': True,
    },
    'engines': [
        {'name': 'lean-model', 'path': 'lean/', 'serves_properties': sorted(claimed_ids),
         'kind_free_text': 'Lean 4 executable models, property theorems (lean/CylcModel/Props), per-property driver executables with the judge'},
        {'name': 'harness', 'path': 'harness/', 'serves_properties': sorted(claimed_ids),
         'kind_free_text': 'Python: translator of source tables to Lean, generators, adapters running the real cylc-flow code in-process, correspondence diff, failing-input search, evidence'},
    ],
    'checks': checks,
    'not_applicable': na,
    'notes': 'Every check rebuilds generated Lean tables from /repo (or $VERIF_REPO), re-checks the theorems, audits axioms, then runs the correspondence. Exit 2 = infrastructure failure, never a verdict.',
}
(VERIF / 'MANIFEST.json').write_text(json.dumps(manifest, indent=1) + '\n')
print(f'{len(checks)} checks, {len(na)} not claimed')
