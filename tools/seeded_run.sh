#!/bin/bash
# usage: tools/seeded_run.sh <seeded-dir-name> <check-id> [seed]
# Applies /verif/seeded/<name>/patch.diff to a scratch worktree of /repo's HEAD (never to /repo),
# runs ./check <check-id> against it and removes the worktree.
set -u
name=$1; chk=$2; seed=${3:-0}
wt=/tmp/wt-seeded-$name-$$
git -C /repo worktree add -q --detach "$wt" HEAD || exit 3
if ! git -C "$wt" apply /verif/seeded/$name/patch.diff 2>/tmp/apply-$$.err; then
  echo "APPLY-FAILED $name: $(head -2 /tmp/apply-$$.err)"; git -C /repo worktree remove --force "$wt"; exit 3
fi
VERIF_REPO=$wt VERIF_SEED=$seed /verif/check $chk > /tmp/seeded-$name-$chk.out 2>&1
rc=$?
echo "$name vs $chk seed=$seed rc=$rc: $(grep -m1 VIOLATION /tmp/seeded-$name-$chk.out | cut -c1-200)"
tail -1 /tmp/seeded-$name-$chk.out | cut -c1-250
git -C /repo worktree remove --force "$wt"
# restore evidence/generated files for the unchanged tree
exit $rc
