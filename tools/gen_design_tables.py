#!/venv/bin/python
"""Regenerates the generated sections of DESIGN.md (between <!-- BEGIN:x --> / <!-- END:x --> markers) from
findings/*.json (defects repaired / recorded), seeded/*/meta.json (independently seeded regressions and which
check caught them) and mutants/*/RESULTS.txt (the builders' own mutants).  Never run by a check."""
import glob
import json
import re
import subprocess
from pathlib import Path

V = Path(__file__).resolve().parent.parent


def one_line(s, n):
    s = re.sub(r'\s+', ' ', str(s)).strip().replace('|', '\\|')
    return s if len(s) <= n else s[:n - 1].rstrip() + '…'


def fixes():
    subj = {}
    try:
        out = subprocess.run(['git', '-C', '/repo', 'log', '--format=%h %s', '-n', '80'], capture_output=True, text=True).stdout
        for ln in out.splitlines():
            h, s = ln.split(' ', 1)
            if s.startswith('fix:'):
                subj[h] = s
    except Exception:
        pass
    rows = {}
    for f in sorted(glob.glob(str(V / 'findings' / 'C*.json'))):
        pid = Path(f).stem
        for e in json.load(open(f)):
            if e.get('kind') == 'fixed' and e.get('commit'):
                for c in re.split(r'[,\s]+', e['commit']):
                    if c:
                        rows.setdefault(c[:7], set()).add(pid)
    lines = ['| commit | found by | repair |', '|---|---|---|']
    order = list(subj)[::-1]
    for c in order:
        lines.append(f'| {c} | {", ".join(sorted(rows.get(c, ["(see §12.4 text)"])))} | {one_line(subj[c][4:], 150)} |')
    for c in rows:
        if c not in subj:
            lines.append(f'| {c} | {", ".join(sorted(rows[c]))} | (commit not among the last 80 of /repo) |')
    return '\n'.join(lines)


def known():
    lines = ['| check | finding key | what fails (first words; exact witness in findings/<check>.json) |', '|---|---|---|']
    for f in sorted(glob.glob(str(V / 'findings' / 'C*.json'))):
        pid = Path(f).stem
        seen = set()
        for e in json.load(open(f)):
            if e.get('kind') == 'finding' and e.get('key') not in seen:
                seen.add(e.get('key'))
                w = e.get('what', '')
                k = e.get('key') or ''
                if w.startswith(k + ':'):
                    w = w[len(k) + 1:]
                lines.append(f'| {pid} | {k} | {one_line(w, 170)} |')
    return '\n'.join(lines)


def seeded():
    lines = ['| seeded change | property | what it changes | needs | result |', '|---|---|---|---|---|']
    for d in sorted(glob.glob(str(V / 'seeded' / '*'))):
        mf = Path(d) / 'meta.json'
        if not mf.exists():
            continue
        m = json.load(open(mf))
        lines.append(f'| seeded/{Path(d).name} | {m.get("property")} | {one_line(m.get("summary", ""), 160)} | '
                     f'{one_line(m.get("needs", ""), 110)} | {one_line(m.get("verif_result", "not yet run"), 200)} |')
    return '\n'.join(lines)


def mutants():
    lines = ['| check | builders\' own mutants (mutants/<check>/) |', '|---|---|']
    for d in sorted(glob.glob(str(V / 'mutants' / '*'))):
        diffs = sorted(p.name for p in Path(d).glob('*.diff'))
        res = Path(d) / 'RESULTS.txt'
        note = ''
        if res.exists():
            t = res.read_text()
            note = f' — RESULTS.txt: {len(re.findall(r"(?i)exit 1|VIOLATION|caught", t))} caught-lines, {len(re.findall(r"(?i)harmless", t))} harmless-lines'
        lines.append(f'| {Path(d).name} | {len(diffs)} diffs: {one_line(", ".join(x[:-5] for x in diffs), 200)}{note} |')
    return '\n'.join(lines)


def main():
    p = V / 'DESIGN.md'
    s = p.read_text()
    for name, fn in (('fixes', fixes), ('known', known), ('seeded', seeded), ('mutants', mutants)):
        a, b = f'<!-- BEGIN:{name} -->', f'<!-- END:{name} -->'
        if a in s and b in s:
            s = s[:s.index(a) + len(a)] + '\n' + fn() + '\n' + s[s.index(b):]
    p.write_text(s)


if __name__ == '__main__':
    main()
