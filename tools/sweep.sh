#!/bin/bash
# usage: tools/sweep.sh <seed> [tier]  -- runs every claimed check and sub-check once against /repo, prints id rc secs
seed=$1; tier=${2:-quick}
cd /verif
ids=$(cd harness && /venv/bin/python -c "
import sys,json; sys.path.insert(0,'.'); import core
r=json.load(open('../ready.json')); ids=r if isinstance(r,list) else r['ready']
out=[]
for i in ids:
    out.append(i); out+=list(getattr(core.load_prop(i),'also',[]))
print(' '.join(out))" 2>/dev/null)
for id in $ids; do
  t0=$(date +%s)
  VERIF_SEED=$seed ./check $id --tier $tier > /tmp/sweep-$seed-$id.out 2>&1
  rc=$?
  echo "$id rc=$rc $(( $(date +%s) - t0 ))s $(grep -c '^VIOLATION' /tmp/sweep-$seed-$id.out) violations"
done
