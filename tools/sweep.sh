#!/bin/bash
# usage: tools/sweep.sh <seed> [tier]  -- runs every claimed check once, prints id rc secs
seed=$1; tier=${2:-quick}
cd /verif
for id in $(/venv/bin/python -c "import json;r=json.load(open('ready.json'));print(' '.join((r if isinstance(r,list) else r['ready'])+['C05S','C08S','C11S']))"); do
  t0=$(date +%s)
  VERIF_SEED=$seed ./check $id --tier $tier > /tmp/sweep-$seed-$id.out 2>&1
  rc=$?
  echo "$id rc=$rc $(( $(date +%s) - t0 ))s $(grep -c '^VIOLATION' /tmp/sweep-$seed-$id.out) violations"
done
