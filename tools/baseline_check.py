#!/venv/bin/python
"""Run the repository's test suite (guard off) and compare with BASELINE.json's stable_pass list."""
import json, subprocess, sys, os, xml.etree.ElementTree as ET
out='/tmp/verif_baseline.junit.xml'
env=dict(os.environ); env.pop('CYLC_FLOW_VERIF',None)
nproc=sys.argv[1] if len(sys.argv)>1 else '8'
subprocess.run(['/venv/bin/python','-m','pytest','-q','-p','no:cacheprovider','--timeout=900','--continue-on-collection-errors','-n',nproc,f'--junitxml={out}'],cwd='/repo',env=env,stdout=subprocess.DEVNULL,stderr=subprocess.DEVNULL)
b=json.load(open('/root/.vp/BASELINE.json'))
passed=set()
for tc in ET.parse(out).getroot().iter('testcase'):
    if not any(ch.tag in ('failure','error','skipped') for ch in tc):
        passed.add(f"{tc.get('classname')}::{tc.get('name')}")
missing=[t for t in b['stable_pass'] if t not in passed]
print('stable_pass',len(b['stable_pass']),'passed now',len(passed),'missing',len(missing))
for t in missing[:40]: print('  MISSING',t)
